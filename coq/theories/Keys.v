(* Keys.v — index key builders and the LMDB table abstraction pocket relies on
   (lmdb/mod.rs 403-655).  A table is a finite map from byte-string keys to u64 values,
   iterated in ascending memcmp order of the keys; nothing else of LMDB is modelled. *)
From Pocket Require Export Layout.

Definition U64MAX : N := 18446744073709551615.
Definition rev_time (t : N) : bytes := be64 (U64MAX - t).

Definition PADLEN : N := 182.
Definition pad182 (v : bytes) : bytes :=
  if len v <=? PADLEN then v ++ repeat 0 (N.to_nat (PADLEN - len v)) else take PADLEN v.

Definition zeros32 : bytes := repeat 0 32.
Definition ffs32 : bytes := repeat 255 32.

Definition key_ci (t : N) (id : bytes) : bytes := rev_time t ++ id.
Definition key_tc (letter : N) (v : bytes) (t : N) (id : bytes) : bytes :=
  [letter] ++ pad182 v ++ rev_time t ++ id.
Definition key_ac (a : bytes) (t : N) (id : bytes) : bytes := a ++ rev_time t ++ id.
Definition key_akc (a : bytes) (k : N) (t : N) (id : bytes) : bytes := a ++ be16 k ++ rev_time t ++ id.
Definition key_atc (a : bytes) (letter : N) (v : bytes) (t : N) (id : bytes) : bytes :=
  a ++ [letter] ++ pad182 v ++ rev_time t ++ id.
Definition key_ktc (k : N) (letter : N) (v : bytes) (t : N) (id : bytes) : bytes :=
  be16 k ++ [letter] ++ pad182 v ++ rev_time t ++ id.

Record addr := mkAddr { a_kind : N; a_author : bytes; a_d : bytes }.

(* key_naddr_index: kind(2) author(32) dlen(1) d; d is padded to 182 bytes when shorter and
   appended WHOLE when longer (the `dlen <= PADLEN` test is always true after the min) *)
Definition key_naddr (a : addr) : bytes :=
  let dlen := N.min (len (a_d a)) 182 in
  be16 (a_kind a) ++ a_author a ++ [dlen] ++ a_d a ++ repeat 0 (N.to_nat (PADLEN - dlen)).

(* ---------- tables ---------- *)
Definition table := list (bytes * N).

Fixpoint t_get (t : table) (k : bytes) : option N :=
  match t with
  | [] => None
  | (k', v) :: r => if beq k' k then Some v else t_get r k
  end.
Definition t_del (t : table) (k : bytes) : table := filter (fun e => negb (beq (fst e) k)) t.
Definition t_put (t : table) (k : bytes) (v : N) : table := (k, v) :: t_del t k.

(* LMDB refuses keys longer than 511 bytes (MDB_BAD_VALSIZE) on put *)
Definition MAXKEY : N := 511.
Definition t_put_checked (t : table) (k : bytes) (v : N) : res table :=
  if MAXKEY <? len k then Err EKeySize else Ok (t_put t k v).

Fixpoint insert_sorted (e : bytes * N) (l : table) : table :=
  match l with
  | [] => [e]
  | x :: r => if lex_lt (fst x) (fst e) then x :: insert_sorted e r else e :: l
  end.
Fixpoint sort_table (l : table) : table :=
  match l with [] => [] | e :: r => insert_sorted e (sort_table r) end.

(* heed RoRange over (Included lo, Included hi): ascending key order *)
Definition t_range (t : table) (lo hi : bytes) : table :=
  sort_table (filter (fun e => lex_le lo (fst e) && lex_le (fst e) hi) t).
Definition t_iter (t : table) : table := sort_table t.

(* kind classes (kind.rs) *)
Definition is_replaceable (k : N) : bool := ((10000 <=? k) && (k <? 20000)) || (k =? 0) || (k =? 3).
Definition is_ephemeral (k : N) : bool := (20000 <=? k) && (k <? 30000).
Definition is_param_replaceable (k : N) : bool := (30000 <=? k) && (k <? 40000).
