(* Layout.v — the packed binary layouts of Tags, Event and Filter as *specification*
   encoders over abstract values (tags.rs 7-18, event.rs 9-21, filter.rs 9-22).
   The length fields truncate exactly like the code's `as u16` / `as u32`
   ([le16]/[le32] reduce modulo); [fits_*] says when nothing is truncated. *)
From Pocket Require Export Bytes.

Definition atags := list (list bytes).

Fixpoint sumN (l : list N) : N := match l with [] => 0 | x :: r => x + sumN r end.
Lemma sumN_app a b : sumN (a ++ b) = sumN a + sumN b.
Proof. induction a as [|x a IH]; cbn [app sumN]; lia. Qed.

Definition enc_str (s : bytes) : bytes := le16 (len s) ++ s.
Definition str_size (s : bytes) : N := 2 + len s.
Definition enc_tag (t : list bytes) : bytes := le16 (len t) ++ concat (map enc_str t).
Definition tag_size (t : list bytes) : N := 2 + sumN (map str_size t).

Lemma len_concat_map {A} (f : A -> bytes) (sz : A -> N) l :
  (forall x, len (f x) = sz x) -> len (concat (map f l)) = sumN (map sz l).
Proof.
  intros H. induction l as [|x l IH]; cbn [map concat sumN]; auto.
  rewrite len_app, H, IH. reflexivity.
Qed.
Lemma len_enc_str s : len (enc_str s) = str_size s.
Proof. unfold enc_str, str_size. rewrite len_app, len_le16. reflexivity. Qed.
Lemma len_enc_tag t : len (enc_tag t) = tag_size t.
Proof.
  unfold enc_tag, tag_size. rewrite len_app, len_le16.
  rewrite (len_concat_map enc_str str_size) by apply len_enc_str. reflexivity.
Qed.

(* offsets of the tags, given the offset [base] of the first one *)
Fixpoint offsets (base : N) (ts : atags) : list N :=
  match ts with [] => [] | t :: r => base :: offsets (base + tag_size t) r end.

Definition tags_hdr (ts : atags) : N := 4 + 2 * len ts.
Definition tags_size (ts : atags) : N := tags_hdr ts + sumN (map tag_size ts).

Definition enc_tags (ts : atags) : bytes :=
  le16 (tags_size ts) ++ le16 (len ts)
  ++ concat (map le16 (offsets (tags_hdr ts) ts))
  ++ concat (map enc_tag ts).

Definition fits_tags (ts : atags) : Prop := tags_size ts < 65536.
Definition fits_tagsb (ts : atags) : bool := tags_size ts <? 65536.

Lemma len_offsets base ts : len (offsets base ts) = len ts.
Proof. revert base; induction ts as [|t r IH]; intros; cbn [offsets]; auto. rewrite !len_cons, IH. reflexivity. Qed.
Lemma len_offtab base ts : len (concat (map le16 (offsets base ts))) = 2 * len ts.
Proof.
  rewrite (len_concat_map le16 (fun _ => 2)) by apply len_le16.
  rewrite <- (len_offsets base ts). generalize (offsets base ts) as l.
  induction l as [|x l IH]; cbn [map sumN]; [reflexivity|]. rewrite len_cons, IH. lia.
Qed.
Lemma len_enc_tags ts : len (enc_tags ts) = tags_size ts.
Proof.
  unfold enc_tags. rewrite !len_app, !len_le16, len_offtab.
  rewrite (len_concat_map enc_tag tag_size) by apply len_enc_tag.
  unfold tags_size, tags_hdr. lia.
Qed.

(* ---- events ---- *)
Record aevent := mkE {
  e_id : bytes; e_pk : bytes; e_sig : bytes;
  e_kind : N; e_created : N; e_tags : atags; e_content : bytes }.

Definition event_size (e : aevent) : N := 144 + tags_size (e_tags e) + 4 + len (e_content e).

Definition enc_event (e : aevent) : bytes :=
  le32 (event_size e) ++ le16 (e_kind e) ++ [0; 0] ++ le64 (e_created e)
  ++ e_id e ++ e_pk e ++ e_sig e
  ++ enc_tags (e_tags e) ++ le32 (len (e_content e)) ++ e_content e.

Definition wf_aevent (e : aevent) : Prop :=
  len (e_id e) = 32 /\ len (e_pk e) = 32 /\ len (e_sig e) = 64 /\
  e_kind e < 65536 /\ e_created e < 18446744073709551616.
Definition fits_event (e : aevent) : Prop :=
  fits_tags (e_tags e) /\ event_size e < 4294967296.
Definition wf_aeventb (e : aevent) : bool :=
  (len (e_id e) =? 32) && (len (e_pk e) =? 32) && (len (e_sig e) =? 64)
  && (e_kind e <? 65536) && (e_created e <? 18446744073709551616).
Definition fits_eventb (e : aevent) : bool :=
  fits_tagsb (e_tags e) && (event_size e <? 4294967296).

Lemma len_enc_event e : wf_aevent e -> len (enc_event e) = event_size e.
Proof.
  intros (Hi & Hp & Hs & _). unfold enc_event, event_size.
  rewrite !len_app, len_le32, len_le16, len_le64, len_enc_tags, Hi, Hp, Hs.
  change (len [0; 0]) with 2. rewrite len_le32. lia.
Qed.

(* ---- filters ---- *)
Record afilter := mkF {
  f_ids : list bytes; f_authors : list bytes; f_kinds : list N; f_tags : atags;
  f_since : N; f_until : N; f_limit : N }.

Definition filter_size (f : afilter) : N :=
  32 + 32 * len (f_ids f) + 32 * len (f_authors f) + 2 * len (f_kinds f) + tags_size (f_tags f).

Definition enc_filter (f : afilter) : bytes :=
  le32 (filter_size f) ++ le16 (len (f_ids f)) ++ le16 (len (f_authors f)) ++ le16 (len (f_kinds f))
  ++ [0; 0] ++ le32 (f_limit f) ++ le64 (f_since f) ++ le64 (f_until f)
  ++ concat (f_ids f) ++ concat (f_authors f) ++ concat (map le16 (f_kinds f))
  ++ enc_tags (f_tags f).

Definition wf_afilter (f : afilter) : Prop :=
  Forall (fun i => len i = 32) (f_ids f) /\ Forall (fun a => len a = 32) (f_authors f) /\
  Forall (fun k => k < 65536) (f_kinds f) /\
  f_since f < 18446744073709551616 /\ f_until f < 18446744073709551616 /\ f_limit f < 4294967296.
Definition fits_filter (f : afilter) : Prop :=
  len (f_ids f) < 65536 /\ len (f_authors f) < 65536 /\ len (f_kinds f) < 65536 /\
  fits_tags (f_tags f) /\ filter_size f < 4294967296.

Definition wf_afilterb (f : afilter) : bool :=
  forallb (fun i => len i =? 32) (f_ids f) && forallb (fun a => len a =? 32) (f_authors f)
  && forallb (fun k => k <? 65536) (f_kinds f)
  && (f_since f <? 18446744073709551616) && (f_until f <? 18446744073709551616)
  && (f_limit f <? 4294967296).
Definition fits_filterb (f : afilter) : bool :=
  (len (f_ids f) <? 65536) && (len (f_authors f) <? 65536) && (len (f_kinds f) <? 65536)
  && fits_tagsb (f_tags f) && (filter_size f <? 4294967296).

Lemma len_concat_fixed (l : list bytes) n :
  Forall (fun x => len x = n) l -> len (concat l) = n * len l.
Proof.
  induction 1 as [|x l Hx _ IH]; cbn [concat]; [unfold len; cbn [length]; lia|].
  rewrite len_app, len_cons, Hx, IH. lia.
Qed.
Lemma len_concat_le16 (l : list N) : len (concat (map le16 l)) = 2 * len l.
Proof.
  induction l as [|x l IH]; cbn [map concat]; [reflexivity|].
  rewrite len_app, len_le16, len_cons, IH. lia.
Qed.

(* ---- specification-level tag queries ---- *)
(* a tag [n; v; ...] with n = letter and v = value (Tags::matches) *)
Definition tag_is (letter value : bytes) (t : list bytes) : bool :=
  match t with n :: v :: _ => beq n letter && beq v value | _ => false end.
(* value of the first tag named [key] (Tags::get_value): its second string, if any *)
Fixpoint spec_get_value (key : bytes) (l : atags) : option bytes :=
  match l with
  | [] => None
  | (n :: rest) :: l' => if beq n key then nth_error rest 0 else spec_get_value key l'
  | [] :: l' => spec_get_value key l'
  end.
