(* LogBytes.v — the event map at the byte level (event_store.rs + the part of the mmap-append crate it
   uses).  The object-level log of Db.v ([log], [log_end], [log_append], [get_event_by_offset]) is an
   abstraction of this model; LogBytesProofs.v proves the refinement.

   The persistent object is the CONTENT OF THE FILE event.map: a byte string whose first 8 bytes are
   the little-endian end marker.  The mapping is MAP_SHARED over the whole file, so writing through
   the mapping is writing the file; [set_len] extends the file with zero bytes (or truncates it).
   [flen] is the length EventStore remembers in [event_map_file_len].

   CHUNK (2048 in the debug profile, 4 MiB in the release profile) is a parameter everywhere.
   Executable, extracted; no proofs inside. *)
From Pocket Require Export Bytes Layout Access Db.

Record emap := mkEmap { file : bytes; flen : N }.

Definition zeros (n : N) : bytes := repeat 0 (N.to_nat n).

(* File::set_len *)
Definition set_len (f : bytes) (n : N) : bytes := take n f ++ zeros (n - len f).

(* MmapAppend::get_end: usize::from_le_bytes(slice[0..8]) *)
Definition get_end (f : bytes) : N := match rd64 f with Some e => e | None => 0 end.
(* slice[0..8].copy_from_slice(&e.to_le_bytes()) *)
Definition put_end (f : bytes) (e : N) : bytes := le64 e ++ drop 8 f.
(* dst.copy_from_slice(b) for dst = slice[off..off+len b] *)
Definition write_at (f : bytes) (off : N) (b : bytes) : bytes :=
  take off f ++ b ++ drop (off + len b) f.

(* MmapAppend::append(max_len, writer) with a writer that fills all of its slice with [data]:
   None = the error Out of space *)
Definition mm_append (f data : bytes) : option (bytes * N) :=
  let e := get_end f in
  if len f <? e + len data then None
  else Some (put_end (write_at f e data) (e + len data), e).

(* MmapAppend::append(n, |_| Ok(n)): the writer writes nothing (the padding of store_event) *)
Definition mm_skip (f : bytes) (n : N) : option bytes :=
  let e := get_end f in
  if len f <? e + n then None else Some (put_end f (e + n)).

(* EventStore::new on a file with content [f] ([] when it did not exist) *)
Definition es_open (chunk : N) (f : bytes) : emap :=
  if (len f <? 8) || (get_end f <? 8)
  then mkEmap (put_end (set_len f chunk) 8) chunk
  else mkEmap f (len f).

(* the retry loop of EventStore::store_event; one unit of fuel per growth step *)
Fixpoint grow_loop (chunk : N) (fuel : nat) (f : bytes) (fl : N) (b : bytes) : res (emap * N) :=
  match mm_append f b with
  | Some (f', off) => Ok (mkEmap f' fl, off)
  | None =>
      match fuel with
      | O => OutOfFuel
      | S k => let nl := fl + chunk in grow_loop chunk k (set_len f nl) nl b
      end
  end.

(* EventStore::store_event *)
Definition es_store (chunk : N) (m : emap) (b : bytes) : res (emap * N) :=
  let e := get_end (file m) in
  match (if e mod 8 =? 0 then Some (file m) else mm_skip (file m) (8 - e mod 8)) with
  | None => Err EOther
  | Some f1 => grow_loop chunk (S (length b)) f1 (flen m) b
  end.

(* EventStore::get_event_by_offset: the Deref slice of MmapAppend is [0, end) *)
Definition es_get (m : emap) (off : N) : res bytes :=
  let e := get_end (file m) in
  if e <=? off then Err EEnd else ev_delineate (drop off (take e (file m))).

(* EventStore::read_event_map_end *)
Definition es_end (m : emap) : N := get_end (file m).

(* The file content a history of appends produces: replay of an object-level log (newest first)
   against the byte-level store; None when an offset differs from the recorded one. *)
Fixpoint replay_log (chunk : N) (m : emap) (oldest_first : list (N * aevent)) : option emap :=
  match oldest_first with
  | [] => Some m
  | (off, e) :: r =>
      match es_store chunk m (enc_event e) with
      | Ok (m', off') => if off' =? off then replay_log chunk m' r else None
      | _ => None
      end
  end.
Definition bytes_of_log (chunk : N) (lg : list (N * aevent)) : option emap :=
  replay_log chunk (es_open chunk []) (rev lg).

(* What a kill inside store_event can leave in the file.  [k] is how many bytes of the event had been
   copied beyond the marker (the copy is not atomic), [g] how many growth steps had been done. *)
Definition pad_file (f : bytes) : option bytes :=
  let e := get_end f in if e mod 8 =? 0 then Some f else mm_skip f (8 - e mod 8).
Fixpoint grown (chunk : N) (g : nat) (f : bytes) (fl : N) : bytes :=
  match g with O => f | S k => grown chunk k (set_len f (fl + chunk)) (fl + chunk) end.
Definition torn_file (chunk : N) (m : emap) (b : bytes) (g : nat) (k : N) : option bytes :=
  match pad_file (file m) with
  | None => None
  | Some f1 => let f2 := grown chunk g f1 (flen m) in Some (write_at f2 (get_end f2) (take k b))
  end.

(* The files the kill points of the verif hooks can leave inside store_event (C13 correspondence):
   untouched; padded; after each growth step (set_len done); half of the event copied beyond the marker
   (the hook append:half-copied); all of it copied, marker not yet moved; marker moved. *)
Fixpoint growth_needed (chunk : N) (fuel : nat) (f : bytes) (fl : N) (b : bytes) : nat :=
  match mm_append f b with
  | Some _ => O
  | None => match fuel with
            | O => O
            | S k => S (growth_needed chunk k (set_len f (fl + chunk)) (fl + chunk) b)
            end
  end.
Definition crash_files (chunk : N) (m : emap) (b : bytes) : list bytes :=
  match pad_file (file m) with
  | None => [file m]
  | Some f1 =>
      let g := growth_needed chunk (S (length b)) f1 (flen m) b in
      let fg := grown chunk g f1 (flen m) in
      [file m; f1] ++ map (fun j => grown chunk j f1 (flen m)) (seq 1 g)
      ++ [write_at fg (get_end fg) (take (len b / 2) b); write_at fg (get_end fg) b]
      ++ match es_store chunk m b with Ok (m', _) => [file m'] | _ => [] end
  end.
(* creation: no file yet is the caller's business; the file empty, sized, initialised *)
Definition create_files (chunk : N) : list bytes := [[]; zeros chunk; file (es_open chunk [])].
