(* LogBytesProofs.v — the byte-level event map refines the object-level log of Db.v (C04, C13, C16).

   The file always has the SHAPE  le64 E ++ used ++ free  with |used| = E - 8: the end marker, the
   bytes below the marker, and the bytes beyond it.  Every primitive is characterised on shapes;
   everything the store can observe (get_end, get_event_by_offset) depends on E and used only, which
   is why a torn copy beyond the marker, or a growth step, is invisible after a kill. *)
From Pocket Require Import LogBytes AccessProofs.

Definition B64 : N := 18446744073709551616.
Definition shape (E : N) (used free : bytes) : bytes := le64 E ++ used ++ free.

Lemma len_zeros n : len (zeros n) = n.
Proof. unfold zeros. rewrite len_repeat. lia. Qed.
Lemma zeros_add a b : zeros (a + b) = zeros a ++ zeros b.
Proof. unfold zeros. rewrite N2Nat.inj_add. apply repeat_app. Qed.

Lemma len_shape E u fr : len (shape E u fr) = 8 + len u + len fr.
Proof. unfold shape. rewrite !len_app, len_le64. lia. Qed.
Lemma get_end_shape E u fr : E < B64 -> get_end (shape E u fr) = E.
Proof. intros H. unfold get_end, shape. rewrite rd64_le64 by exact H. reflexivity. Qed.
Lemma put_end_shape E E' u fr : put_end (shape E u fr) E' = shape E' u fr.
Proof.
  unfold put_end, shape. change 8 with (len (le64 E)). rewrite drop_app_len. reflexivity.
Qed.
Lemma shape_split E u fr : shape E u fr = (le64 E ++ u) ++ fr.
Proof. unfold shape. rewrite app_assoc. reflexivity. Qed.
Lemma len_hdr_used E u : len u + 8 = E -> len (le64 E ++ u) = E.
Proof. intros H. rewrite len_app, len_le64. lia. Qed.

Lemma write_at_shape E u fr b :
  len u + 8 = E -> len b <= len fr ->
  write_at (shape E u fr) E b = shape E (u ++ b) (drop (len b) fr).
Proof.
  intros HE Hb. unfold write_at. rewrite shape_split.
  pose proof (len_hdr_used E u HE) as L.
  replace (take E ((le64 E ++ u) ++ fr)) with (take (len (le64 E ++ u)) ((le64 E ++ u) ++ fr))
    by (rewrite L; reflexivity).
  rewrite take_app_len.
  replace (E + len b) with (len (le64 E ++ u) + len b) by (rewrite L; reflexivity).
  rewrite drop_add_app.
  unfold shape. rewrite <- !app_assoc. reflexivity.
Qed.

Lemma take_shape E u fr : len u + 8 = E -> take E (shape E u fr) = le64 E ++ u.
Proof.
  intros HE. rewrite shape_split. pose proof (len_hdr_used E u HE) as L.
  replace (take E ((le64 E ++ u) ++ fr)) with (take (len (le64 E ++ u)) ((le64 E ++ u) ++ fr))
    by (rewrite L; reflexivity).
  apply take_app_len.
Qed.

Lemma mm_skip_shape E u fr n :
  E + n < B64 -> len u + 8 = E -> n <= len fr ->
  mm_skip (shape E u fr) n = Some (shape (E + n) (u ++ take n fr) (drop n fr)).
Proof.
  intros HB HE Hn. unfold mm_skip. rewrite get_end_shape by lia. rewrite len_shape.
  destruct (N.ltb_spec (8 + len u + len fr) (E + n)) as [C|_]; [lia|].
  rewrite put_end_shape. unfold shape. rewrite <- app_assoc, take_drop_id. reflexivity.
Qed.

Lemma mm_append_shape_ok E u fr b :
  E < B64 -> len u + 8 = E -> len b <= len fr ->
  mm_append (shape E u fr) b = Some (shape (E + len b) (u ++ b) (drop (len b) fr), E).
Proof.
  intros HB HE Hb. unfold mm_append. rewrite get_end_shape by exact HB. rewrite len_shape.
  destruct (N.ltb_spec (8 + len u + len fr) (E + len b)) as [C|_]; [lia|].
  rewrite write_at_shape by assumption. rewrite put_end_shape. reflexivity.
Qed.
Lemma mm_append_shape_full E u fr b :
  E < B64 -> len u + 8 = E -> len fr < len b -> mm_append (shape E u fr) b = None.
Proof.
  intros HB HE Hb. unfold mm_append. rewrite get_end_shape by exact HB. rewrite len_shape.
  destruct (N.ltb_spec (8 + len u + len fr) (E + len b)) as [_|C]; [reflexivity|lia].
Qed.

Lemma set_len_grow f c : set_len f (len f + c) = f ++ zeros c.
Proof.
  unfold set_len. rewrite take_all by lia. f_equal. f_equal. lia.
Qed.
Lemma set_len_shape E u fr c :
  set_len (shape E u fr) (len (shape E u fr) + c) = shape E u (fr ++ zeros c).
Proof. rewrite set_len_grow. unfold shape. rewrite <- !app_assoc. reflexivity. Qed.

(* ---------- the retry loop ---------- *)
Lemma grow_loop_shape chunk (Hc : 0 < chunk) : forall fuel E u fr fl b,
  E < B64 -> len u + 8 = E -> fl = len (shape E u fr) ->
  len b <= len fr + N.of_nat fuel ->
  exists c, grow_loop chunk fuel (shape E u fr) fl b =
            Ok (mkEmap (shape (E + len b) (u ++ b) (drop (len b) (fr ++ zeros c))) (fl + c), E)
    /\ c mod chunk = 0 /\ len b <= len fr + c /\ (c = 0 \/ len fr + c < len b + chunk).
Proof.
  induction fuel as [|k IH]; intros E u fr fl b HB HE Hfl Hfuel.
  - exists 0. cbn [grow_loop]. rewrite mm_append_shape_ok by (try assumption; lia).
    change (zeros 0) with (@nil N). rewrite app_nil_r, N.add_0_r.
    refine (conj eq_refl (conj _ (conj _ (or_introl eq_refl)))); [apply N.mod_0_l; lia | lia].
  - cbn [grow_loop]. destruct (N.le_gt_cases (len b) (len fr)) as [Hfit|Hfull].
    + exists 0. rewrite mm_append_shape_ok by assumption.
      change (zeros 0) with (@nil N). rewrite app_nil_r, N.add_0_r.
      refine (conj eq_refl (conj _ (conj _ (or_introl eq_refl)))); [apply N.mod_0_l; lia | lia].
    + rewrite mm_append_shape_full by assumption.
      cbv zeta.
      replace (set_len (shape E u fr) (fl + chunk)) with (shape E u (fr ++ zeros chunk))
        by (rewrite Hfl; symmetry; apply set_len_shape).
      destruct (IH E u (fr ++ zeros chunk) (fl + chunk) b HB HE) as (c & Hrun & Hmod & Hge & Hlt).
      { rewrite Hfl, !len_shape, len_app, len_zeros. lia. }
      { rewrite len_app, len_zeros. lia. }
      exists (chunk + c). rewrite Hrun. rewrite zeros_add, app_assoc.
      replace (fl + chunk + c) with (fl + (chunk + c)) by lia.
      rewrite len_app, len_zeros in Hge, Hlt.
      refine (conj eq_refl (conj _ (conj _ (or_intror _)))).
      * rewrite N.add_mod by lia. rewrite N.mod_same by lia. rewrite Hmod. cbn. apply N.mod_0_l. lia.
      * lia.
      * destruct Hlt as [-> | Hlt]; lia.
Qed.

(* ---------- the refinement relation ---------- *)
Definition logged (u : bytes) (p : N * aevent) : Prop :=
  wf_aevent (snd p) /\ fits_event (snd p) /\
  exists a z, u = a ++ enc_event (snd p) ++ z /\ fst p = 8 + len a.

Definition R (m : emap) (lg : list (N * aevent)) (E : N) : Prop :=
  exists u fr, file m = shape E u fr /\ len u + 8 = E /\ flen m = len (file m)
    /\ len (file m) mod 8 = 0 /\ len (file m) < B64 /\ Forall (logged u) lg.
Definition Rdb (m : emap) (s : db) : Prop := R m (log s) (log_end s).

Lemma logged_app u x p : logged u p -> logged (u ++ x) p.
Proof.
  intros (W & F & a & z & -> & Ho). refine (conj W (conj F _)).
  exists a, (z ++ x). rewrite <- !app_assoc. auto.
Qed.

Lemma R_end m lg E : R m lg E -> es_end m = E /\ 8 <= E /\ E <= len (file m).
Proof.
  intros (u & fr & Hf & HE & _ & _ & HB & _). unfold es_end. rewrite Hf in *.
  rewrite len_shape in HB. rewrite get_end_shape by lia. rewrite len_shape. lia.
Qed.

(* a fresh store *)
Lemma es_open_fresh chunk : 8 <= chunk -> chunk mod 8 = 0 -> chunk < B64 ->
  R (es_open chunk []) [] HEADER.
Proof.
  intros Hc Hm HB. unfold es_open. cbn [len length N.of_nat orb]. replace (0 <? 8) with true by reflexivity.
  cbn [orb]. unfold set_len. rewrite take_all by (cbn; lia). cbn [app len length N.of_nat].
  rewrite N.sub_0_r.
  replace chunk with (8 + (chunk - 8)) at 1 by lia. rewrite zeros_add.
  unfold put_end. change 8 with (len (zeros 8)) at 2. rewrite drop_app_len.
  exists [], (zeros (chunk - 8)). cbn [file flen]. unfold shape. cbn [app].
  assert (L : len (le64 8 ++ zeros (chunk - 8)) = chunk) by (rewrite len_app, len_le64, len_zeros; lia).
  refine (conj eq_refl (conj _ (conj _ (conj _ (conj _ (Forall_nil _)))))); try rewrite L; auto.
Qed.

(* reopening is the identity *)
Lemma es_open_id chunk m lg E : R m lg E -> es_open chunk (file m) = m.
Proof.
  intros HR. destruct (R_end _ _ _ HR) as (He & H8 & Hle).
  destruct HR as (u & fr & Hf & HE & Hfl & _). unfold es_open. unfold es_end in He. rewrite He.
  destruct (N.ltb_spec (len (file m)) 8) as [C|_]; [lia|].
  destruct (N.ltb_spec E 8) as [C|_]; [lia|]. cbn [orb].
  destruct m as [f l]. cbn [file flen] in *. rewrite Hfl. reflexivity.
Qed.

(* padding never fails and only moves the marker *)
Lemma align8_le x n : x <= n -> n mod 8 = 0 -> align8 x <= n.
Proof. unfold align8. intros H Hn. destruct (N.eqb_spec (x mod 8) 0); lia. Qed.

Lemma pad_file_shape E u fr :
  len u + 8 = E -> (len (shape E u fr)) mod 8 = 0 -> len (shape E u fr) < B64 ->
  exists u' fr', pad_file (shape E u fr) = Some (shape (align8 E) (u ++ u') fr')
    /\ fr = u' ++ fr' /\ len (u ++ u') + 8 = align8 E.
Proof.
  intros HE Hm HB. rewrite len_shape in Hm, HB. unfold pad_file. rewrite get_end_shape by lia.
  unfold align8. destruct (N.eqb_spec (E mod 8) 0) as [Z|NZ].
  - exists [], fr. rewrite app_nil_r. auto.
  - assert (Hn : 8 - E mod 8 <= len fr) by lia.
    rewrite mm_skip_shape by (try assumption; lia).
    exists (take (8 - E mod 8) fr), (drop (8 - E mod 8) fr).
    refine (conj eq_refl (conj (eq_sym (take_drop_id _ _)) _)).
    rewrite len_app, len_take. lia.
Qed.

Lemma mod8_trans c chunk : 0 < chunk -> c mod chunk = 0 -> chunk mod 8 = 0 -> c mod 8 = 0.
Proof.
  intros Hc H1 H2. apply N.mod_divides in H1; [|lia]. apply N.mod_divides in H2; [|lia].
  destruct H1 as (q & ->). destruct H2 as (q' & ->).
  rewrite <- N.mul_assoc, N.mul_comm. apply N.mod_mul. lia.
Qed.

(* ---------- store_event ---------- *)
Theorem es_store_refines chunk m lg E e :
  0 < chunk -> chunk mod 8 = 0 ->
  R m lg E -> wf_aevent e -> fits_event e ->
  len (file m) + event_size e + chunk < B64 ->
  exists m', es_store chunk m (enc_event e) = Ok (m', align8 E)
    /\ R m' ((align8 E, e) :: lg) (align8 E + event_size e)
    /\ len (file m) <= len (file m') <= len (file m) + event_size e + chunk.
Proof.
  intros Hc Hcm HR Hwf Hfit Hroom.
  destruct HR as (u & fr & Hf & HE & Hfl & Hm & HB & Hlg).
  unfold es_store. rewrite Hf in *.
  destruct (pad_file_shape E u fr HE Hm HB) as (u' & fr' & Hpad & Hfr & HE').
  unfold pad_file in Hpad. rewrite Hpad.
  assert (La : len (shape (align8 E) (u ++ u') fr') = len (shape E u fr)).
  { rewrite !len_shape, Hfr, !len_app. lia. }
  assert (HA : align8 E <= len (shape E u fr)).
  { apply align8_le; [rewrite len_shape; lia | exact Hm]. }
  destruct (grow_loop_shape chunk Hc (S (length (enc_event e))) (align8 E) (u ++ u') fr'
              (flen m) (enc_event e)) as (c & Hrun & Hcmod & Hge & Hlt).
  { lia. } { exact HE'. } { rewrite Hfl. symmetry. exact La. }
  { unfold len at 1. lia. }
  rewrite Hrun. eexists. split; [reflexivity|].
  rewrite (len_enc_event _ Hwf) in *.
  cbn [file flen].
  assert (Lnew : len (shape (align8 E + event_size e) ((u ++ u') ++ enc_event e)
                        (drop (event_size e) (fr' ++ zeros c))) = len (shape E u fr) + c).
  { rewrite <- La. rewrite !len_shape, len_drop, !len_app, len_zeros, (len_enc_event _ Hwf). lia. }
  split.
  2: { cbn [file flen]. rewrite Lnew. destruct Hlt as [-> | Hlt]; lia. }
  exists ((u ++ u') ++ enc_event e), (drop (event_size e) (fr' ++ zeros c)). cbn [file flen].
  refine (conj eq_refl (conj _ (conj _ (conj _ (conj _ _))))).
  - rewrite len_app, (len_enc_event _ Hwf). lia.
  - rewrite Lnew, Hfl. reflexivity.
  - rewrite Lnew. rewrite N.add_mod by lia. rewrite Hm, (mod8_trans c chunk Hc Hcmod Hcm). reflexivity.
  - rewrite Lnew. destruct Hlt as [-> | Hlt]; lia.
  - constructor.
    + refine (conj Hwf (conj Hfit _)). exists (u ++ u'), []. cbn [fst snd].
      rewrite app_nil_r. split; [reflexivity | lia].
    + eapply Forall_impl; [|exact Hlg]. intros p Hp.
      rewrite <- app_assoc. apply logged_app. exact Hp.
Qed.

Corollary es_store_refines_db chunk m s e :
  0 < chunk -> chunk mod 8 = 0 -> Rdb m s -> wf_aevent e -> fits_event e ->
  len (file m) + event_size e + chunk < B64 ->
  exists m', es_store chunk m (enc_event e) = Ok (m', snd (log_append s e))
    /\ Rdb m' (fst (log_append s e)).
Proof.
  intros Hc Hcm HR Hwf Hfit Hroom. unfold Rdb, log_append. cbn [fst snd log log_end].
  destruct (es_store_refines chunk m (log s) (log_end s) e Hc Hcm HR Hwf Hfit Hroom) as (m' & H1 & H2 & _).
  exists m'. auto.
Qed.

(* ---------- get_event_by_offset ---------- *)
Lemma log_find_in lg off e : log_find lg off = Some e -> In (off, e) lg.
Proof.
  induction lg as [|[o x] r IH]; cbn [log_find]; [discriminate|].
  destruct (N.eqb_spec o off) as [->|_]; [intros [= ->]; left; reflexivity | intros H; right; auto].
Qed.

Theorem es_get_refines m lg E off e :
  R m lg E -> off < E -> In (off, e) lg -> es_get m off = Ok (enc_event e).
Proof.
  intros HR Hoff Hin. destruct (R_end _ _ _ HR) as (He & _).
  destruct HR as (u & fr & Hf & HE & _ & _ & _ & Hlg).
  rewrite Forall_forall in Hlg. destruct (Hlg _ Hin) as (W & F & a & z & Hu & Ho). cbn [fst snd] in *.
  unfold es_get. unfold es_end in He. rewrite He.
  destruct (N.leb_spec E off) as [C|_]; [lia|].
  rewrite Hf, (take_shape _ _ _ HE), Hu.
  replace (le64 E ++ a ++ enc_event e ++ z) with ((le64 E ++ a) ++ enc_event e ++ z)
    by (rewrite <- app_assoc; reflexivity).
  replace off with (len (le64 E ++ a)) by (rewrite len_app, len_le64; lia).
  rewrite drop_app_len. apply ev_delineate_enc; assumption.
Qed.

Corollary es_get_refines_db m s off e :
  Rdb m s -> get_event_by_offset s off = Ok e -> es_get m off = Ok (enc_event e).
Proof.
  unfold Rdb, get_event_by_offset. intros HR.
  destruct (N.leb_spec (log_end s) off) as [_|Hlt]; [discriminate|].
  destruct (log_find (log s) off) as [x|] eqn:Ef; [|discriminate]. intros [= ->].
  eapply es_get_refines; [exact HR | exact Hlt | apply log_find_in; exact Ef].
Qed.

(* bytes below the marker never change: whatever was readable stays readable, with the same bytes *)
Theorem es_store_keeps chunk m lg E e off x :
  0 < chunk -> chunk mod 8 = 0 -> R m lg E -> wf_aevent e -> fits_event e ->
  len (file m) + event_size e + chunk < B64 ->
  In (off, x) lg -> off < E ->
  forall m' o, es_store chunk m (enc_event e) = Ok (m', o) ->
  es_get m' off = es_get m off /\ es_get m off = Ok (enc_event x) /\ o <> off.
Proof.
  intros Hc Hcm HR Hwf Hfit Hroom Hin Hoff m' o Hst.
  destruct (es_store_refines chunk m lg E e Hc Hcm HR Hwf Hfit Hroom) as (m2 & Hst2 & HR2 & _).
  rewrite Hst in Hst2. injection Hst2 as -> ->.
  assert (HA : E <= align8 E) by (unfold align8; destruct (N.eqb_spec (E mod 8) 0); lia).
  rewrite (es_get_refines m lg E off x HR Hoff Hin).
  rewrite (es_get_refines m2 _ _ off x HR2); [| unfold event_size; lia | right; exact Hin].
  refine (conj eq_refl (conj eq_refl _)). lia.
Qed.


(* ---------- every history of appends ---------- *)
Fixpoint appends (lg : list (N * aevent)) (E : N) (es : list aevent) : list (N * aevent) * N :=
  match es with
  | [] => (lg, E)
  | e :: r => appends ((align8 E, e) :: lg) (align8 E + event_size e) r
  end.
Fixpoint stores (chunk : N) (m : emap) (es : list aevent) : option emap :=
  match es with
  | [] => Some m
  | e :: r => match es_store chunk m (enc_event e) with Ok (m', _) => stores chunk m' r | _ => None end
  end.
Fixpoint total_size (chunk : N) (es : list aevent) : N :=
  match es with [] => 0 | e :: r => event_size e + chunk + total_size chunk r end.

Lemma align8_ge x : x <= align8 x.
Proof. unfold align8. destruct (N.eqb_spec (x mod 8) 0); lia. Qed.

Lemma appends_mono es : forall lg E p, In p lg ->
  In p (fst (appends lg E es)) /\ E <= snd (appends lg E es).
Proof.
  induction es as [|e r IH]; intros lg E p Hin; cbn [appends fst snd]; [split; [exact Hin | lia]|].
  destruct (IH ((align8 E, e) :: lg) (align8 E + event_size e) p (or_intror Hin)) as (H1 & H2).
  split; [exact H1|]. pose proof (align8_ge E). lia.
Qed.

Lemma stores_refine chunk (Hc : 0 < chunk) (Hcm : chunk mod 8 = 0) : forall es m lg E,
  R m lg E -> Forall (fun e => wf_aevent e /\ fits_event e) es ->
  len (file m) + total_size chunk es < B64 ->
  exists m', stores chunk m es = Some m' /\ R m' (fst (appends lg E es)) (snd (appends lg E es)).
Proof.
  induction es as [|e r IH]; intros m lg E HR Hall Hroom.
  - exists m. split; [reflexivity | exact HR].
  - inversion Hall as [|? ? [Hwf Hfit] Hall']; subst.
    cbn [total_size] in Hroom.
    destruct (es_store_refines chunk m lg E e Hc Hcm HR Hwf Hfit) as (m1 & Hst & HR1 & Hlen); [lia|].
    cbn [stores appends]. rewrite Hst.
    apply IH; [exact HR1 | exact Hall' | lia].
Qed.

(* C04 at the byte level: whatever could be read back at some point is read back, byte for byte, after
   any further history of stores (the map may grow and be remapped any number of times in between) *)
Theorem readback_forever_bytes chunk m lg E es off x :
  0 < chunk -> chunk mod 8 = 0 ->
  R m lg E -> Forall (fun e => wf_aevent e /\ fits_event e) es ->
  len (file m) + total_size chunk es < B64 ->
  In (off, x) lg -> off < E ->
  exists m', stores chunk m es = Some m' /\ es_get m' off = Ok (enc_event x)
             /\ es_get m off = Ok (enc_event x).
Proof.
  intros Hc Hcm HR Hall Hroom Hin Hoff.
  destruct (stores_refine chunk Hc Hcm es m lg E HR Hall Hroom) as (m' & Hst & HR').
  destruct (appends_mono es lg E (off, x) Hin) as (Hin' & HE').
  exists m'. refine (conj Hst (conj _ _)).
  - eapply es_get_refines; [exact HR' | lia | exact Hin'].
  - eapply es_get_refines; [exact HR | exact Hoff | exact Hin].
Qed.

(* the replay the correspondence check uses never fails on a log produced by appends *)
Fixpoint trace (E : N) (es : list aevent) : list (N * aevent) :=
  match es with [] => [] | e :: r => (align8 E, e) :: trace (align8 E + event_size e) r end.
Lemma appends_trace es : forall lg E, fst (appends lg E es) = rev (trace E es) ++ lg.
Proof.
  induction es as [|e r IH]; intros lg E; cbn [appends trace rev fst]; [reflexivity|].
  rewrite IH. rewrite <- app_assoc. reflexivity.
Qed.
Lemma replay_refines chunk (Hc : 0 < chunk) (Hcm : chunk mod 8 = 0) : forall es m lg E,
  R m lg E -> Forall (fun e => wf_aevent e /\ fits_event e) es ->
  len (file m) + total_size chunk es < B64 ->
  exists m', replay_log chunk m (trace E es) = Some m'
             /\ R m' (fst (appends lg E es)) (snd (appends lg E es)).
Proof.
  induction es as [|e r IH]; intros m lg E HR Hall Hroom.
  - exists m. split; [reflexivity | exact HR].
  - inversion Hall as [|? ? [Hwf Hfit] Hall']; subst.
    cbn [total_size] in Hroom.
    destruct (es_store_refines chunk m lg E e Hc Hcm HR Hwf Hfit) as (m1 & Hst & HR1 & Hlen); [lia|].
    cbn [replay_log trace appends]. rewrite Hst, N.eqb_refl.
    apply IH; [exact HR1 | exact Hall' | lia].
Qed.
Theorem bytes_of_log_total chunk es :
  8 <= chunk -> chunk mod 8 = 0 ->
  Forall (fun e => wf_aevent e /\ fits_event e) es -> chunk + total_size chunk es < B64 ->
  exists m, bytes_of_log chunk (fst (appends [] HEADER es)) = Some m
            /\ R m (fst (appends [] HEADER es)) (snd (appends [] HEADER es)).
Proof.
  intros Hc Hcm Hall Hroom. unfold bytes_of_log.
  replace (rev (fst (appends [] HEADER es))) with (trace HEADER es)
    by (rewrite appends_trace, app_nil_r, rev_involutive; reflexivity).
  assert (HB : chunk < B64) by lia.
  pose proof (es_open_fresh chunk Hc Hcm HB) as HR0.
  apply replay_refines; try assumption; try lia.
  destruct HR0 as (u & fr & Hf & HE & Hfl & _).
  assert (L : len (file (es_open chunk [])) = chunk).
  { rewrite <- Hfl. reflexivity. }
  rewrite L. exact Hroom.
Qed.

(* ---------- what a kill leaves behind (C13) ---------- *)
Lemma R_of_shape chunk A U F lg :
  8 <= A -> len U + 8 = A -> len (shape A U F) mod 8 = 0 -> len (shape A U F) < B64 ->
  Forall (logged U) lg -> R (es_open chunk (shape A U F)) lg A.
Proof.
  intros H8 HA Hm HB Hlg. unfold es_open.
  assert (L := len_shape A U F). rewrite L in HB.
  rewrite get_end_shape by lia.
  destruct (N.ltb_spec (len (shape A U F)) 8) as [C|_]; [lia|].
  destruct (N.ltb_spec A 8) as [C|_]; [lia|]. cbn [orb].
  exists U, F. cbn [file flen]. rewrite L. rewrite L in Hm. auto 10.
Qed.

Lemma grown_shape chunk : forall g E u fr fl, fl = len (shape E u fr) ->
  grown chunk g (shape E u fr) fl = shape E u (fr ++ zeros (N.of_nat g * chunk)).
Proof.
  induction g as [|g IH]; intros E u fr fl Hfl.
  - cbn [grown]. change (zeros (N.of_nat 0 * chunk)) with (@nil N). rewrite app_nil_r. reflexivity.
  - cbn [grown]. rewrite Hfl at 1. rewrite set_len_shape.
    rewrite IH by (rewrite Hfl, !len_shape, len_app, len_zeros; lia).
    rewrite <- app_assoc, <- zeros_add. f_equal. f_equal. f_equal. lia.
Qed.

Lemma write_at_free A U F d :
  len U + 8 = A -> len d <= len F ->
  write_at (shape A U F) A d = shape A U (d ++ drop (len d) F).
Proof.
  intros HA Hd. rewrite write_at_shape by assumption. unfold shape. rewrite <- !app_assoc. reflexivity.
Qed.

(* Killed anywhere inside store_event before the marker moves past the event -- after the padding,
   after any number g of growth steps, with any prefix k of the event copied beyond the marker --
   the reopened store holds exactly the events it held, at their offsets, with their bytes: the
   object-level state [pad_only s] of Crash.v. *)
Theorem torn_store_recovers chunk m lg E b g k t :
  0 < chunk -> chunk mod 8 = 0 -> R m lg E ->
  len (file m) + N.of_nat g * chunk < B64 ->
  torn_file chunk m b g k = Some t ->
  align8 E + len (take k b) <= len (file m) + N.of_nat g * chunk ->
  R (es_open chunk t) lg (align8 E)
  /\ forall off x, In (off, x) lg -> off < E -> es_get (es_open chunk t) off = Ok (enc_event x).
Proof.
  intros Hc Hcm HR Hroom Ht Hfits.
  destruct HR as (u & fr & Hf & HE & Hfl & Hm & HB & Hlg).
  unfold torn_file in Ht. rewrite Hf in *.
  destruct (pad_file_shape E u fr HE Hm HB) as (u' & fr' & Hpad & Hfr & HE').
  rewrite Hpad in Ht.
  assert (La : len (shape (align8 E) (u ++ u') fr') = len (shape E u fr)).
  { rewrite !len_shape, Hfr, !len_app. lia. }
  rewrite (grown_shape chunk g (align8 E) (u ++ u') fr' (flen m)) in Ht by (rewrite Hfl, La; reflexivity).
  set (G := N.of_nat g * chunk) in *.
  assert (Lfr : len fr = len u' + len fr') by (rewrite Hfr, len_app; reflexivity).
  assert (Luu : len (u ++ u') = len u + len u') by apply len_app.
  rewrite len_shape in Hm, HB, Hroom, Hfits.
  rewrite get_end_shape in Ht by lia.
  rewrite write_at_free in Ht; [| exact HE' | rewrite len_app, len_zeros; lia].
  injection Ht as <-.
  assert (Lt : len (shape (align8 E) (u ++ u')
                 (take k b ++ drop (len (take k b)) (fr' ++ zeros G))) = 8 + len u + len fr + G).
  { rewrite len_shape, (len_app (take k b)), len_drop, (len_app fr'), len_zeros. lia. }
  assert (HRt : R (es_open chunk (shape (align8 E) (u ++ u')
                   (take k b ++ drop (len (take k b)) (fr' ++ zeros G)))) lg (align8 E)).
  { apply R_of_shape.
    - lia.
    - exact HE'.
    - rewrite Lt. rewrite N.add_mod by lia. rewrite Hm.
      rewrite (mod8_trans G chunk Hc) by (try assumption; apply N.mod_mul; lia).
      reflexivity.
    - rewrite Lt. lia.
    - eapply Forall_impl; [|exact Hlg]. intros p Hp. apply logged_app. exact Hp. }
  split; [exact HRt|].
  intros off x Hin Hoff. eapply es_get_refines; [exact HRt | | exact Hin].
  pose proof (align8_ge E). lia.
Qed.

(* creation: killed after the file was created (empty), after it was sized (marker still 0), or
   after the marker was written, Store::new arrives at the same fresh map *)
Lemma drop_zeros k n : drop k (zeros n) = zeros (n - k).
Proof.
  unfold drop, zeros. replace (N.to_nat (n - k)) with (N.to_nat n - N.to_nat k)%nat by lia.
  generalize (N.to_nat n) (N.to_nat k). clear. intros a b. revert a.
  induction b as [|b IH]; intros a; [rewrite Nat.sub_0_r; reflexivity|].
  destruct a as [|a]; [reflexivity|]. cbn [repeat skipn Nat.sub]. apply IH.
Qed.

Theorem create_crash_recovers chunk :
  8 <= chunk ->
  es_open chunk (zeros chunk) = es_open chunk []
  /\ es_open chunk (file (es_open chunk [])) = es_open chunk [].
Proof.
  intros Hc. split.
  - unfold es_open. rewrite len_zeros.
    destruct (N.ltb_spec chunk 8) as [C|_]; [lia|].
    assert (G : get_end (zeros chunk) = 0).
    { replace chunk with (8 + (chunk - 8)) by lia. rewrite zeros_add. reflexivity. }
    rewrite G. cbn [orb len length N.of_nat]. replace (0 <? 8) with true by reflexivity. cbn [orb].
    f_equal. f_equal. unfold set_len. rewrite take_all by (rewrite len_zeros; lia).
    rewrite len_zeros, N.sub_diag. change (zeros 0) with (@nil N). rewrite app_nil_r.
    unfold take. rewrite firstn_nil. cbn [app len length N.of_nat]. rewrite N.sub_0_r. reflexivity.
  - assert (HB : True) by exact I.
    unfold es_open at 2. cbn [len length N.of_nat]. replace (0 <? 8) with true by reflexivity. cbn [orb file].
    unfold es_open.
    set (f := put_end (set_len [] chunk) 8).
    assert (Lf : len f = chunk).
    { unfold f, put_end, set_len. unfold take. rewrite firstn_nil. cbn [app].
      change (len (@nil N)) with 0. rewrite N.sub_0_r.
      rewrite len_app, len_le64, drop_zeros, len_zeros. lia. }
    assert (Gf : get_end f = 8).
    { unfold f, put_end, get_end. rewrite rd64_le64 by (cbv; reflexivity). reflexivity. }
    rewrite Lf, Gf. destruct (N.ltb_spec chunk 8) as [C|_]; [lia|]. cbn [orb].
    replace (8 <? 8) with false by reflexivity. reflexivity.
Qed.

(* an interrupted creation of any length recovers to the empty store (the repair f32ffdc) *)
Theorem es_open_interrupted chunk f :
  8 <= chunk -> chunk mod 8 = 0 -> chunk < B64 ->
  len f < 8 \/ get_end f < 8 -> R (es_open chunk f) [] HEADER.
Proof.
  intros Hc Hcm HB Hnew. unfold es_open.
  assert (Hb : (len f <? 8) || (get_end f <? 8) = true).
  { destruct Hnew as [H|H]; [destruct (N.ltb_spec (len f) 8); [reflexivity|lia] |
      destruct (N.ltb_spec (get_end f) 8); [apply orb_true_r|lia]]. }
  rewrite Hb.
  assert (Ls : len (set_len f chunk) = chunk).
  { unfold set_len. rewrite len_app, len_take, len_zeros. lia. }
  exists [], (drop 8 (set_len f chunk)). cbn [file flen]. unfold put_end, shape. cbn [app].
  assert (L : len (le64 8 ++ drop 8 (set_len f chunk)) = chunk).
  { rewrite len_app, len_le64, len_drop, Ls. lia. }
  rewrite L. refine (conj eq_refl (conj eq_refl (conj eq_refl (conj Hcm (conj HB (Forall_nil _)))))).
Qed.

(* non-vacuity: a history that crosses a growth step, evaluated *)
Definition demo_event (n : N) (clen : nat) : aevent :=
  mkE (repeat n 32) (repeat 2 32) (repeat 3 64) 1 1700000000 [] (repeat 120 clen).

(* 2048-byte chunks (the debug profile): the second event does not fit the first chunk and needs two
   growth steps; the second and third start after 7 bytes of padding; all three read back; the file is 3 chunks *)
Example demo_growth :
  let es := [demo_event 1 1001; demo_event 2 3001; demo_event 3 10] in
  match stores 2048 (es_open 2048 []) es with
  | Some m =>
      map fst (fst (appends [] HEADER es)) = [4328; 1168; 8]
      /\ es_end m = 4490 /\ len (file m) = 6144 /\ flen m = 6144
      /\ es_get m 8 = Ok (enc_event (demo_event 1 1001))
      /\ es_get m 1168 = Ok (enc_event (demo_event 2 3001))
      /\ es_get m 4328 = Ok (enc_event (demo_event 3 10))
      /\ es_get m 4490 = Err EEnd
      /\ bytes_of_log 2048 (fst (appends [] HEADER es)) = Some m
  | None => False
  end.
Proof. vm_compute. repeat split; reflexivity. Qed.

(* the hypotheses of the refinement theorems are met by the fresh store *)
Example demo_R : R (es_open 2048 []) [] HEADER.
Proof. apply es_open_fresh; [lia | reflexivity | reflexivity]. Qed.

(* ---------- lifted to every history of the concrete store model (Db.v) ---------- *)
From Pocket Require Import DbProofs.

Lemma store_event_log_cases s e :
  (log (fst (store_event s e)) = log s /\ log_end (fst (store_event s e)) = log_end s)
  \/ (log (fst (store_event s e)) = (align8 (log_end s), e) :: log s
      /\ log_end (fst (store_event s e)) = align8 (log_end s) + event_size e).
Proof.
  unfold store_event. destruct (pre_checks s e) as [txn|x| |]; cbn [fst]; auto.
  unfold log_append.
  match goal with |- context [match ?X with Ok _ => _ | Err _ => _ | Panic => _ | OutOfFuel => _ end] => destruct X end;
    cbn [fst with_committed log log_end]; right; auto.
Qed.

Lemma appends_snoc es : forall lg E e,
  appends lg E (es ++ [e]) =
  ((align8 (snd (appends lg E es)), e) :: fst (appends lg E es),
   align8 (snd (appends lg E es)) + event_size e).
Proof.
  induction es as [|x r IH]; intros lg E e; cbn [app appends fst snd]; [reflexivity | apply IH].
Qed.
Lemma total_size_snoc chunk es e : total_size chunk (es ++ [e]) = total_size chunk es + event_size e + chunk.
Proof. induction es as [|x r IH]; cbn [app total_size]; [lia | rewrite IH; lia]. Qed.

Definition wfe (e : aevent) : Prop := wf_aevent e /\ fits_event e.
Definition ev_of (op : cop) : list aevent := match op with CStore e => [e] | _ => [] end.
Definition ops_events (ops : list cop) : list aevent := flat_map ev_of ops.

(* the log of the store model is always a sequence of appends of accepted events *)
Definition LSb (chunk B : N) (s : db) : Prop :=
  exists es, Forall wfe es /\ total_size chunk es <= B /\ (log s, log_end s) = appends [] HEADER es.

Lemma LSb_same chunk B s s' : log s' = log s -> log_end s' = log_end s -> LSb chunk B s -> LSb chunk B s'.
Proof. intros A E (es & H1 & H2 & H3). exists es. rewrite A, E. auto. Qed.

Lemma c_step_LSb chunk B s op :
  Forall wfe (ev_of op) -> LSb chunk B s ->
  LSb chunk (B + total_size chunk (ev_of op)) (c_step s op).
Proof.
  intros Hwf HL. destruct op as [e|id|pk|n k v|]; cbn [c_step ev_of total_size];
    rewrite ?N.add_0_r.
  - destruct (store_event_log_cases s e) as [[A E]|[A E]].
    + destruct HL as (es & H1 & H2 & H3). exists es. rewrite A, E. refine (conj H1 (conj _ H3)). lia.
    + destruct HL as (es & H1 & H2 & H3). exists (es ++ [e]).
      refine (conj _ (conj _ _)).
      * apply Forall_app. split; [exact H1 | exact Hwf].
      * rewrite total_size_snoc. lia.
      * rewrite appends_snoc, <- H3. cbn [fst snd]. rewrite A, E. reflexivity.
  - destruct (remove_event_log s id). eapply LSb_same; eauto.
  - destruct (vanish_log s pk). eapply LSb_same; eauto.
  - eapply LSb_same; [| |exact HL]; reflexivity.
  - rewrite reopen_identity. exact HL.
Qed.

Lemma total_size_app chunk a b : total_size chunk (a ++ b) = total_size chunk a + total_size chunk b.
Proof. induction a as [|x a IHa]; cbn [app total_size]; [lia | rewrite IHa; lia]. Qed.

Lemma c_run_LSb chunk ops : forall B s,
  Forall wfe (ops_events ops) -> LSb chunk B s ->
  LSb chunk (B + total_size chunk (ops_events ops)) (c_run ops s).
Proof.
  induction ops as [|op r IH]; intros B s Hwf HL; cbn [c_run fold_left].
  - cbn [ops_events flat_map total_size]. rewrite N.add_0_r. exact HL.
  - unfold ops_events in *. cbn [flat_map] in *.
    apply Forall_app in Hwf. destruct Hwf as [Hw1 Hw2].
    rewrite total_size_app, N.add_assoc.
    apply IH; [exact Hw2|]. apply c_step_LSb; assumption.
Qed.

(* C04 / C16 at the byte level, every history: the file content the store has written (the replay of
   its log against the byte-level model) exists, has the refinement shape, and hands back, byte for
   byte, the encoding of every event the object-level model reads at any offset *)
Theorem bytes_refine_history chunk names ops :
  8 <= chunk -> chunk mod 8 = 0 ->
  Forall wfe (ops_events ops) -> chunk + total_size chunk (ops_events ops) < B64 ->
  let s := c_run ops (db_init names) in
  exists m, bytes_of_log chunk (log s) = Some m /\ Rdb m s
    /\ (forall off e, get_event_by_offset s off = Ok e -> es_get m off = Ok (enc_event e))
    /\ es_end m = log_end s
    /\ es_open chunk (file m) = m.
Proof.
  intros Hc Hcm Hwf Hroom s.
  assert (HL : LSb chunk (0 + total_size chunk (ops_events ops)) s).
  { apply c_run_LSb; [exact Hwf|]. exists []. cbn [total_size appends]. auto using Forall_nil, N.le_refl. }
  destruct HL as (es & H1 & H2 & H3).
  destruct (bytes_of_log_total chunk es Hc Hcm H1) as (m & Hb & HR); [lia|].
  rewrite <- H3 in Hb, HR. cbn [fst snd] in Hb, HR.
  exists m. refine (conj Hb (conj HR (conj _ (conj _ _)))).
  - intros off e Hg. eapply es_get_refines_db; [exact HR | exact Hg].
  - apply (R_end _ _ _ HR).
  - eapply es_open_id. exact HR.
Qed.

(* in the vocabulary of Crash.v: the torn file is the object-level crash state [pad_only s] *)
From Pocket Require Import Crash.
Corollary torn_store_is_pad_only chunk m s b g k t :
  0 < chunk -> chunk mod 8 = 0 -> Rdb m s ->
  len (file m) + N.of_nat g * chunk < B64 ->
  torn_file chunk m b g k = Some t ->
  align8 (log_end s) + len (take k b) <= len (file m) + N.of_nat g * chunk ->
  Rdb (es_open chunk t) (pad_only s).
Proof.
  intros Hc Hcm HR Hroom Ht Hfits. unfold Rdb, pad_only. cbn [log log_end].
  exact (proj1 (torn_store_recovers chunk m (log s) (log_end s) b g k t Hc Hcm HR Hroom Ht Hfits)).
Qed.

(* ---------- the kill points the correspondence check exercises are covered by the theorems ---------- *)
Lemma write_at_nil f e : write_at f e [] = f.
Proof. unfold write_at. cbn [app len length N.of_nat]. rewrite N.add_0_r. apply take_drop_id. Qed.

Lemma crash_files_are_torn chunk m b t :
  In t (crash_files chunk m b) ->
  t = file m
  \/ (exists g k, torn_file chunk m b g k = Some t)
  \/ (exists m' off, es_store chunk m b = Ok (m', off) /\ t = file m').
Proof.
  unfold crash_files, torn_file. destruct (pad_file (file m)) as [f1|]; [|intros [<-|[]]; auto].
  set (g := growth_needed chunk (S (length b)) f1 (flen m) b).
  intros Hin. apply in_app_or in Hin. destruct Hin as [[<-|[<-|[]]]|Hin]; auto.
  { right. left. exists O, 0. cbn [grown]. change (take 0 b) with (@nil N). rewrite write_at_nil. reflexivity. }
  apply in_app_or in Hin. destruct Hin as [Hin|Hin].
  { apply in_map_iff in Hin. destruct Hin as (j & <- & _). right. left. exists j, 0.
    change (take 0 b) with (@nil N). rewrite write_at_nil. reflexivity. }
  apply in_app_or in Hin. destruct Hin as [[<-|[<-|[]]]|Hin].
  - right. left. exists g, (len b / 2). reflexivity.
  - right. left. exists g, (len b). rewrite take_all by lia. reflexivity.
  - right. right. destruct (es_store chunk m b) as [[m' off]|x| |]; try (destruct Hin; fail).
    destruct Hin as [<-|[]]. exists m', off. auto.
Qed.

Lemma growth_needed_fits chunk (Hc : 0 < chunk) : forall fuel E u fr fl b,
  E < B64 -> len u + 8 = E -> fl = len (shape E u fr) ->
  len b <= len fr + N.of_nat fuel ->
  let g := N.of_nat (growth_needed chunk fuel (shape E u fr) fl b) in
  len b <= len fr + g * chunk /\ (g = 0 \/ len fr + g * chunk < len b + chunk).
Proof.
  induction fuel as [|k IH]; intros E u fr fl b HB HE Hfl Hfuel.
  - cbn [growth_needed]. rewrite mm_append_shape_ok by (try assumption; lia). cbn. lia.
  - cbn [growth_needed]. destruct (N.le_gt_cases (len b) (len fr)) as [Hfit|Hfull].
    + rewrite mm_append_shape_ok by assumption. cbn. lia.
    + rewrite mm_append_shape_full by assumption.
      replace (set_len (shape E u fr) (fl + chunk)) with (shape E u (fr ++ zeros chunk))
        by (rewrite Hfl; symmetry; apply set_len_shape).
      specialize (IH E u (fr ++ zeros chunk) (fl + chunk) b HB HE).
      rewrite len_app, len_zeros in IH.
      assert (H1 : fl + chunk = len (shape E u (fr ++ zeros chunk)))
        by (rewrite Hfl, !len_shape, len_app, len_zeros; lia).
      specialize (IH H1 ltac:(lia)). cbv zeta in IH.
      set (g' := growth_needed chunk k (shape E u (fr ++ zeros chunk)) (fl + chunk) b) in *.
      cbv zeta. rewrite Nat2N.inj_succ.
      destruct IH as [F [Z|T]]; split; lia.
Qed.

(* every file of [crash_files] reopens to the store before the call, the padded store, or the store
   after the append: nothing else *)
Theorem crash_files_recover chunk m lg E e t :
  0 < chunk -> chunk mod 8 = 0 -> R m lg E -> wf_aevent e -> fits_event e ->
  len (file m) + event_size e + chunk < B64 ->
  In t (crash_files chunk m (enc_event e)) ->
  R (es_open chunk t) lg E \/ R (es_open chunk t) lg (align8 E)
  \/ R (es_open chunk t) ((align8 E, e) :: lg) (align8 E + event_size e).
Proof.
  intros Hc Hcm HR Hwf Hfit Hroom Hin.
  destruct (es_store_refines chunk m lg E e Hc Hcm HR Hwf Hfit Hroom) as (m1 & Hst & HR1 & Hlen).
  assert (HR0 := HR). destruct HR0 as (u & fr & Hf & HE & Hfl & Hm & HB & Hlg).
  pose proof Hm as Hm0. pose proof HB as HB0. rewrite Hf in Hm0, HB0.
  destruct (pad_file_shape E u fr HE Hm0 HB0) as (u' & fr' & Hpad & Hfr & HE').
  set (b := enc_event e) in *.
  assert (Lb : len b = event_size e) by (apply len_enc_event; exact Hwf).
  assert (La : len (shape (align8 E) (u ++ u') fr') = len (file m)).
  { rewrite Hf, !len_shape, Hfr, !len_app. lia. }
  assert (Lf : len (file m) = align8 E + len fr').
  { rewrite <- La, len_shape. lia. }
  pose proof (growth_needed_fits chunk Hc (S (length b)) (align8 E) (u ++ u') fr' (flen m) b) as G.
  cbv zeta in G.
  set (gn := growth_needed chunk (S (length b)) (shape (align8 E) (u ++ u') fr') (flen m) b) in *.
  destruct G as [Gfit Gtight]; [lia | exact HE' | rewrite Hfl; symmetry; exact La | unfold len at 1; lia |].
  assert (Groom : len (file m) + N.of_nat gn * chunk < B64) by (destruct Gtight as [Z|T]; [rewrite Z|]; lia).
  (* a torn file with g growth steps and k bytes copied recovers, when g <= gn and the k bytes had room *)
  assert (Torn : forall g k, (g <= gn)%nat ->
            align8 E + len (take k b) <= len (file m) + N.of_nat g * chunk ->
            forall t0, torn_file chunk m b g k = Some t0 -> R (es_open chunk t0) lg (align8 E)).
  { intros g k Hg Hk t0 Ht.
    refine (proj1 (torn_store_recovers chunk m lg E b g k t0 Hc Hcm HR _ Ht Hk)).
    assert (N.of_nat g * chunk <= N.of_nat gn * chunk) by (apply N.mul_le_mono_r; lia). lia. }
  unfold crash_files in Hin. rewrite Hf in Hin at 1. rewrite Hpad in Hin. fold gn in Hin.
  assert (TF : forall g k, torn_file chunk m b g k =
             Some (write_at (grown chunk g (shape (align8 E) (u ++ u') fr') (flen m))
                     (get_end (grown chunk g (shape (align8 E) (u ++ u') fr') (flen m))) (take k b))).
  { intros g k. unfold torn_file. rewrite Hf at 1. rewrite Hpad. reflexivity. }
  apply in_app_or in Hin. destruct Hin as [[<-|[<-|[]]]|Hin].
  - left. rewrite (es_open_id chunk m lg E HR). exact HR.
  - right. left. apply (Torn O 0 ltac:(lia)); [cbn; lia|].
    rewrite TF. cbn [grown]. change (take 0 b) with (@nil N). rewrite write_at_nil. reflexivity.
  - apply in_app_or in Hin. destruct Hin as [Hin|Hin].
    + apply in_map_iff in Hin. destruct Hin as (j & <- & Hj). apply in_seq in Hj.
      right. left. apply (Torn j 0 ltac:(lia)); [cbn; lia|].
      rewrite TF. change (take 0 b) with (@nil N). rewrite write_at_nil. reflexivity.
    + apply in_app_or in Hin. destruct Hin as [[<-|[<-|[]]]|Hin].
      * right. left. apply (Torn gn (len b / 2) (le_n _)); [|apply TF].
        rewrite len_take. lia.
      * right. left. apply (Torn gn (len b) (le_n _)); [rewrite len_take; lia|].
        rewrite TF. rewrite take_all by lia. reflexivity.
      * right. right. rewrite Hst in Hin. destruct Hin as [<-|[]].
        rewrite (es_open_id chunk m1 _ _ HR1). exact HR1.
Qed.

(* ---------- rebuild: the new event map, at the byte level (C16) ---------- *)
Lemma appends_events es : forall lg E off e, In (off, e) (fst (appends lg E es)) -> In (off, e) lg \/ In e es.
Proof.
  induction es as [|x r IH]; intros lg E off e Hin; cbn [appends fst] in Hin; [left; exact Hin|].
  destruct (IH _ _ _ _ Hin) as [[[= <- <-]|H]|H]; [right; left; reflexivity | left; exact H | right; right; exact H].
Qed.

Definition log_events_wf (s : db) : Prop := forall off e, In (off, e) (log s) -> wfe e.

Lemma LSb_events_wf chunk B s : LSb chunk B s -> log_events_wf s.
Proof.
  intros (es & Hwf & _ & E) off e Hin.
  assert (Hl : log s = fst (appends [] HEADER es)) by (rewrite <- E; reflexivity).
  rewrite Hl in Hin. destruct (appends_events es [] HEADER off e Hin) as [[]|H].
  rewrite Forall_forall in Hwf. apply Hwf. exact H.
Qed.

Lemma rebuild_events_appends old entries : forall news n es0,
  log_events_wf old -> (log news, log_end news) = appends [] HEADER es0 -> Forall wfe es0 ->
  rebuild_events old news entries = Ok n ->
  exists es, Forall wfe es /\ (log n, log_end n) = appends [] HEADER es.
Proof.
  induction entries as [|[k off] r IH]; intros news n es0 Hold E0 W0; cbn [rebuild_events].
  - intros [= <-]. exists es0. auto.
  - destruct (get_event_by_offset old off) as [e| | |] eqn:G; cbn [bind]; try discriminate.
    assert (We : wfe e).
    { unfold get_event_by_offset in G. destruct (log_end old <=? off); [discriminate|].
      destruct (log_find (log old) off) as [x|] eqn:F; [|discriminate]. injection G as ->.
      apply (Hold off). apply log_find_in. exact F. }
    unfold log_append. intros H.
    eapply (IH _ n (es0 ++ [e])); [exact Hold | | | exact H].
    + cbn [with_committed log log_end]. rewrite appends_snoc, <- E0. reflexivity.
    + apply Forall_app. split; [exact W0 | constructor; [exact We | constructor]].
Qed.

(* the event map a rebuild writes is again a sequence of appends of well-formed events: the byte-level file exists,
   refines the rebuilt store, and keeps doing so for every history that continues with the rebuilt store *)
Theorem rebuild_bytes_refine chunk names ops s' ops2 :
  8 <= chunk -> chunk mod 8 = 0 ->
  Forall wfe (ops_events ops) -> Forall wfe (ops_events ops2) ->
  rebuild (c_run ops (db_init names)) = Ok s' ->
  exists es, Forall wfe es /\ (log s', log_end s') = appends [] HEADER es /\
    (chunk + total_size chunk es + total_size chunk (ops_events ops2) < B64 ->
     let s2 := c_run ops2 s' in
     exists m, bytes_of_log chunk (log s2) = Some m /\ Rdb m s2
       /\ (forall off e, get_event_by_offset s2 off = Ok e -> es_get m off = Ok (enc_event e))
       /\ es_end m = log_end s2).
Proof.
  intros Hc Hcm Hwf Hwf2 Hr.
  set (s := c_run ops (db_init names)) in *.
  assert (HL : LSb chunk (0 + total_size chunk (ops_events ops)) s).
  { apply c_run_LSb; [exact Hwf|]. exists []. cbn [total_size appends]. auto using Forall_nil, N.le_refl. }
  pose proof (LSb_events_wf _ _ _ HL) as Hold.
  unfold rebuild in Hr.
  destruct (rebuild_events s _ (t_iter (t_i (committed s)))) as [n1| | |] eqn:E1; cbn [bind] in Hr; try discriminate.
  destruct (rebuild_naddrs _ _) as [tb2| | |]; cbn [bind] in Hr; try discriminate.
  injection Hr as <-.
  assert (Hx : exists es, Forall wfe es /\ (log n1, log_end n1) = appends [] HEADER es).
  { eapply (rebuild_events_appends s _ _ n1 []); [exact Hold | | constructor | exact E1]. reflexivity. }
  destruct Hx as (es & Wes & Ees).
  exists es. refine (conj Wes (conj Ees _)).
  intros Hroom s2.
  assert (HL2 : LSb chunk (total_size chunk es + total_size chunk (ops_events ops2)) s2).
  { apply c_run_LSb; [exact Hwf2|]. exists es. cbn [with_committed log log_end]. auto using N.le_refl. }
  destruct HL2 as (es2 & H1 & H2 & H3).
  destruct (bytes_of_log_total chunk es2 Hc Hcm H1) as (m & Hb & HR); [lia|].
  rewrite <- H3 in Hb, HR. cbn [fst snd] in Hb, HR.
  exists m. refine (conj Hb (conj HR (conj _ _))).
  - intros off e Hg. eapply es_get_refines_db; [exact HR | exact Hg].
  - apply (R_end _ _ _ HR).
Qed.
