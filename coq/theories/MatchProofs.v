(* MatchProofs.v — C06: Filter::event_matches on the binary operands equals the NIP-01
   specification, for every well-formed filter and event that fit the length fields. *)
From Pocket Require Import Access AccessProofs MatchSpec.

Lemma len_eqb_0 {A} (l : list A) : (len l =? 0) = match l with [] => true | _ => false end.
Proof. destruct l; [reflexivity|]. rewrite len_cons. apply N.eqb_neq. lia. Qed.

Lemma skipn_nth_cons {A} (l : list A) i x : nth_error l i = Some x -> skipn i l = x :: skipn (S i) l.
Proof.
  revert i; induction l as [|y l IH]; intros [|i]; cbn [nth_error skipn]; try discriminate.
  - intros [= ->]. reflexivity.
  - intros H. apply IH. exact H.
Qed.

Lemma existsb_swap {A B} (p : A -> B -> bool) (la : list A) (lb : list B) :
  existsb (fun a => existsb (p a) lb) la = existsb (fun b => existsb (fun a => p a b) la) lb.
Proof.
  induction la as [|a la IH]; cbn [existsb].
  - induction lb as [|b lb IHb]; cbn [existsb]; auto.
  - rewrite IH. clear IH. induction lb as [|b lb IHb]; cbn [existsb]; auto.
    rewrite <- IHb. destruct (p a b), (existsb (fun a0 => p a0 b) la), (existsb (p a) lb); reflexivity.
Qed.

Lemma tag_hits_alt name vals t :
  tag_hits name vals t = existsb (fun v => tag_is name v t) vals.
Proof.
  unfold tag_hits, tag_is, mem_bytes. destruct t as [|n [|v t']].
  - induction vals; cbn [existsb]; auto.
  - induction vals; cbn [existsb]; auto.
  - destruct (beq n name); cbn [andb].
    + induction vals as [|x vals IH]; cbn [existsb]; auto. rewrite IH.
      f_equal. destruct (beq x v) eqn:E1, (beq v x) eqn:E2; auto.
      * apply beq_eq in E1. subst. rewrite beq_refl in E2. discriminate.
      * apply beq_eq in E2. subst. rewrite beq_refl in E1. discriminate.
    + induction vals; cbn [existsb]; auto.
Qed.

Section MatchLoops.
  Variables fts ets : atags.
  Hypothesis Hff : fits_tags fts.
  Hypothesis Hfe : fits_tags ets.
  Let ft := enc_tags fts.
  Let et := enc_tags ets.

  Lemma match_values_enc i c name fuel j :
    nth_error fts i = Some c ->
    (length c - j < fuel)%nat ->
    match_values fuel ft et (N.of_nat i) (N.of_nat j) name =
    Ok (existsb (fun v => existsb (tag_is name v) ets) (skipn j c)).
  Proof.
    intros Hc. revert j. induction fuel as [|fuel IH]; intros j Hf; [lia|].
    cbn [match_values]. unfold ft. rewrite (tags_get_string_enc fts Hff), Hc. cbn [bind].
    destruct (nth_error c j) as [v|] eqn:Hv.
    - rewrite (skipn_nth_cons _ _ _ Hv). cbn [existsb].
      unfold et. rewrite (tags_matches_enc ets Hfe). cbn [bind].
      destruct (existsb (tag_is name v) ets); cbn [orb]; [reflexivity|].
      replace (N.of_nat j + 1) with (N.of_nat (S j)) by lia.
      apply IH. assert (j < length c)%nat by (apply nth_error_Some; congruence). lia.
    - apply nth_error_None in Hv. rewrite skipn_all2 by lia. reflexivity.
  Qed.

  Lemma tag_len_le_enc c : In c fts -> (length c <= N.to_nat (len ft))%nat.
  Proof.
    intros Hin. unfold ft. rewrite len_enc_tags. unfold tags_size.
    assert (H1 : len c <= tag_size c).
    { unfold tag_size. clear. induction c as [|s l IH]; cbn [map sumN]; [rewrite len_nil; lia|].
      rewrite len_cons. unfold str_size at 1. lia. }
    assert (H2 : tag_size c <= sumN (map tag_size fts)).
    { clear -Hin. induction fts as [|x l IH]; [destruct Hin|]. cbn [map sumN].
      destruct Hin as [->|Hin]; [lia|]. specialize (IH Hin). lia. }
    unfold len in H1 at 1. lia.
  Qed.

  Hypothesis Hnamed : Forall (fun c => c <> []) fts.

  Lemma match_constraints_enc fuel i :
    (length fts - i < fuel)%nat ->
    match_constraints fuel ft et (N.of_nat i) = Ok (forallb (constraint_ok ets) (skipn i fts)).
  Proof.
    revert i. induction fuel as [|fuel IH]; intros i Hf; [lia|].
    cbn [match_constraints]. change 0 with (N.of_nat 0).
    unfold ft at 1. rewrite (tags_get_string_enc fts Hff).
    destruct (nth_error fts i) as [c|] eqn:Hc.
    - rewrite (skipn_nth_cons _ _ _ Hc). cbn [forallb].
      assert (Hin : In c fts) by (eapply nth_error_In; eauto).
      pose proof (proj1 (Forall_forall _ _) Hnamed c Hin) as Hne.
      destruct c as [|name vals]; [congruence|]. cbn [nth_error bind constraint_ok].
      pose proof (match_values_enc i (name :: vals) name (S (N.to_nat (len ft))) 1 Hc) as MV.
      change (N.of_nat 1) with 1 in MV. rewrite MV.
      2:{ pose proof (tag_len_le_enc _ Hin). lia. }
      change (skipn 1 (name :: vals)) with vals. cbn [bind].
      rewrite existsb_swap.
      replace (existsb (fun b => existsb (fun a => tag_is name a b) vals) ets)
        with (existsb (tag_hits name vals) ets).
      2:{ clear. induction ets as [|t l IH]; cbn [existsb]; auto. rewrite IH, tag_hits_alt. reflexivity. }
      destruct (existsb (tag_hits name vals) ets); cbn [andb]; [|reflexivity].
      replace (N.of_nat i + 1) with (N.of_nat (S i)) by lia.
      apply IH. assert (i < length fts)%nat by (apply nth_error_Some; congruence). lia.
    - cbn [bind]. apply nth_error_None in Hc. rewrite skipn_all2 by lia. reflexivity.
  Qed.

  Lemma tags_len_le_enc : (length fts <= N.to_nat (len ft))%nat.
  Proof.
    unfold ft. rewrite len_enc_tags. unfold tags_size, tags_hdr. unfold len at 1. lia.
  Qed.
End MatchLoops.

Theorem event_matches_spec (f : afilter) (e : aevent) :
  wf_afilter f -> fits_filter f -> named_constraints f ->
  wf_aevent e -> fits_event e ->
  event_matches (enc_filter f) (enc_event e) = Ok (spec_matches f e).
Proof.
  intros Hwf Hfit Hnamed Hwe Hfe.
  pose proof (fl_ids_enc f Hwf Hfit) as Xids.
  pose proof (fl_authors_enc f Hwf Hfit) as Xaus.
  pose proof (fl_kinds_enc f Hwf Hfit) as Xks.
  pose proof (fl_tags_enc f Hwf Hfit) as Xft.
  pose proof (ev_tags_enc e Hwe Hfe) as Xet.
  assert (Hft : fits_tags (f_tags f)) by (destruct Hfit as (_ & _ & _ & H & _); exact H).
  assert (Het : fits_tags (e_tags e)) by (destruct Hfe as (H & _); exact H).
  unfold event_matches, spec_matches.
  rewrite (fl_num_ids_enc f Hfit). cbn [bind]. rewrite len_eqb_0.
  rewrite (fl_num_authors_enc f Hfit), (fl_num_kinds_enc f Hfit).
  rewrite (fl_since_enc f Hwf), (fl_until_enc f Hwf), (ev_created_enc e Hwe).
  rewrite Xft, Xet. cbn [bind]. rewrite (tags_count_enc _ Hft), (tags_count_enc _ Het). cbn [bind].
  rewrite !len_eqb_0.
  (* ids *)
  assert (Sids :
    forall K : res bool,
      (ids <- (if match f_ids f with [] => true | _ :: _ => false end then Ok [] else fl_ids (enc_filter f)) ;;
       eid <- match ids with [] => Ok [] | _ :: _ => ev_id (enc_event e) end ;;
       (if negb match f_ids f with [] => true | _ :: _ => false end && negb (existsb (fun i => beq i eid) ids)
        then Ok false else K))
      = if match f_ids f with [] => true | l => mem_bytes (e_id e) l end then K else Ok false).
  { intros K. rewrite Xids. destruct (f_ids f) as [|i0 ids]; cbn [bind negb andb]; [reflexivity|].
    rewrite (ev_id_enc e Hwe). cbn [bind]. unfold mem_bytes.
    destruct (existsb (fun y => beq y (e_id e)) (i0 :: ids)); reflexivity. }
  rewrite Sids. clear Sids.
  destruct (match f_ids f with [] => true | l => mem_bytes (e_id e) l end); cbn [andb]; [|reflexivity].
  cbn [bind].
  assert (Saus :
    forall K : res bool,
      (aus <- (if match f_authors f with [] => true | _ :: _ => false end then Ok [] else fl_authors (enc_filter f)) ;;
       epk <- match aus with [] => Ok [] | _ :: _ => ev_pk (enc_event e) end ;;
       (if negb match f_authors f with [] => true | _ :: _ => false end && negb (existsb (fun a => beq a epk) aus)
        then Ok false else K))
      = if match f_authors f with [] => true | l => mem_bytes (e_pk e) l end then K else Ok false).
  { intros K. rewrite Xaus. destruct (f_authors f) as [|a0 aus]; cbn [bind negb andb]; [reflexivity|].
    rewrite (ev_pk_enc e Hwe). cbn [bind]. unfold mem_bytes.
    destruct (existsb (fun y => beq y (e_pk e)) (a0 :: aus)); reflexivity. }
  rewrite Saus. clear Saus.
  destruct (match f_authors f with [] => true | l => mem_bytes (e_pk e) l end); cbn [andb]; [|reflexivity].
  cbn [bind].
  assert (Sks :
    forall K : res bool,
      (ks <- (if match f_kinds f with [] => true | _ :: _ => false end then Ok [] else fl_kinds (enc_filter f)) ;;
       ek <- match ks with [] => Ok 0 | _ :: _ => ev_kind (enc_event e) end ;;
       (if negb match f_kinds f with [] => true | _ :: _ => false end && negb (existsb (fun k => k =? ek) ks)
        then Ok false else K))
      = if match f_kinds f with [] => true | l => mem_N (e_kind e) l end then K else Ok false).
  { intros K. rewrite Xks. destruct (f_kinds f) as [|k0 ks]; cbn [bind negb andb]; [reflexivity|].
    rewrite (ev_kind_enc e Hwe). cbn [bind]. unfold mem_N.
    destruct (existsb (fun y => y =? e_kind e) (k0 :: ks)); reflexivity. }
  rewrite Sks. clear Sks.
  destruct (match f_kinds f with [] => true | l => mem_N (e_kind e) l end); cbn [andb]; [|reflexivity].
  cbn [bind].
  destruct (N.ltb_spec (e_created e) (f_since f)) as [C|C].
  { destruct (N.leb_spec (f_since f) (e_created e)); [lia|reflexivity]. }
  destruct (N.leb_spec (f_since f) (e_created e)) as [_|]; [|lia]. cbn [andb].
  destruct (N.ltb_spec (f_until f) (e_created e)) as [C2|C2].
  { destruct (N.leb_spec (e_created e) (f_until f)); [lia|reflexivity]. }
  destruct (N.leb_spec (e_created e) (f_until f)) as [_|]; [|lia]. cbn [andb].
  destruct (f_tags f) as [|c0 cs] eqn:Eft; [reflexivity|].
  destruct (e_tags e) as [|t0 tl] eqn:Eet.
  { cbn [forallb]. unfold named_constraints in Hnamed. rewrite Eft in Hnamed.
    inversion Hnamed as [|? ? Hc0 _]; subst. destruct c0 as [|name vals]; [congruence|]. reflexivity. }
  rewrite <- Eft, <- Eet in *.
  change 0 with (N.of_nat 0).
  rewrite (match_constraints_enc (f_tags f) (e_tags e) Hft Het Hnamed).
  - reflexivity.
  - pose proof (tags_len_le_enc (f_tags f)). lia.
Qed.
