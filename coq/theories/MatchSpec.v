(* MatchSpec.v — NIP-01 match semantics over abstract values: the specification that
   C06 compares [Access.event_matches] with.  Ten lines; readable in a minute. *)
From Pocket Require Export Layout.

Definition mem_bytes (x : bytes) (l : list bytes) : bool := existsb (fun y => beq y x) l.
Definition mem_N (x : N) (l : list N) : bool := existsb (fun y => y =? x) l.

(* the event has a tag [name :: v :: _] with v among [vals] *)
Definition tag_hits (name : bytes) (vals : list bytes) (t : list bytes) : bool :=
  match t with
  | n :: v :: _ => beq n name && mem_bytes v vals
  | _ => false
  end.
Definition constraint_ok (etags : atags) (c : list bytes) : bool :=
  match c with
  | [] => true                      (* nameless: excluded by [named_constraints] *)
  | name :: vals => existsb (tag_hits name vals) etags
  end.

Definition spec_matches (f : afilter) (e : aevent) : bool :=
  (match f_ids f with [] => true | l => mem_bytes (e_id e) l end)
  && (match f_authors f with [] => true | l => mem_bytes (e_pk e) l end)
  && (match f_kinds f with [] => true | l => mem_N (e_kind e) l end)
  && (f_since f <=? e_created e) && (e_created e <=? f_until f)
  && forallb (constraint_ok (e_tags e)) (f_tags f).

(* every tag constraint has a name (a nameless constraint is not a NIP-01 constraint) *)
Definition named_constraints (f : afilter) : Prop := Forall (fun c => c <> []) (f_tags f).
Definition named_constraintsb (f : afilter) : bool :=
  forallb (fun c => match c with [] => false | _ => true end) (f_tags f).
