(* NumProofs.v — the integer readers of the JSON parsers return exactly the numeric value of the
   digit run, and refuse (never wrap) a value beyond the field's bound. *)
From Pocket Require Import JsonParse.

Fixpoint span_digits (l : bytes) : bytes * bytes :=
  match l with
  | c :: r => if is_digit c then let '(ds, rest) := span_digits r in (c :: ds, rest) else ([], l)
  | [] => ([], [])
  end.
Fixpoint num_from (acc : N) (ds : bytes) : N :=
  match ds with [] => acc | c :: r => num_from (acc * 10 + (c - 48)) r end.
Definition num_of (ds : bytes) : N := num_from 0 ds.

Lemma num_from_ge acc ds : acc <= num_from acc ds.
Proof. revert acc; induction ds as [|c r IH]; intros acc; cbn [num_from]; [lia|]. specialize (IH (acc * 10 + (c - 48))). lia. Qed.

Definition nonempty (ds : bytes) : bool := match ds with [] => false | _ => true end.

Lemma read_digits_spec bound : forall l acc any,
  read_digits l acc any bound =
  let '(ds, rest) := span_digits l in
  if num_from acc ds <=? bound then Ok (num_from acc ds, any || nonempty ds, rest)
  else if nonempty ds then Err EJson else Ok (acc, any, rest).
Proof.
  induction l as [|c r IH]; intros acc any; cbn [read_digits span_digits].
  - cbn [num_from nonempty]. rewrite orb_false_r. destruct (acc <=? bound); reflexivity.
  - destruct (is_digit c) eqn:Ed.
    + destruct (N.ltb_spec bound (acc * 10 + (c - 48))) as [Hov|Hok].
      * destruct (span_digits r) as [ds rest]. cbn [num_from nonempty].
        pose proof (num_from_ge (acc * 10 + (c - 48)) ds) as Hge.
        destruct (N.leb_spec (num_from (acc * 10 + (c - 48)) ds) bound); [lia|reflexivity].
      * rewrite IH. destruct (span_digits r) as [ds rest]. cbn [num_from nonempty]. rewrite !orb_true_r.
        destruct (N.leb_spec (num_from (acc * 10 + (c - 48)) ds) bound) as [H1|H1]; [reflexivity|].
        destruct ds as [|d ds']; [cbn [num_from] in H1; lia|reflexivity].
    + cbn [num_from nonempty]. rewrite orb_false_r. destruct (acc <=? bound); reflexivity.
Qed.

(* created_at / since / until: the value of the digit run, or an error when it is >= 2^64 *)
Theorem read_u64_spec l :
  read_u64 l = let '(ds, rest) := span_digits l in
               match ds with
               | [] => Err EJson
               | _ => if num_of ds <=? 18446744073709551615 then Ok (num_of ds, rest) else Err EJson
               end.
Proof.
  unfold read_u64. rewrite read_digits_spec. destruct (span_digits l) as [ds rest]. unfold num_of.
  destruct ds as [|d ds]; cbn [nonempty orb].
  - cbn [num_from]. reflexivity.
  - destruct (num_from 0 (d :: ds) <=? 18446744073709551615); reflexivity.
Qed.
Theorem read_kind_spec l :
  read_kind l = let '(ds, rest) := span_digits l in
                match ds with
                | [] => Err EJson
                | _ => if num_of ds <=? 65535 then Ok (num_of ds, rest) else Err EJson
                end.
Proof.
  unfold read_kind. rewrite read_digits_spec. destruct (span_digits l) as [ds rest]. unfold num_of.
  destruct ds as [|d ds]; cbn [nonempty orb].
  - cbn [num_from]. reflexivity.
  - destruct (num_from 0 (d :: ds) <=? 65535); reflexivity.
Qed.

(* whatever is accepted fits the field: never wrapped *)
Corollary read_u64_fits l v r : read_u64 l = Ok (v, r) -> v < 18446744073709551616.
Proof.
  rewrite read_u64_spec. destruct (span_digits l) as [ds rest]. destruct ds; [discriminate|].
  destruct (N.leb_spec (num_of (n :: ds)) 18446744073709551615); [|discriminate]. intros [= <- _]. lia.
Qed.
Corollary read_kind_fits l v r : read_kind l = Ok (v, r) -> v < 65536.
Proof.
  rewrite read_kind_spec. destruct (span_digits l) as [ds rest]. destruct ds; [discriminate|].
  destruct (N.leb_spec (num_of (n :: ds)) 65535); [|discriminate]. intros [= <- _]. lia.
Qed.
