(* ParseTotal.v — C03 for the JSON parser models: on ARBITRARY input bytes and ARBITRARY output
   buffers, parse_json_event / parse_json_filter / read_tags_array never panic and never run out
   of fuel (termination: every loop iteration consumes input), and consume no more than the input. *)
From Pocket Require Import JsonParse EscapeProofs HexProofs.

Definition safe {A} (r : res A) : Prop := r <> Panic /\ r <> OutOfFuel.

Lemma safe_ok {A} (a : A) : safe (Ok a). Proof. split; discriminate. Qed.
Lemma safe_err {A} e : safe (@Err A e). Proof. split; discriminate. Qed.
#[global] Hint Resolve safe_ok safe_err : safe.

Lemma safe_bind {A B} (r : res A) (f : A -> res B) :
  safe r -> (forall a, r = Ok a -> safe (f a)) -> safe (bind r f).
Proof.
  intros [H1 H2] Hf. destruct r; cbn [bind]; auto with safe; congruence.
Qed.

Ltac sbind := apply safe_bind; [|intros ? ?].

(* ---------- lengths ---------- *)
Lemma eat_ws_len l : (length (eat_ws l) <= length l)%nat.
Proof. induction l as [|c r IH]; cbn [eat_ws length]; auto. destruct (is_ws c); cbn [length]; lia. Qed.
Lemma eat_ws_commas_len l : (length (eat_ws_commas l) <= length l)%nat.
Proof. induction l as [|c r IH]; cbn [eat_ws_commas length]; auto. destruct (is_ws c || (c =? 44)); cbn [length]; lia. Qed.
Lemma verify_char_len ch l r : verify_char ch l = Ok r -> (length r < length l)%nat.
Proof. destruct l as [|c l']; cbn [verify_char]; [discriminate|]. destruct (c =? ch); [|discriminate]. intros [= <-]. cbn [length]. lia. Qed.
Lemma verify_char_safe ch l : safe (verify_char ch l).
Proof. destruct l as [|c l']; cbn [verify_char]; auto with safe. destruct (c =? ch); auto with safe. Qed.
Lemma peek_safe l : safe (peek l). Proof. destruct l; cbn; auto with safe. Qed.
Lemma eat_colon_ws_safe l : safe (eat_colon_ws l).
Proof. unfold eat_colon_ws. sbind; [apply verify_char_safe|auto with safe]. Qed.
Lemma eat_colon_ws_len l r : eat_colon_ws l = Ok r -> (length r < length l)%nat.
Proof.
  unfold eat_colon_ws. destruct (verify_char 58 (eat_ws l)) as [r1| | |] eqn:E; cbn [bind]; try discriminate.
  intros [= <-]. apply verify_char_len in E. pose proof (eat_ws_len l). pose proof (eat_ws_len r1). lia.
Qed.
Lemma tl_len {A} (l : list A) : (length (tl l) <= length l)%nat.
Proof. destruct l; cbn [tl length]; lia. Qed.
Lemma drop_len_nat {A} n (l : list A) : (length (drop n l) <= length l)%nat.
Proof. unfold drop. rewrite skipn_length. lia. Qed.

Lemma burn_string_props n : forall l, (length l <= n)%nat ->
  safe (burn_string l) /\ (forall r, burn_string l = Ok r -> (length r < length l)%nat).
Proof.
  induction n as [|n IH]; intros l Hl.
  - destruct l; [|cbn [length] in Hl; lia]. cbn [burn_string]. split; [auto with safe|discriminate].
  - destruct l as [|c r]; cbn [burn_string]; [split; [auto with safe|discriminate]|].
    cbn [length] in Hl.
    destruct (c =? 34). { split; [auto with safe|]. intros r0 [= <-]. cbn [length]. lia. }
    destruct (c =? 92).
    + destruct r as [|d r2]; [split; [auto with safe|discriminate]|].
      cbn [length] in Hl. destruct (IH r2 ltac:(lia)) as [Sf L]. split; [exact Sf|].
      intros r0 H. specialize (L r0 H). cbn [length]. lia.
    + destruct (IH r ltac:(lia)) as [Sf L]. split; [exact Sf|].
      intros r0 H. specialize (L r0 H). cbn [length]. lia.
Qed.
Lemma burn_string_safe l : safe (burn_string l).
Proof. apply (burn_string_props (length l) l). lia. Qed.
Lemma burn_string_len l r : burn_string l = Ok r -> (length r < length l)%nat.
Proof. apply (burn_string_props (length l) l). lia. Qed.

Lemma burn_number_len l : (length (burn_number l) <= length l)%nat.
Proof. induction l as [|c r IH]; cbn [burn_number length]; auto. destruct (is_number_char c); cbn [length]; lia. Qed.
Lemma burn_lit_safe lit l : safe (burn_lit lit l).
Proof. unfold burn_lit. destruct (starts_with lit l); auto with safe. Qed.
Lemma burn_lit_len lit l r : lit <> [] -> burn_lit lit l = Ok r -> (length r < length l)%nat.
Proof.
  unfold burn_lit. destruct (starts_with lit l) eqn:E; [|discriminate]. intros Hne [= <-].
  destruct lit as [|x lit']; [congruence|]. destruct l as [|y l']; [discriminate|].
  unfold drop, len. rewrite skipn_length, Nat2N.id. cbn [length]. lia.
Qed.

(* ---------- burn_value / burn_array / burn_object ---------- *)
Lemma burn_all_props fuel :
  (forall depth l, (2 * length l + 1 <= fuel)%nat ->
     safe (burn_value fuel depth l) /\ (forall r, burn_value fuel depth l = Ok r -> (length r < length l)%nat)) /\
  (forall depth l, (2 * length l + 2 <= fuel)%nat ->
     safe (burn_array fuel depth l) /\ (forall r, burn_array fuel depth l = Ok r -> (length r < length l)%nat)) /\
  (forall depth l, (2 * length l + 2 <= fuel)%nat ->
     safe (burn_object fuel depth l) /\ (forall r, burn_object fuel depth l = Ok r -> (length r < length l)%nat)).
Proof.
  induction fuel as [|fuel (IHv & IHa & IHo)].
  { repeat split; intros; lia. }
  split; [|split].
  - (* value *)
    intros depth l Hf. cbn [burn_value].
    destruct (MAX_BURN_DEPTH <? depth); [split; [auto with safe|discriminate]|].
    destruct l as [|c r]; [split; [auto with safe|discriminate]|]. cbn [length] in Hf.
    destruct (c =? 34).
    { split; [apply burn_string_safe|]. intros r0 H. apply burn_string_len in H. cbn [length]. lia. }
    destruct (c =? 91).
    { destruct (IHa (depth + 1) r ltac:(lia)) as [Sf L]. split; [exact Sf|]. intros r0 H. specialize (L r0 H). cbn [length]. lia. }
    destruct (c =? 123).
    { destruct (IHo (depth + 1) r ltac:(lia)) as [Sf L]. split; [exact Sf|]. intros r0 H. specialize (L r0 H). cbn [length]. lia. }
    destruct (c =? 116). { split; [apply burn_lit_safe|]. intros r0 H. apply burn_lit_len in H; [exact H|discriminate]. }
    destruct (c =? 102). { split; [apply burn_lit_safe|]. intros r0 H. apply burn_lit_len in H; [exact H|discriminate]. }
    destruct (c =? 110). { split; [apply burn_lit_safe|]. intros r0 H. apply burn_lit_len in H; [exact H|discriminate]. }
    destruct ((c =? 45) || is_digit c) eqn:Ed; [|split; [auto with safe|discriminate]].
    split; [auto with safe|]. intros r0 [= <-]. cbn [burn_number]. 
    assert (is_number_char c = true) as ->.
    { unfold is_number_char. apply orb_true_iff in Ed. destruct Ed as [Ed|Ed]; rewrite Ed; rewrite ?orb_true_r; reflexivity. }
    pose proof (burn_number_len r). cbn [length]. lia.
  - (* array *)
    intros depth l Hf. cbn [burn_array]. pose proof (eat_ws_commas_len l) as Hw.
    destruct (eat_ws_commas l) as [|c r] eqn:El; [split; [auto with safe|discriminate]|]. cbn [length] in Hw.
    destruct (c =? 93). { split; [auto with safe|]. intros r0 [= <-]. lia. }
    destruct (IHv depth (c :: r) ltac:(cbn [length]; lia)) as [Sf L].
    destruct (burn_value fuel depth (c :: r)) as [r2| | |] eqn:Ev; cbn [bind].
    + specialize (L r2 eq_refl). cbn [length] in L.
      destruct (IHa depth r2 ltac:(lia)) as [Sf2 L2]. split; [exact Sf2|]. intros r0 H. specialize (L2 r0 H). lia.
    + split; [auto with safe|discriminate].
    + destruct Sf; congruence.
    + destruct Sf; congruence.
  - (* object *)
    intros depth l Hf. cbn [burn_object]. pose proof (eat_ws_commas_len l) as Hw.
    destruct (eat_ws_commas l) as [|c r] eqn:El; [split; [auto with safe|discriminate]|]. cbn [length] in Hw.
    destruct (c =? 125). { split; [auto with safe|]. intros r0 [= <-]. lia. }
    destruct (verify_char 34 (c :: r)) as [r1| | |] eqn:E1; cbn [bind]; try (split; [auto with safe|discriminate]).
    2-3: pose proof (verify_char_safe 34 (c :: r)) as [X Y]; congruence.
    apply verify_char_len in E1. cbn [length] in E1.
    destruct (burn_string r1) as [r2| | |] eqn:E2; cbn [bind]; try (split; [auto with safe|discriminate]).
    2-3: pose proof (burn_string_safe r1) as [X Y]; congruence.
    apply burn_string_len in E2.
    destruct (eat_colon_ws r2) as [r3| | |] eqn:E3; cbn [bind]; try (split; [auto with safe|discriminate]).
    2-3: pose proof (eat_colon_ws_safe r2) as [X Y]; congruence.
    apply eat_colon_ws_len in E3.
    destruct (IHv depth r3 ltac:(lia)) as [Sf L].
    destruct (burn_value fuel depth r3) as [r4| | |] eqn:Ev; cbn [bind].
    + specialize (L r4 eq_refl).
      destruct (IHo depth r4 ltac:(lia)) as [Sf2 L2]. split; [exact Sf2|]. intros r0 H. specialize (L2 r0 H). lia.
    + split; [auto with safe|discriminate].
    + destruct Sf; congruence.
    + destruct Sf; congruence.
Qed.

Lemma burn_member_safe l : safe (burn_member l).
Proof.
  unfold burn_member. sbind; [apply burn_string_safe|]. sbind; [apply eat_colon_ws_safe|].
  apply burn_string_len in H. apply eat_colon_ws_len in H0.
  apply (proj1 (burn_all_props (burn_fuel l))). unfold burn_fuel. lia.
Qed.
Lemma burn_member_len l r : burn_member l = Ok r -> (length r < length l)%nat.
Proof.
  unfold burn_member. destruct (burn_string l) as [r1| | |] eqn:E1; cbn [bind]; try discriminate.
  destruct (eat_colon_ws r1) as [r2| | |] eqn:E2; cbn [bind]; try discriminate.
  apply burn_string_len in E1. apply eat_colon_ws_len in E2. intros H.
  apply (proj1 (burn_all_props (burn_fuel l))) in H; [lia|unfold burn_fuel; lia].
Qed.

(* ---------- output buffer writes ---------- *)
Lemma put_safe out off data : safe (put out off data).
Proof. unfold put. destruct (len out <? off + len data); auto with safe. Qed.
Lemma put_len out off data out' : put out off data = Ok out' -> len out' = len out.
Proof.
  unfold put. destruct (N.ltb_spec (len out) (off + len data)); [discriminate|]. intros [= <-].
  rewrite !len_app, len_take, len_drop. lia.
Qed.
Lemma put_raw_len out off data out' : put_raw out off data = Ok out' -> len out' = len out.
Proof.
  unfold put_raw. destruct (N.ltb_spec (len out) (off + len data)); [discriminate|]. intros [= <-].
  rewrite !len_app, len_take, len_drop. lia.
Qed.
Lemma put_raw_safe out off data : off + len data <= len out -> safe (put_raw out off data).
Proof. intros H. unfold put_raw. destruct (N.ltb_spec (len out) (off + len data)); [lia|auto with safe]. Qed.

(* a tactic: case on a result whose safety is known; [x] names the Ok value, [E] the equation *)
Ltac dres T S x E :=
  destruct T as [x| | |] eqn:E; cbn [bind];
  [ | first [ solve [auto with safe] | split; [solve [auto with safe]|discriminate] ]
    | exfalso; pose proof S as [? ?]; congruence
    | exfalso; pose proof S as [? ?]; congruence ].

(* ---------- tags ---------- *)
Lemma burn_tag_strings_props fuel : forall l, (length l < fuel)%nat ->
  safe (burn_tag_strings fuel l) /\ (forall r, burn_tag_strings fuel l = Ok r -> (length r < length l)%nat).
Proof.
  induction fuel as [|fuel IH]; intros l Hf; [lia|]. cbn [burn_tag_strings].
  destruct l as [|c l']; cbn [peek bind]; [split; [auto with safe|discriminate]|].
  destruct (c =? 44).
  - cbn [tl]. pose proof (eat_ws_len l') as Hw.
    dres (verify_char 34 (eat_ws l')) (verify_char_safe 34 (eat_ws l')) r1 E1.
    apply verify_char_len in E1.
    dres (burn_string r1) (burn_string_safe r1) r2 E2.
    apply burn_string_len in E2. pose proof (eat_ws_len r2) as Hw2. cbn [length] in Hf.
    destruct (IH (eat_ws r2) ltac:(lia)) as [Sf L]. split; [exact Sf|].
    intros r H. specialize (L r H). cbn [length]. lia.
  - split; [apply verify_char_safe|]. intros r H. apply verify_char_len in H. exact H.
Qed.
Lemma burn_tag_props l :
  safe (burn_tag l) /\ (forall r, burn_tag l = Ok r -> (length r < length l)%nat).
Proof.
  unfold burn_tag. pose proof (eat_ws_len l) as Hw.
  destruct (eat_ws l) as [|c l1] eqn:El; cbn [peek bind]; [split; [auto with safe|discriminate]|].
  cbn [length] in Hw.
  destruct (c =? 93). { cbn [tl]. split; [auto with safe|]. intros r [= <-]. lia. }
  dres (verify_char 34 (c :: l1)) (verify_char_safe 34 (c :: l1)) r1 E1.
  apply verify_char_len in E1. cbn [length] in E1.
  dres (burn_string r1) (burn_string_safe r1) r2 E2.
  apply burn_string_len in E2. pose proof (eat_ws_len r2) as Hw2.
  destruct (burn_tag_strings_props (S (length l)) (eat_ws r2) ltac:(lia)) as [Sf L]. split; [exact Sf|].
  intros r H. specialize (L r H). lia.
Qed.
Lemma count_tags_loop_safe fuel : forall l count, (length l < fuel)%nat -> safe (count_tags_loop fuel l count).
Proof.
  induction fuel as [|fuel IH]; intros l count Hf; [lia|]. cbn [count_tags_loop].
  destruct l as [|c l']; cbn [peek bind]; [auto with safe|].
  destruct (c =? 93); [auto with safe|]. destruct (c =? 44); [|auto with safe].
  cbn [tl]. pose proof (eat_ws_len l') as Hw.
  dres (verify_char 91 (eat_ws l')) (verify_char_safe 91 (eat_ws l')) r1 E1.
  apply verify_char_len in E1.
  destruct (burn_tag_props r1) as [Sf L].
  dres (burn_tag r1) Sf r2 E2.
  specialize (L r2 eq_refl). pose proof (eat_ws_len r2). cbn [length] in Hf. apply IH. lia.
Qed.
Lemma count_tags_safe l : safe (count_tags l).
Proof.
  unfold count_tags. destruct l as [|c l']; cbn [peek bind]; [auto with safe|].
  destruct (c =? 93); [auto with safe|]. destruct (c =? 91); [|auto with safe].
  cbn [tl]. destruct (burn_tag_props l') as [Sf L].
  dres (burn_tag l') Sf r1 E1.
  specialize (L r1 eq_refl). pose proof (eat_ws_len r1). apply count_tags_loop_safe. cbn [length]. lia.
Qed.

Lemma unescape_safe l cap : safe (json_unescape l cap). Proof. apply json_unescape_total. Qed.

Lemma read_tag_strings_props fuel : forall l out outpos num, (length l < fuel)%nat ->
  safe (read_tag_strings fuel l out outpos num) /\
  (forall r out' op' n', read_tag_strings fuel l out outpos num = Ok (r, out', op', n') ->
     (length r < length l)%nat /\ len out' = len out).
Proof.
  induction fuel as [|fuel IH]; intros l out outpos num Hf; [lia|]. cbn [read_tag_strings].
  destruct (len out <? outpos + 2); [split; [auto with safe|discriminate]|].
  destruct (json_unescape l (len out - (outpos + 2))) as [[inlen s]| | |] eqn:Eu; cbn [bind].
  2: split; [auto with safe|discriminate].
  2-3: exfalso; pose proof (unescape_safe l (len out - (outpos + 2))) as [? ?]; congruence.
  apply json_unescape_consumed in Eu.
  dres (put out (outpos + 2) s) (put_safe out (outpos + 2) s) o1 E1.
  apply put_len in E1.
  dres (put o1 outpos (le16 (len s))) (put_safe o1 outpos (le16 (len s))) o2 E2.
  apply put_len in E2.
  dres (verify_char 34 (drop inlen l)) (verify_char_safe 34 (drop inlen l)) r1 E3.
  apply verify_char_len in E3. pose proof (drop_len_nat inlen l) as Hd. pose proof (eat_ws_len r1) as Hw.
  destruct (eat_ws r1) as [|c r2] eqn:Ew; cbn [peek bind]; [split; [auto with safe|discriminate]|].
  cbn [length] in Hw.
  destruct (c =? 44).
  - cbn [tl]. pose proof (eat_ws_len r2) as Hw2.
    dres (verify_char 34 (eat_ws r2)) (verify_char_safe 34 (eat_ws r2)) r3 E4.
    apply verify_char_len in E4.
    destruct (IH r3 o2 (outpos + 2 + len s) (num + 1) ltac:(lia)) as [Sf L]. split; [exact Sf|].
    intros r out' op' n' H. destruct (L _ _ _ _ H) as [L1 L2]. split; [lia|congruence].
  - destruct (c =? 93); [|split; [auto with safe|discriminate]].
    cbn [tl]. split; [auto with safe|]. intros r out' op' n' [= <- <- _ _]. split; [lia|congruence].
Qed.

Lemma read_tag_props l out outpos :
  safe (read_tag l out outpos) /\
  (forall r out' op', read_tag l out outpos = Ok (r, out', op') -> (length r < length l)%nat /\ len out' = len out).
Proof.
  unfold read_tag. destruct l as [|c l']; cbn [peek bind]; [split; [auto with safe|discriminate]|].
  destruct (c =? 93).
  - dres (put out outpos (le16 0)) (put_safe out outpos (le16 0)) o1 E1.
    apply put_len in E1. cbn [tl]. split; [auto with safe|]. intros r out' op' [= <- <- _]. cbn [length]. split; [lia|exact E1].
  - dres (verify_char 34 (c :: l')) (verify_char_safe 34 (c :: l')) r1 E1.
    apply verify_char_len in E1.
    destruct (read_tag_strings_props (S (length (c :: l'))) r1 out (outpos + 2) 1 ltac:(lia)) as [Sf L].
    destruct (read_tag_strings (S (length (c :: l'))) r1 out (outpos + 2) 1) as [[[[r2 out1] op1] num]| | |] eqn:Er; cbn [bind].
    2: split; [auto with safe|discriminate].
    2-3: destruct Sf; congruence.
    destruct (L _ _ _ _ eq_refl) as [L1 L2].
    dres (put out1 outpos (le16 num)) (put_safe out1 outpos (le16 num)) o2 E2.
    apply put_len in E2. split; [auto with safe|]. intros r out' op' [= <- <- _]. split; [lia|congruence].
Qed.

Lemma read_tags_loop_props fuel : forall l out outpos tag_num num_tags, (length l < fuel)%nat ->
  safe (read_tags_loop fuel l out outpos tag_num num_tags) /\
  (forall r out' op', read_tags_loop fuel l out outpos tag_num num_tags = Ok (r, out', op') ->
     (length r <= length l)%nat /\ len out' = len out).
Proof.
  induction fuel as [|fuel IH]; intros l out outpos tag_num num_tags Hf; [lia|]. cbn [read_tags_loop].
  dres (put out (4 + tag_num * 2) (le16 outpos)) (put_safe out (4 + tag_num * 2) (le16 outpos)) o1 E1.
  apply put_len in E1.
  destruct (read_tag_props l o1 outpos) as [Sf L].
  destruct (read_tag l o1 outpos) as [[[r out2] op2]| | |] eqn:Er; cbn [bind].
  2: split; [auto with safe|discriminate].
  2-3: destruct Sf; congruence.
  destruct (L _ _ _ eq_refl) as [L1 L2]. pose proof (eat_ws_len r) as Hw.
  destruct (eat_ws r) as [|c r1] eqn:Ew; cbn [peek bind]; [split; [auto with safe|discriminate]|].
  cbn [length] in Hw.
  destruct (c =? 93).
  - destruct (negb (tag_num =? num_tags - 1)); [split; [auto with safe|discriminate]|].
    cbn [tl]. split; [auto with safe|]. intros r0 out' op' [= <- <- _]. split; [lia|congruence].
  - destruct (c =? 44); [|split; [auto with safe|discriminate]].
    cbn [tl]. pose proof (eat_ws_len r1) as Hw2.
    dres (verify_char 91 (eat_ws r1)) (verify_char_safe 91 (eat_ws r1)) r2 E2.
    apply verify_char_len in E2.
    destruct (num_tags <=? tag_num + 1); [split; [auto with safe|discriminate]|].
    pose proof (eat_ws_len r2) as Hw3.
    destruct (IH (eat_ws r2) out2 op2 (tag_num + 1) num_tags ltac:(lia)) as [Sf2 LL]. split; [exact Sf2|].
    intros r0 out' op' H. destruct (LL _ _ _ H) as [A B]. split; [lia|congruence].
Qed.

Theorem read_tags_array_props l out :
  safe (read_tags_array l out) /\
  (forall r out' size, read_tags_array l out = Ok (r, out', size) -> (length r <= length l)%nat /\ len out' = len out).
Proof.
  unfold read_tags_array.
  dres (verify_char 91 l) (verify_char_safe 91 l) r1 E1.
  apply verify_char_len in E1. pose proof (eat_ws_len r1) as Hw.
  destruct (len out <? 4); [split; [auto with safe|discriminate]|].
  dres (count_tags (eat_ws r1)) (count_tags_safe (eat_ws r1)) n E2.
  dres (put out 2 (le16 n)) (put_safe out 2 (le16 n)) o1 E3.
  apply put_len in E3.
  destruct (n =? 0).
  - dres (put o1 0 (le16 4)) (put_safe o1 0 (le16 4)) o2 E4.
    apply put_len in E4.
    destruct (proj1 (proj2 (burn_all_props (burn_fuel (eat_ws r1)))) 0 (eat_ws r1) ltac:(unfold burn_fuel; lia)) as [Sf L].
    dres (burn_array (burn_fuel (eat_ws r1)) 0 (eat_ws r1)) Sf r2 E5.
    specialize (L r2 eq_refl). split; [auto with safe|]. intros r out' size [= <- <- _]. split; [lia|congruence].
  - dres (verify_char 91 (eat_ws r1)) (verify_char_safe 91 (eat_ws r1)) r2 E4.
    apply verify_char_len in E4. pose proof (eat_ws_len r2) as Hw2.
    destruct (len out <? 4 + n * 2); [split; [auto with safe|discriminate]|].
    destruct (read_tags_loop_props (S (length l)) (eat_ws r2) o1 (4 + n * 2) 0 n ltac:(lia)) as [Sf L].
    destruct (read_tags_loop (S (length l)) (eat_ws r2) o1 (4 + n * 2) 0 n) as [[[r3 out2] op']| | |] eqn:Er; cbn [bind].
    2: split; [auto with safe|discriminate].
    2-3: destruct Sf; congruence.
    destruct (L _ _ _ eq_refl) as [L1 L2].
    destruct (65535 <? op'); [split; [auto with safe|discriminate]|].
    dres (put out2 0 (le16 op')) (put_safe out2 0 (le16 op')) o3 E5.
    apply put_len in E5. split; [auto with safe|]. intros r out' size [= <- <- _]. split; [lia|congruence].
Qed.

(* Tags::from_json: total, and the consumed count never exceeds the input *)
Theorem tags_from_json_total l out :
  safe (tags_from_json l out) /\ (forall n t, tags_from_json l out = Ok (n, t) -> n <= len l).
Proof.
  unfold tags_from_json. destruct (read_tags_array_props l out) as [Sf L].
  destruct (read_tags_array l out) as [[[r out'] size]| | |] eqn:E; cbn [bind].
  - split; [auto with safe|]. intros n t [= <- _]. lia.
  - split; [auto with safe|discriminate].
  - destruct Sf; congruence.
  - destruct Sf; congruence.
Qed.

(* ---------- scalar readers ---------- *)
Lemma read_hex_quoted_props n l :
  safe (read_hex_quoted n l) /\
  (forall bs r, read_hex_quoted n l = Ok (bs, r) -> (length r < length l)%nat /\ len bs = n).
Proof.
  unfold read_hex_quoted.
  dres (verify_char 34 l) (verify_char_safe 34 l) r1 E1.
  apply verify_char_len in E1.
  destruct (len r1 <=? 2 * n) eqn:El; [split; [auto with safe|discriminate]|].
  pose proof (read_hex_total (take (2 * n) r1) n) as Hs.
  destruct (read_hex (take (2 * n) r1) n) as [bs| | |] eqn:Eh; cbn [bind].
  2: split; [auto with safe|discriminate].
  2-3: destruct Hs; congruence.
  dres (verify_char 34 (drop (2 * n) r1)) (verify_char_safe 34 (drop (2 * n) r1)) r2 E2.
  apply verify_char_len in E2. pose proof (drop_len_nat (2 * n) r1).
  split; [auto with safe|]. intros bs0 r [= <- <-]. split; [lia|].
  unfold read_hex in Eh. destruct (len (take (2 * n) r1) =? 2 * n) eqn:E3; [|discriminate].
  apply read_hex_pairs_ok in Eh. destruct Eh as [_ L]. apply N.eqb_eq in E3. lia.
Qed.

Lemma read_digits_props bound : forall l v any,
  safe (read_digits l v any bound) /\
  (forall v' any' r, read_digits l v any bound = Ok (v', any', r) -> (length r <= length l)%nat /\ (any' = true -> any = true \/ (length r < length l)%nat)).
Proof.
  induction l as [|c r IH]; intros v any; cbn [read_digits].
  - split; [auto with safe|]. intros v' any' r0 [= _ <- <-]. split; [lia|auto].
  - destruct (is_digit c).
    + destruct (bound <? v * 10 + (c - 48)); [split; [auto with safe|discriminate]|].
      destruct (IH (v * 10 + (c - 48)) true) as [Sf L]. split; [exact Sf|].
      intros v' any' r0 H. destruct (L _ _ _ H) as [L1 _]. cbn [length]. split; [lia|]. intros _. right. lia.
    + split; [auto with safe|]. intros v' any' r0 [= _ <- <-]. split; [lia|auto].
Qed.
Lemma read_u64_props l : safe (read_u64 l) /\ (forall v r, read_u64 l = Ok (v, r) -> (length r < length l)%nat).
Proof.
  unfold read_u64. destruct (read_digits_props 18446744073709551615 l 0 false) as [Sf L].
  destruct (read_digits l 0 false 18446744073709551615) as [[[v any] r]| | |] eqn:E; cbn [bind].
  - destruct any; [|split; [auto with safe|discriminate]]. split; [auto with safe|].
    intros v0 r0 [= <- <-]. destruct (L _ _ _ eq_refl) as [_ H]. destruct (H eq_refl); [discriminate|assumption].
  - split; [auto with safe|discriminate].
  - destruct Sf; congruence.
  - destruct Sf; congruence.
Qed.
Lemma read_kind_props l : safe (read_kind l) /\ (forall v r, read_kind l = Ok (v, r) -> (length r < length l)%nat).
Proof.
  unfold read_kind. destruct (read_digits_props 65535 l 0 false) as [Sf L].
  destruct (read_digits l 0 false 65535) as [[[v any] r]| | |] eqn:E; cbn [bind].
  - destruct any; [|split; [auto with safe|discriminate]]. split; [auto with safe|].
    intros v0 r0 [= <- <-]. destruct (L _ _ _ eq_refl) as [_ H]. destruct (H eq_refl); [discriminate|assumption].
  - split; [auto with safe|discriminate].
  - destruct Sf; congruence.
  - destruct Sf; congruence.
Qed.

Lemma read_content_props l out after_tags :
  safe (read_content l out after_tags) /\
  (forall r out', read_content l out after_tags = Ok (r, out') -> (length r < length l)%nat /\ len out' = len out).
Proof.
  unfold read_content.
  dres (verify_char 34 l) (verify_char_safe 34 l) r1 E1.
  apply verify_char_len in E1.
  destruct (len out <? after_tags + 4); [split; [auto with safe|discriminate]|].
  destruct (json_unescape r1 (len out - (after_tags + 4))) as [[inlen s]| | |] eqn:Eu; cbn [bind].
  2: split; [auto with safe|discriminate].
  2-3: exfalso; pose proof (unescape_safe r1 (len out - (after_tags + 4))) as [? ?]; congruence.
  dres (put out (after_tags + 4) s) (put_safe out (after_tags + 4) s) o1 E2. apply put_len in E2.
  dres (verify_char 34 (drop inlen r1)) (verify_char_safe 34 (drop inlen r1)) r2 E3.
  apply verify_char_len in E3. pose proof (drop_len_nat inlen r1).
  dres (put o1 after_tags (le32 (len s))) (put_safe o1 after_tags (le32 (len s))) o2 E4. apply put_len in E4.
  dres (put o2 0 (le32 (after_tags + 4 + len s))) (put_safe o2 0 (le32 (after_tags + 4 + len s))) o3 E5. apply put_len in E5.
  split; [auto with safe|]. intros r out' [= <- <-]. split; [lia|congruence].
Qed.

(* ---------- parse_json_event ---------- *)
Lemma len_take_drop_glue (out tout : bytes) : 144 <= len out -> len tout = len (drop 144 out) -> len (take 144 out ++ tout) = len out.
Proof. intros H1 H2. rewrite len_app, len_take, H2, len_drop. lia. Qed.

Lemma event_member_props st l :
  152 <= len (ev_out st) ->
  safe (event_member st l) /\
  (forall st' r, event_member st l = Ok (st', r) -> (length r < length l)%nat /\ len (ev_out st') = len (ev_out st)).
Proof.
  intros Hout. unfold event_member.
  assert (Hd : forall k, (length (drop k l) <= length l)%nat) by (intros; apply drop_len_nat).
  repeat match goal with |- context [if starts_with ?k l then _ else _] => destruct (starts_with k l) eqn:? end.
  - (* id *)
    destruct (has_bit _ _); [split; [auto with safe|discriminate]|].
    dres (eat_colon_ws (drop 3 l)) (eat_colon_ws_safe (drop 3 l)) r1 E1. apply eat_colon_ws_len in E1. specialize (Hd 3).
    destruct (read_hex_quoted_props 32 r1) as [Sf L].
    destruct (read_hex_quoted 32 r1) as [[bs r2]| | |] eqn:Eh; cbn [bind]; [|split; [auto with safe|discriminate]|destruct Sf; congruence|destruct Sf; congruence].
    destruct (L _ _ eq_refl) as [L1 L2].
    dres (put_raw (ev_out st) 16 bs) (put_raw_safe (ev_out st) 16 bs ltac:(lia)) o1 E2. apply put_raw_len in E2.
    split; [auto with safe|]. intros st' r [= <- <-]. cbn [ev_out]. split; [lia|exact E2].
  - (* sig *)
    destruct (has_bit _ _); [split; [auto with safe|discriminate]|].
    dres (eat_colon_ws (drop 4 l)) (eat_colon_ws_safe (drop 4 l)) r1 E1. apply eat_colon_ws_len in E1. specialize (Hd 4).
    destruct (len (ev_out st) <? 144); [split; [auto with safe|discriminate]|].
    destruct (read_hex_quoted_props 64 r1) as [Sf L].
    destruct (read_hex_quoted 64 r1) as [[bs r2]| | |] eqn:Eh; cbn [bind]; [|split; [auto with safe|discriminate]|destruct Sf; congruence|destruct Sf; congruence].
    destruct (L _ _ eq_refl) as [L1 L2].
    dres (put_raw (ev_out st) 80 bs) (put_raw_safe (ev_out st) 80 bs ltac:(lia)) o1 E2. apply put_raw_len in E2.
    split; [auto with safe|]. intros st' r [= <- <-]. cbn [ev_out]. split; [lia|exact E2].
  - (* kind *)
    destruct (has_bit _ _); [split; [auto with safe|discriminate]|].
    dres (eat_colon_ws (drop 5 l)) (eat_colon_ws_safe (drop 5 l)) r1 E1. apply eat_colon_ws_len in E1. specialize (Hd 5).
    destruct (read_kind_props r1) as [Sf L].
    destruct (read_kind r1) as [[k r2]| | |] eqn:Ek; cbn [bind]; [|split; [auto with safe|discriminate]|destruct Sf; congruence|destruct Sf; congruence].
    specialize (L _ _ eq_refl).
    dres (put_raw (ev_out st) 4 (le16 k)) (put_raw_safe (ev_out st) 4 (le16 k) ltac:(rewrite len_le16; lia)) o1 E2. apply put_raw_len in E2.
    split; [auto with safe|]. intros st' r [= <- <-]. cbn [ev_out]. split; [lia|exact E2].
  - (* tags *)
    destruct (has_bit _ _); [split; [auto with safe|discriminate]|].
    dres (eat_colon_ws (drop 5 l)) (eat_colon_ws_safe (drop 5 l)) r1 E1. apply eat_colon_ws_len in E1. specialize (Hd 5).
    destruct (N.ltb_spec (len (ev_out st)) 144); [lia|].
    destruct (read_tags_array_props r1 (drop 144 (ev_out st))) as [Sf L].
    destruct (read_tags_array r1 (drop 144 (ev_out st))) as [[[r2 tout] tsize]| | |] eqn:Et; cbn [bind];
      [|split; [auto with safe|discriminate]|destruct Sf; congruence|destruct Sf; congruence].
    destruct (L _ _ _ eq_refl) as [L1 L2].
    pose proof (len_take_drop_glue (ev_out st) tout ltac:(lia) L2) as Hg.
    destruct (ev_content_start st) as [cs|].
    + destruct (read_content_props cs (take 144 (ev_out st) ++ tout) (144 + tsize)) as [Sc Lc].
      destruct (read_content cs (take 144 (ev_out st) ++ tout) (144 + tsize)) as [[rc out2]| | |] eqn:Ec; cbn [bind];
        [|split; [auto with safe|discriminate]|destruct Sc; congruence|destruct Sc; congruence].
      destruct (Lc _ _ eq_refl) as [_ Lc2].
      split; [auto with safe|]. intros st' r [= <- <-]. cbn [ev_out]. split; [lia|congruence].
    + split; [auto with safe|]. intros st' r [= <- <-]. cbn [ev_out]. split; [lia|exact Hg].
  - (* pubkey *)
    destruct (has_bit _ _); [split; [auto with safe|discriminate]|].
    dres (eat_colon_ws (drop 7 l)) (eat_colon_ws_safe (drop 7 l)) r1 E1. apply eat_colon_ws_len in E1. specialize (Hd 7).
    destruct (read_hex_quoted_props 32 r1) as [Sf L].
    destruct (read_hex_quoted 32 r1) as [[bs r2]| | |] eqn:Eh; cbn [bind]; [|split; [auto with safe|discriminate]|destruct Sf; congruence|destruct Sf; congruence].
    destruct (L _ _ eq_refl) as [L1 L2].
    dres (put_raw (ev_out st) 48 bs) (put_raw_safe (ev_out st) 48 bs ltac:(lia)) o1 E2. apply put_raw_len in E2.
    split; [auto with safe|]. intros st' r [= <- <-]. cbn [ev_out]. split; [lia|exact E2].
  - (* content *)
    destruct (has_bit _ _); [split; [auto with safe|discriminate]|].
    dres (eat_colon_ws (drop 8 l)) (eat_colon_ws_safe (drop 8 l)) r1 E1. apply eat_colon_ws_len in E1. specialize (Hd 8).
    destruct (ev_tags_size st =? 0).
    + dres (verify_char 34 r1) (verify_char_safe 34 r1) r2 E2. apply verify_char_len in E2.
      dres (burn_string r2) (burn_string_safe r2) r3 E3. apply burn_string_len in E3.
      split; [auto with safe|]. intros st' r [= <- <-]. cbn [ev_out]. split; [lia|reflexivity].
    + destruct (read_content_props r1 (ev_out st) (144 + ev_tags_size st)) as [Sc Lc].
      destruct (read_content r1 (ev_out st) (144 + ev_tags_size st)) as [[rc out2]| | |] eqn:Ec; cbn [bind];
        [|split; [auto with safe|discriminate]|destruct Sc; congruence|destruct Sc; congruence].
      destruct (Lc _ _ eq_refl) as [Lc1 Lc2].
      split; [auto with safe|]. intros st' r [= <- <-]. cbn [ev_out]. split; [lia|exact Lc2].
  - (* created_at *)
    destruct (has_bit _ _); [split; [auto with safe|discriminate]|].
    dres (eat_colon_ws (drop 11 l)) (eat_colon_ws_safe (drop 11 l)) r1 E1. apply eat_colon_ws_len in E1. specialize (Hd 11).
    destruct (read_u64_props r1) as [Sf L].
    destruct (read_u64 r1) as [[u r2]| | |] eqn:Ek; cbn [bind]; [|split; [auto with safe|discriminate]|destruct Sf; congruence|destruct Sf; congruence].
    specialize (L _ _ eq_refl).
    dres (put_raw (ev_out st) 8 (le64 u)) (put_raw_safe (ev_out st) 8 (le64 u) ltac:(rewrite len_le64; lia)) o1 E2. apply put_raw_len in E2.
    split; [auto with safe|]. intros st' r [= <- <-]. cbn [ev_out]. split; [lia|exact E2].
  - (* unknown member *)
    pose proof (burn_member_safe l) as Sf.
    destruct (burn_member l) as [r2| | |] eqn:Eb; cbn [bind]; [|split; [auto with safe|discriminate]|destruct Sf; congruence|destruct Sf; congruence].
    apply burn_member_len in Eb. split; [auto with safe|]. intros st' r [= <- <-]. split; [lia|reflexivity].
Qed.

Lemma next_object_field_props l :
  safe (next_object_field l) /\ (forall b r, next_object_field l = Ok (b, r) -> (length r < length l)%nat).
Proof.
  unfold next_object_field. pose proof (eat_ws_len l) as Hw.
  destruct (eat_ws l) as [|c r]; [split; [auto with safe|discriminate]|]. cbn [length] in Hw.
  destruct (c =? 125). { split; [auto with safe|]. intros b r0 [= _ <-]. lia. }
  destruct (c =? 44). { split; [auto with safe|]. intros b r0 [= _ <-]. lia. }
  split; [auto with safe|discriminate].
Qed.

Lemma event_members_props fuel : forall st l, (length l < fuel)%nat -> 152 <= len (ev_out st) ->
  safe (event_members fuel st l) /\
  (forall st' r, event_members fuel st l = Ok (st', r) -> (length r <= length l)%nat /\ len (ev_out st') = len (ev_out st)).
Proof.
  induction fuel as [|fuel IH]; intros st l Hf Hout; [lia|]. cbn [event_members].
  pose proof (eat_ws_len l) as Hw.
  dres (verify_char 34 (eat_ws l)) (verify_char_safe 34 (eat_ws l)) r1 E1. apply verify_char_len in E1.
  destruct (event_member_props st r1 Hout) as [Sf L].
  destruct (event_member st r1) as [[st1 r2]| | |] eqn:Em; cbn [bind]; [|split; [auto with safe|discriminate]|destruct Sf; congruence|destruct Sf; congruence].
  destruct (L _ _ eq_refl) as [L1 L2].
  destruct (next_object_field_props r2) as [Sn Ln].
  destruct (next_object_field r2) as [[fin r3]| | |] eqn:En; cbn [bind]; [|split; [auto with safe|discriminate]|destruct Sn; congruence|destruct Sn; congruence].
  specialize (Ln _ _ eq_refl).
  destruct fin.
  - split; [auto with safe|]. intros st' r [= <- <-]. split; [lia|exact L2].
  - destruct (IH st1 r3 ltac:(lia) ltac:(lia)) as [S2 LL]. split; [exact S2|].
    intros st' r H. destruct (LL _ _ H) as [A B]. split; [lia|congruence].
Qed.

(* C03 for Event::from_json: for EVERY input and EVERY output buffer - an error or a value, never a
   panic or non-termination; consumed <= input length; the returned event lies within the buffer *)
Theorem parse_json_event_total input out :
  safe (parse_json_event input out) /\
  (forall n elen out', parse_json_event input out = Ok (n, elen, out') -> n <= len input /\ len out' = len out).
Proof.
  unfold parse_json_event.
  destruct (len input <? 204); [split; [auto with safe|discriminate]|].
  destruct (N.ltb_spec (len out) 152) as [|Ho]; [split; [auto with safe|discriminate]|].
  dres (put_raw out 6 [0; 0]) (put_raw_safe out 6 [0; 0] ltac:(unfold len at 1; cbn [length]; lia)) o0 E0.
  apply put_raw_len in E0.
  pose proof (eat_ws_len input) as Hw.
  dres (verify_char 123 (eat_ws input)) (verify_char_safe 123 (eat_ws input)) r1 E1. apply verify_char_len in E1.
  destruct (event_members_props (S (length input)) (mkEv o0 0 0 None) r1 ltac:(lia) ltac:(cbn [ev_out]; lia)) as [Sf L].
  destruct (event_members (S (length input)) (mkEv o0 0 0 None) r1) as [[st r2]| | |] eqn:Em; cbn [bind];
    [|split; [auto with safe|discriminate]|destruct Sf; congruence|destruct Sf; congruence].
  destruct (L _ _ eq_refl) as [L1 L2]. cbn [ev_out] in L2.
  destruct (ev_complete st =? 127); [|split; [auto with safe|discriminate]].
  destruct (rd32 (ev_out st)) as [elen|] eqn:Er.
  - split; [auto with safe|]. intros n e' out' [= <- _ <-]. split; [|congruence].
    unfold len. lia.
  - exfalso. assert (152 <= len (ev_out st)) by lia.
    destruct (ev_out st) as [|a [|b [|c [|d rest]]]]; unfold len in H; cbn [length] in H; try lia. discriminate.
Qed.

(* ---------- parse_json_filter ---------- *)
Lemma skip_to_bracket_len l : (length (skip_to_bracket l) <= length l)%nat.
Proof. induction l as [|c r IH]; cbn [skip_to_bracket length]; auto. destruct (c =? 93); cbn [length]; lia. Qed.

Definition saved (st : flst) : list bytes :=
  (match fl_start_ids st with Some x => [x] | None => [] end) ++
  (match fl_start_authors st with Some x => [x] | None => [] end) ++
  (match fl_start_kinds st with Some x => [x] | None => [] end) ++ fl_start_tags st.
Definition saved_ok (B : nat) (st : flst) : Prop := Forall (fun x => (length x <= B)%nat) (saved st).

Lemma filter_member_props B st l :
  (length l <= B)%nat -> saved_ok B st ->
  safe (filter_member st l) /\
  (forall st' r, filter_member st l = Ok (st', r) ->
     (length r < length l)%nat /\ len (fl_out st') = len (fl_out st) /\ saved_ok B st').
Proof.
  intros HB Hs. unfold filter_member.
  assert (Hd : forall k, (length (drop k l) <= length l)%nat) by (intros; apply drop_len_nat).
  assert (Hsv : forall a b c d, saved_ok B (mkFl (fl_out st) a (fl_letters st) b c d (fl_start_tags st)) ->
                saved_ok B (mkFl (fl_out st) a (fl_letters st) b c d (fl_start_tags st))) by auto.
  repeat match goal with |- context [if starts_with ?k l then _ else _] => destruct (starts_with k l) eqn:? end.
  - (* ids *)
    destruct (has_bit _ _); [split; [auto with safe|discriminate]|].
    dres (eat_colon_ws (drop 4 l)) (eat_colon_ws_safe (drop 4 l)) r1 E1. apply eat_colon_ws_len in E1. specialize (Hd 4).
    dres (verify_char 91 r1) (verify_char_safe 91 r1) r2 E2. apply verify_char_len in E2.
    pose proof (skip_to_bracket_len r2).
    dres (verify_char 93 (skip_to_bracket r2)) (verify_char_safe 93 (skip_to_bracket r2)) r3 E3. apply verify_char_len in E3.
    split; [auto with safe|]. intros st' r [= <- <-]. cbn [fl_out]. split; [lia|split; [reflexivity|]].
    unfold saved_ok, saved in *. cbn [fl_start_ids fl_start_authors fl_start_kinds fl_start_tags].
    destruct (fl_start_ids st); cbn [app] in *; [inversion Hs; subst|]; constructor; auto; lia.
  - (* authors *)
    destruct (has_bit _ _); [split; [auto with safe|discriminate]|].
    dres (eat_colon_ws (drop 8 l)) (eat_colon_ws_safe (drop 8 l)) r1 E1. apply eat_colon_ws_len in E1. specialize (Hd 8).
    dres (verify_char 91 r1) (verify_char_safe 91 r1) r2 E2. apply verify_char_len in E2.
    pose proof (skip_to_bracket_len r2).
    dres (verify_char 93 (skip_to_bracket r2)) (verify_char_safe 93 (skip_to_bracket r2)) r3 E3. apply verify_char_len in E3.
    split; [auto with safe|]. intros st' r [= <- <-]. cbn [fl_out]. split; [lia|split; [reflexivity|]].
    unfold saved_ok, saved in *. cbn [fl_start_ids fl_start_authors fl_start_kinds fl_start_tags].
    apply Forall_app in Hs. destruct Hs as [H1 H2]. apply Forall_app. split; [exact H1|].
    destruct (fl_start_authors st); cbn [app] in *; [inversion H2; subst|]; constructor; auto; lia.
  - (* kinds *)
    destruct (has_bit _ _); [split; [auto with safe|discriminate]|].
    dres (eat_colon_ws (drop 6 l)) (eat_colon_ws_safe (drop 6 l)) r1 E1. apply eat_colon_ws_len in E1. specialize (Hd 6).
    dres (verify_char 91 r1) (verify_char_safe 91 r1) r2 E2. apply verify_char_len in E2.
    pose proof (skip_to_bracket_len r2).
    dres (verify_char 93 (skip_to_bracket r2)) (verify_char_safe 93 (skip_to_bracket r2)) r3 E3. apply verify_char_len in E3.
    split; [auto with safe|]. intros st' r [= <- <-]. cbn [fl_out]. split; [lia|split; [reflexivity|]].
    unfold saved_ok, saved in *. cbn [fl_start_ids fl_start_authors fl_start_kinds fl_start_tags].
    apply Forall_app in Hs. destruct Hs as [H1 H2]. apply Forall_app in H2. destruct H2 as [H2 H3].
    apply Forall_app. split; [exact H1|]. apply Forall_app. split; [exact H2|].
    destruct (fl_start_kinds st); cbn [app] in *; [inversion H3; subst|]; constructor; auto; lia.
  - (* since *)
    destruct (has_bit _ _); [split; [auto with safe|discriminate]|].
    dres (eat_colon_ws (drop 6 l)) (eat_colon_ws_safe (drop 6 l)) r1 E1. apply eat_colon_ws_len in E1. specialize (Hd 6).
    destruct (read_u64_props r1) as [Sf L].
    destruct (read_u64 r1) as [[u r2]| | |] eqn:Ek; cbn [bind]; [|split; [auto with safe|discriminate]|destruct Sf; congruence|destruct Sf; congruence].
    specialize (L _ _ eq_refl).
    dres (put (fl_out st) 16 (le64 u)) (put_safe (fl_out st) 16 (le64 u)) o1 E2. apply put_len in E2.
    split; [auto with safe|]. intros st' r [= <- <-]. cbn [with_out fl_out]. split; [lia|split; [exact E2|exact Hs]].
  - (* until *)
    destruct (has_bit _ _); [split; [auto with safe|discriminate]|].
    dres (eat_colon_ws (drop 6 l)) (eat_colon_ws_safe (drop 6 l)) r1 E1. apply eat_colon_ws_len in E1. specialize (Hd 6).
    destruct (read_u64_props r1) as [Sf L].
    destruct (read_u64 r1) as [[u r2]| | |] eqn:Ek; cbn [bind]; [|split; [auto with safe|discriminate]|destruct Sf; congruence|destruct Sf; congruence].
    specialize (L _ _ eq_refl).
    dres (put (fl_out st) 24 (le64 u)) (put_safe (fl_out st) 24 (le64 u)) o1 E2. apply put_len in E2.
    split; [auto with safe|]. intros st' r [= <- <-]. cbn [with_out fl_out]. split; [lia|split; [exact E2|exact Hs]].
  - (* limit *)
    destruct (has_bit _ _); [split; [auto with safe|discriminate]|].
    dres (eat_colon_ws (drop 6 l)) (eat_colon_ws_safe (drop 6 l)) r1 E1. apply eat_colon_ws_len in E1. specialize (Hd 6).
    destruct (read_u64_props r1) as [Sf L].
    destruct (read_u64 r1) as [[u r2]| | |] eqn:Ek; cbn [bind]; [|split; [auto with safe|discriminate]|destruct Sf; congruence|destruct Sf; congruence].
    specialize (L _ _ eq_refl).
    dres (put (fl_out st) 12 (le32 (N.min u 4294967295))) (put_safe (fl_out st) 12 (le32 (N.min u 4294967295))) o1 E2. apply put_len in E2.
    split; [auto with safe|]. intros st' r [= <- <-]. cbn [with_out fl_out]. split; [lia|split; [exact E2|exact Hs]].
  - (* tag field or unknown member *)
    assert (Hunk : safe (r2 <- burn_member l ;; Ok (st, r2)) /\
       (forall st' r, (r2 <- burn_member l ;; Ok (st, r2)) = Ok (st', r) ->
          (length r < length l)%nat /\ len (fl_out st') = len (fl_out st) /\ saved_ok B st')).
    { pose proof (burn_member_safe l) as Sf.
      destruct (burn_member l) as [r2| | |] eqn:Eb; cbn [bind]; [|split; [auto with safe|discriminate]|destruct Sf; congruence|destruct Sf; congruence].
      apply burn_member_len in Eb. split; [auto with safe|]. intros st' r [= <- <-]. split; [lia|split; [reflexivity|exact Hs]]. }
    destruct l as [|h [|letter [|q r]]]; try exact Hunk.
    destruct ((h =? 35) && is_letter letter && (q =? 34)); [|exact Hunk].
    destruct (existsb _ _); [split; [auto with safe|discriminate]|].
    dres (eat_colon_ws r) (eat_colon_ws_safe r) r1 E1. apply eat_colon_ws_len in E1.
    dres (verify_char 91 r1) (verify_char_safe 91 r1) r2 E2. apply verify_char_len in E2.
    cbn [length] in *.
    destruct (proj1 (proj2 (burn_all_props (burn_fuel (h :: letter :: q :: r)))) 0 r2 ltac:(unfold burn_fuel; cbn [length]; lia)) as [Sf L].
    dres (burn_array (burn_fuel (h :: letter :: q :: r)) 0 r2) Sf r3 E3.
    specialize (L r3 eq_refl).
    split; [auto with safe|]. intros st' r0 [= <- <-]. cbn [fl_out length]. split; [lia|split; [reflexivity|]].
    unfold saved_ok, saved in *. cbn [fl_start_ids fl_start_authors fl_start_kinds fl_start_tags].
    rewrite !app_assoc. apply Forall_app. split; [rewrite <- !app_assoc; exact Hs|].
    constructor; [cbn [length]; lia|constructor].
Qed.

Lemma filter_members_props B fuel : forall st l, (length l < fuel)%nat -> (length l <= B)%nat -> saved_ok B st ->
  safe (filter_members fuel st l) /\
  (forall st' r, filter_members fuel st l = Ok (st', r) ->
     (length r <= length l)%nat /\ len (fl_out st') = len (fl_out st) /\ saved_ok B st').
Proof.
  induction fuel as [|fuel IH]; intros st l Hf HB Hs; [lia|]. cbn [filter_members].
  pose proof (eat_ws_commas_len l) as Hw.
  destruct (eat_ws_commas l) as [|c l1] eqn:El; cbn [peek bind]; [split; [auto with safe|discriminate]|]. cbn [length] in Hw.
  destruct (c =? 125). { cbn [tl]. split; [auto with safe|]. intros st' r [= <- <-]. split; [lia|split; [reflexivity|exact Hs]]. }
  dres (verify_char 34 (c :: l1)) (verify_char_safe 34 (c :: l1)) r1 E1. apply verify_char_len in E1. cbn [length] in E1.
  destruct (filter_member_props B st r1 ltac:(lia) Hs) as [Sf L].
  destruct (filter_member st r1) as [[st1 r2]| | |] eqn:Em; cbn [bind]; [|split; [auto with safe|discriminate]|destruct Sf; congruence|destruct Sf; congruence].
  destruct (L _ _ eq_refl) as (L1 & L2 & L3).
  destruct (IH st1 r2 ltac:(lia) ltac:(lia) L3) as [S2 LL]. split; [exact S2|].
  intros st' r H. destruct (LL _ _ H) as (A & Bq & Cq). split; [lia|split; [congruence|exact Cq]].
Qed.

Lemma copy_hex32_props fuel : forall l out endp num, (length l < fuel)%nat ->
  safe (copy_hex32 fuel l out endp num) /\
  (forall out' e n, copy_hex32 fuel l out endp num = Ok (out', e, n) -> len out' = len out).
Proof.
  induction fuel as [|fuel IH]; intros l out endp num Hf; [lia|]. cbn [copy_hex32].
  pose proof (eat_ws_commas_len l) as Hw.
  destruct (eat_ws_commas l) as [|c l1] eqn:El; cbn [peek bind]; [split; [auto with safe|discriminate]|]. cbn [length] in Hw.
  destruct (c =? 93). { split; [auto with safe|]. intros out' e n [= <- _ _]. reflexivity. }
  destruct (len out - endp <? 32); [split; [auto with safe|discriminate]|].
  destruct (read_hex_quoted_props 32 (c :: l1)) as [Sf L].
  destruct (read_hex_quoted 32 (c :: l1)) as [[bs r]| | |] eqn:Eh; cbn [bind]; [|split; [auto with safe|discriminate]|destruct Sf; congruence|destruct Sf; congruence].
  destruct (L _ _ eq_refl) as [L1 _]. cbn [length] in L1.
  dres (put out endp bs) (put_safe out endp bs) o1 E1. apply put_len in E1.
  destruct (65535 <=? num); [split; [auto with safe|discriminate]|].
  destruct (IH r o1 (endp + 32) (num + 1) ltac:(lia)) as [S2 LL]. split; [exact S2|].
  intros out' e n H. rewrite (LL _ _ _ H). exact E1.
Qed.
Lemma copy_kinds_props fuel : forall l out endp num, (length l < fuel)%nat ->
  safe (copy_kinds fuel l out endp num) /\
  (forall out' e n, copy_kinds fuel l out endp num = Ok (out', e, n) -> len out' = len out).
Proof.
  induction fuel as [|fuel IH]; intros l out endp num Hf; [lia|]. cbn [copy_kinds].
  pose proof (eat_ws_commas_len l) as Hw.
  destruct (eat_ws_commas l) as [|c l1] eqn:El; cbn [peek bind]; [split; [auto with safe|discriminate]|]. cbn [length] in Hw.
  destruct (c =? 93). { split; [auto with safe|]. intros out' e n [= <- _ _]. reflexivity. }
  destruct (read_u64_props (c :: l1)) as [Sf L].
  destruct (read_u64 (c :: l1)) as [[u r]| | |] eqn:Eh; cbn [bind]; [|split; [auto with safe|discriminate]|destruct Sf; congruence|destruct Sf; congruence].
  specialize (L _ _ eq_refl). cbn [length] in L.
  destruct (65535 <? u); [split; [auto with safe|discriminate]|].
  dres (put out endp (le16 u)) (put_safe out endp (le16 u)) o1 E1. apply put_len in E1.
  destruct (65535 <=? num); [split; [auto with safe|discriminate]|].
  destruct (IH r o1 (endp + 2) (num + 1) ltac:(lia)) as [S2 LL]. split; [exact S2|].
  intros out' e n H. rewrite (LL _ _ _ H). exact E1.
Qed.
Lemma copy_tag_values_props fuel : forall l out endp count, (length l < fuel)%nat ->
  safe (copy_tag_values fuel l out endp count) /\
  (forall out' e n, copy_tag_values fuel l out endp count = Ok (out', e, n) -> len out' = len out).
Proof.
  induction fuel as [|fuel IH]; intros l out endp count Hf; [lia|]. cbn [copy_tag_values].
  pose proof (eat_ws_commas_len l) as Hw.
  destruct (eat_ws_commas l) as [|c l1] eqn:El; cbn [peek bind]; [split; [auto with safe|discriminate]|]. cbn [length] in Hw.
  destruct (c =? 93). { split; [auto with safe|]. intros out' e n [= <- _ _]. reflexivity. }
  dres (verify_char 34 (c :: l1)) (verify_char_safe 34 (c :: l1)) r1 E1. apply verify_char_len in E1. cbn [length] in E1.
  destruct (len out <? endp + 2); [split; [auto with safe|discriminate]|].
  destruct (json_unescape r1 (len out - (endp + 2))) as [[inlen s]| | |] eqn:Eu; cbn [bind].
  2: split; [auto with safe|discriminate].
  2-3: exfalso; pose proof (unescape_safe r1 (len out - (endp + 2))) as [? ?]; congruence.
  dres (put out (endp + 2) s) (put_safe out (endp + 2) s) o1 E2. apply put_len in E2.
  dres (put o1 endp (le16 (len s))) (put_safe o1 endp (le16 (len s))) o2 E3. apply put_len in E3.
  dres (verify_char 34 (drop inlen r1)) (verify_char_safe 34 (drop inlen r1)) r2 E4. apply verify_char_len in E4.
  pose proof (drop_len_nat inlen r1) as Hdl.
  destruct (IH r2 o2 (endp + 2 + len s) (count + 1) ltac:(lia)) as [S2 LL]. split; [exact S2|].
  intros out' e n Hx. rewrite (LL _ _ _ Hx). congruence.
Qed.

Lemma copy_tag_fields_props starts : forall w out wts endp,
  safe (copy_tag_fields starts w out wts endp) /\
  (forall out' e, copy_tag_fields starts w out wts endp = Ok (out', e) -> len out' = len out).
Proof.
  induction starts as [|s rest IH]; intros w out wts endp; cbn [copy_tag_fields].
  - split; [auto with safe|]. intros out' e [= <- _]. reflexivity.
  - dres (put out (wts + 4 + 2 * w) (le16 (endp - wts))) (put_safe out (wts + 4 + 2 * w) (le16 (endp - wts))) o1 E1. apply put_len in E1.
    destruct s as [|letter s']; cbn [peek bind]; [split; [auto with safe|discriminate]|].
    dres (put o1 (endp + 2) (le16 1)) (put_safe o1 (endp + 2) (le16 1)) o2 E2. apply put_len in E2.
    destruct (N.ltb_spec (len o2) (endp + 2 + 3)) as [|Hl]; [split; [auto with safe|discriminate]|].
    dres (put_raw o2 (endp + 2 + 2) [letter]) (put_raw_safe o2 (endp + 2 + 2) [letter] ltac:(unfold len at 1; cbn [length]; lia)) o3 E3.
    apply put_raw_len in E3. cbn [tl].
    dres (verify_char 34 s') (verify_char_safe 34 s') r1 E4.
    dres (eat_colon_ws r1) (eat_colon_ws_safe r1) r2 E5.
    dres (verify_char 91 r2) (verify_char_safe 91 r2) r3 E6.
    apply verify_char_len in E4. apply eat_colon_ws_len in E5. apply verify_char_len in E6.
    destruct (copy_tag_values_props (S (length (letter :: s'))) r3 o3 (endp + 2 + 3) 1 ltac:(cbn [length]; lia)) as [Sf L].
    destruct (copy_tag_values (S (length (letter :: s'))) r3 o3 (endp + 2 + 3) 1) as [[[o4 e4] cnt]| | |] eqn:Ev; cbn [bind];
      [|split; [auto with safe|discriminate]|destruct Sf; congruence|destruct Sf; congruence].
    specialize (L _ _ _ eq_refl).
    dres (put o4 endp (le16 cnt)) (put_safe o4 endp (le16 cnt)) o5 E7. apply put_len in E7.
    destruct (IH (w + 1) o5 wts e4) as [S2 LL]. split; [exact S2|].
    intros out' e H. rewrite (LL _ _ H). congruence.
Qed.

(* C03 for Filter::from_json *)
Theorem parse_json_filter_total input out :
  safe (parse_json_filter input out) /\
  (forall n flen out', parse_json_filter input out = Ok (n, flen, out') -> n <= len input /\ len out' = len out).
Proof.
  unfold parse_json_filter.
  destruct (len input <? 2); [split; [auto with safe|discriminate]|].
  dres (put out 0 filter_header) (put_safe out 0 filter_header) o0 E0. apply put_len in E0.
  pose proof (eat_ws_len input) as Hw.
  dres (verify_char 123 (eat_ws input)) (verify_char_safe 123 (eat_ws input)) r1 E1. apply verify_char_len in E1.
  destruct (filter_members_props (length input) (S (length input)) (mkFl o0 0 [] None None None []) r1 ltac:(lia) ltac:(lia) ltac:(constructor)) as [Sf L].
  destruct (filter_members (S (length input)) (mkFl o0 0 [] None None None []) r1) as [[st rfin]| | |] eqn:Em; cbn [bind];
    [|split; [auto with safe|discriminate]|destruct Sf; congruence|destruct Sf; congruence].
  destruct (L _ _ eq_refl) as (L1 & L2 & L3). cbn [fl_out] in L2.
  unfold saved_ok, saved in L3.
  apply Forall_app in L3. destruct L3 as [Hi L3]. apply Forall_app in L3. destruct L3 as [Ha L3]. apply Forall_app in L3. destruct L3 as [Hk Ht].
  (* ids *)
  assert (P1 : safe ((match fl_start_ids st with
                   | Some s => '(o, e, n) <- copy_hex32 (S (length input)) s (fl_out st) 32 0 ;; o' <- put o 4 (le16 n) ;; Ok (o', e, n)
                   | None => Ok (fl_out st, 32, 0) end)) /\
               forall o e n, (match fl_start_ids st with
                   | Some s => '(o, e, n) <- copy_hex32 (S (length input)) s (fl_out st) 32 0 ;; o' <- put o 4 (le16 n) ;; Ok (o', e, n)
                   | None => Ok (fl_out st, 32, 0) end) = Ok (o, e, n) -> len o = len (fl_out st)).
  { destruct (fl_start_ids st) as [s|]; [|split; [auto with safe|intros o e n [= <- _ _]; reflexivity]].
    inversion Hi as [|? ? Hlen _]; subst.
    destruct (copy_hex32_props (S (length input)) s (fl_out st) 32 0 ltac:(lia)) as [Sc Lc].
    destruct (copy_hex32 (S (length input)) s (fl_out st) 32 0) as [[[o e] n]| | |] eqn:Ec; cbn [bind];
      [|split; [auto with safe|discriminate]|destruct Sc; congruence|destruct Sc; congruence].
    specialize (Lc _ _ _ eq_refl).
    dres (put o 4 (le16 n)) (put_safe o 4 (le16 n)) o' Ep. apply put_len in Ep.
    split; [auto with safe|]. intros o2 e2 n2 [= <- _ _]. congruence. }
  destruct P1 as [S1 Q1].
  match goal with |- context [bind ?X _] => destruct X as [[[o1 e1] n1]| | |] eqn:X1 end; cbn [bind];
    [|split; [auto with safe|discriminate]|destruct S1; congruence|destruct S1; congruence].
  specialize (Q1 _ _ _ eq_refl).
  (* authors *)
  assert (P2 : safe ((match fl_start_authors st with
                   | Some s => '(o, e, n) <- copy_hex32 (S (length input)) s o1 e1 0 ;; o' <- put o 6 (le16 n) ;; Ok (o', e, n)
                   | None => Ok (o1, e1, 0) end)) /\
               forall o e n, (match fl_start_authors st with
                   | Some s => '(o, e, n) <- copy_hex32 (S (length input)) s o1 e1 0 ;; o' <- put o 6 (le16 n) ;; Ok (o', e, n)
                   | None => Ok (o1, e1, 0) end) = Ok (o, e, n) -> len o = len o1).
  { destruct (fl_start_authors st) as [s|]; [|split; [auto with safe|intros o e n [= <- _ _]; reflexivity]].
    inversion Ha as [|? ? Hlen _]; subst.
    destruct (copy_hex32_props (S (length input)) s o1 e1 0 ltac:(lia)) as [Sc Lc].
    destruct (copy_hex32 (S (length input)) s o1 e1 0) as [[[o e] n]| | |] eqn:Ec; cbn [bind];
      [|split; [auto with safe|discriminate]|destruct Sc; congruence|destruct Sc; congruence].
    specialize (Lc _ _ _ eq_refl).
    dres (put o 6 (le16 n)) (put_safe o 6 (le16 n)) o' Ep. apply put_len in Ep.
    split; [auto with safe|]. intros o2' e2' n2' [= <- _ _]. congruence. }
  destruct P2 as [S2 Q2].
  match goal with |- context [bind ?X _] => destruct X as [[[o2 e2] n2]| | |] eqn:X2 end; cbn [bind];
    [|split; [auto with safe|discriminate]|destruct S2; congruence|destruct S2; congruence].
  specialize (Q2 _ _ _ eq_refl).
  (* kinds *)
  assert (P3 : safe ((match fl_start_kinds st with
                   | Some s => '(o, e, n) <- copy_kinds (S (length input)) s o2 e2 0 ;; o' <- put o 8 (le16 n) ;; Ok (o', e, n)
                   | None => Ok (o2, e2, 0) end)) /\
               forall o e n, (match fl_start_kinds st with
                   | Some s => '(o, e, n) <- copy_kinds (S (length input)) s o2 e2 0 ;; o' <- put o 8 (le16 n) ;; Ok (o', e, n)
                   | None => Ok (o2, e2, 0) end) = Ok (o, e, n) -> len o = len o2).
  { destruct (fl_start_kinds st) as [s|]; [|split; [auto with safe|intros o e n [= <- _ _]; reflexivity]].
    inversion Hk as [|? ? Hlen _]; subst.
    destruct (copy_kinds_props (S (length input)) s o2 e2 0 ltac:(lia)) as [Sc Lc].
    destruct (copy_kinds (S (length input)) s o2 e2 0) as [[[o e] n]| | |] eqn:Ec; cbn [bind];
      [|split; [auto with safe|discriminate]|destruct Sc; congruence|destruct Sc; congruence].
    specialize (Lc _ _ _ eq_refl).
    dres (put o 8 (le16 n)) (put_safe o 8 (le16 n)) o' Ep. apply put_len in Ep.
    split; [auto with safe|]. intros o3' e3' n3' [= <- _ _]. congruence. }
  destruct P3 as [S3 Q3].
  match goal with |- context [bind ?X _] => destruct X as [[[o3 e3] n3]| | |] eqn:X3 end; cbn [bind];
    [|split; [auto with safe|discriminate]|destruct S3; congruence|destruct S3; congruence].
  specialize (Q3 _ _ _ eq_refl).
  cbv zeta.
  dres (put o3 (e3 + 2) (le16 (len (fl_start_tags st)))) (put_safe o3 (e3 + 2) (le16 (len (fl_start_tags st)))) o4 E4. apply put_len in E4.
  destruct (copy_tag_fields_props (fl_start_tags st) 0 o4 e3 (e3 + 4 + 2 * len (fl_start_tags st))) as [St Lt].
  destruct (copy_tag_fields (fl_start_tags st) 0 o4 e3 (e3 + 4 + 2 * len (fl_start_tags st))) as [[o5 e5]| | |] eqn:Et; cbn [bind];
    [|split; [auto with safe|discriminate]|destruct St; congruence|destruct St; congruence].
  specialize (Lt _ _ eq_refl).
  destruct (65535 <? e5 - e3); [split; [auto with safe|discriminate]|].
  dres (put o5 e3 (le16 (e5 - e3))) (put_safe o5 e3 (le16 (e5 - e3))) o6 E6. apply put_len in E6.
  destruct (4294967295 <? e5); [split; [auto with safe|discriminate]|].
  dres (put o6 0 (le32 e5)) (put_safe o6 0 (le32 e5)) o7 E7. apply put_len in E7.
  split; [auto with safe|]. intros n fl out' [= <- _ <-]. split; [unfold len; lia|congruence].
Qed.
