(* ParseTotal.v — C03 for the JSON parser models: on ARBITRARY input bytes and ARBITRARY output
   buffers, parse_json_event / parse_json_filter / read_tags_array never panic and never run out
   of fuel (termination: every loop iteration consumes input), and consume no more than the input. *)
From Pocket Require Import JsonParse EscapeProofs HexProofs.

Definition safe {A} (r : res A) : Prop := r <> Panic /\ r <> OutOfFuel.

Lemma safe_ok {A} (a : A) : safe (Ok a). Proof. split; discriminate. Qed.
Lemma safe_err {A} e : safe (@Err A e). Proof. split; discriminate. Qed.
#[global] Hint Resolve safe_ok safe_err : safe.

Lemma safe_bind {A B} (r : res A) (f : A -> res B) :
  safe r -> (forall a, r = Ok a -> safe (f a)) -> safe (bind r f).
Proof.
  intros [H1 H2] Hf. destruct r; cbn [bind]; auto with safe; congruence.
Qed.

Ltac sbind := apply safe_bind; [|intros ? ?].

(* ---------- lengths ---------- *)
Lemma eat_ws_len l : (length (eat_ws l) <= length l)%nat.
Proof. induction l as [|c r IH]; cbn [eat_ws length]; auto. destruct (is_ws c); cbn [length]; lia. Qed.
Lemma eat_ws_commas_len l : (length (eat_ws_commas l) <= length l)%nat.
Proof. induction l as [|c r IH]; cbn [eat_ws_commas length]; auto. destruct (is_ws c || (c =? 44)); cbn [length]; lia. Qed.
Lemma verify_char_len ch l r : verify_char ch l = Ok r -> (length r < length l)%nat.
Proof. destruct l as [|c l']; cbn [verify_char]; [discriminate|]. destruct (c =? ch); [|discriminate]. intros [= <-]. cbn [length]. lia. Qed.
Lemma verify_char_safe ch l : safe (verify_char ch l).
Proof. destruct l as [|c l']; cbn [verify_char]; auto with safe. destruct (c =? ch); auto with safe. Qed.
Lemma peek_safe l : safe (peek l). Proof. destruct l; cbn; auto with safe. Qed.
Lemma eat_colon_ws_safe l : safe (eat_colon_ws l).
Proof. unfold eat_colon_ws. sbind; [apply verify_char_safe|auto with safe]. Qed.
Lemma eat_colon_ws_len l r : eat_colon_ws l = Ok r -> (length r < length l)%nat.
Proof.
  unfold eat_colon_ws. destruct (verify_char 58 (eat_ws l)) as [r1| | |] eqn:E; cbn [bind]; try discriminate.
  intros [= <-]. apply verify_char_len in E. pose proof (eat_ws_len l). pose proof (eat_ws_len r1). lia.
Qed.
Lemma tl_len {A} (l : list A) : (length (tl l) <= length l)%nat.
Proof. destruct l; cbn [tl length]; lia. Qed.
Lemma drop_len_nat {A} n (l : list A) : (length (drop n l) <= length l)%nat.
Proof. unfold drop. rewrite skipn_length. lia. Qed.

Lemma burn_string_props n : forall l, (length l <= n)%nat ->
  safe (burn_string l) /\ (forall r, burn_string l = Ok r -> (length r < length l)%nat).
Proof.
  induction n as [|n IH]; intros l Hl.
  - destruct l; [|cbn [length] in Hl; lia]. cbn [burn_string]. split; [auto with safe|discriminate].
  - destruct l as [|c r]; cbn [burn_string]; [split; [auto with safe|discriminate]|].
    cbn [length] in Hl.
    destruct (c =? 34). { split; [auto with safe|]. intros r0 [= <-]. cbn [length]. lia. }
    destruct (c =? 92).
    + destruct r as [|d r2]; [split; [auto with safe|discriminate]|].
      cbn [length] in Hl. destruct (IH r2 ltac:(lia)) as [Sf L]. split; [exact Sf|].
      intros r0 H. specialize (L r0 H). cbn [length]. lia.
    + destruct (IH r ltac:(lia)) as [Sf L]. split; [exact Sf|].
      intros r0 H. specialize (L r0 H). cbn [length]. lia.
Qed.
Lemma burn_string_safe l : safe (burn_string l).
Proof. apply (burn_string_props (length l) l). lia. Qed.
Lemma burn_string_len l r : burn_string l = Ok r -> (length r < length l)%nat.
Proof. apply (burn_string_props (length l) l). lia. Qed.

Lemma burn_number_len l : (length (burn_number l) <= length l)%nat.
Proof. induction l as [|c r IH]; cbn [burn_number length]; auto. destruct (is_number_char c); cbn [length]; lia. Qed.
Lemma burn_lit_safe lit l : safe (burn_lit lit l).
Proof. unfold burn_lit. destruct (starts_with lit l); auto with safe. Qed.
Lemma burn_lit_len lit l r : lit <> [] -> burn_lit lit l = Ok r -> (length r < length l)%nat.
Proof.
  unfold burn_lit. destruct (starts_with lit l) eqn:E; [|discriminate]. intros Hne [= <-].
  destruct lit as [|x lit']; [congruence|]. destruct l as [|y l']; [discriminate|].
  unfold drop, len. rewrite skipn_length, Nat2N.id. cbn [length]. lia.
Qed.

(* ---------- burn_value / burn_array / burn_object ---------- *)
Lemma burn_all_props fuel :
  (forall depth l, (2 * length l + 1 <= fuel)%nat ->
     safe (burn_value fuel depth l) /\ (forall r, burn_value fuel depth l = Ok r -> (length r < length l)%nat)) /\
  (forall depth l, (2 * length l + 2 <= fuel)%nat ->
     safe (burn_array fuel depth l) /\ (forall r, burn_array fuel depth l = Ok r -> (length r < length l)%nat)) /\
  (forall depth l, (2 * length l + 2 <= fuel)%nat ->
     safe (burn_object fuel depth l) /\ (forall r, burn_object fuel depth l = Ok r -> (length r < length l)%nat)).
Proof.
  induction fuel as [|fuel (IHv & IHa & IHo)].
  { repeat split; intros; lia. }
  split; [|split].
  - (* value *)
    intros depth l Hf. cbn [burn_value].
    destruct (MAX_BURN_DEPTH <? depth); [split; [auto with safe|discriminate]|].
    destruct l as [|c r]; [split; [auto with safe|discriminate]|]. cbn [length] in Hf.
    destruct (c =? 34).
    { split; [apply burn_string_safe|]. intros r0 H. apply burn_string_len in H. cbn [length]. lia. }
    destruct (c =? 91).
    { destruct (IHa (depth + 1) r ltac:(lia)) as [Sf L]. split; [exact Sf|]. intros r0 H. specialize (L r0 H). cbn [length]. lia. }
    destruct (c =? 123).
    { destruct (IHo (depth + 1) r ltac:(lia)) as [Sf L]. split; [exact Sf|]. intros r0 H. specialize (L r0 H). cbn [length]. lia. }
    destruct (c =? 116). { split; [apply burn_lit_safe|]. intros r0 H. apply burn_lit_len in H; [exact H|discriminate]. }
    destruct (c =? 102). { split; [apply burn_lit_safe|]. intros r0 H. apply burn_lit_len in H; [exact H|discriminate]. }
    destruct (c =? 110). { split; [apply burn_lit_safe|]. intros r0 H. apply burn_lit_len in H; [exact H|discriminate]. }
    destruct ((c =? 45) || is_digit c) eqn:Ed; [|split; [auto with safe|discriminate]].
    split; [auto with safe|]. intros r0 [= <-]. cbn [burn_number]. 
    assert (is_number_char c = true) as ->.
    { unfold is_number_char. apply orb_true_iff in Ed. destruct Ed as [Ed|Ed]; rewrite Ed; rewrite ?orb_true_r; reflexivity. }
    pose proof (burn_number_len r). cbn [length]. lia.
  - (* array *)
    intros depth l Hf. cbn [burn_array]. pose proof (eat_ws_commas_len l) as Hw.
    destruct (eat_ws_commas l) as [|c r] eqn:El; [split; [auto with safe|discriminate]|]. cbn [length] in Hw.
    destruct (c =? 93). { split; [auto with safe|]. intros r0 [= <-]. lia. }
    destruct (IHv depth (c :: r) ltac:(cbn [length]; lia)) as [Sf L].
    destruct (burn_value fuel depth (c :: r)) as [r2| | |] eqn:Ev; cbn [bind].
    + specialize (L r2 eq_refl). cbn [length] in L.
      destruct (IHa depth r2 ltac:(lia)) as [Sf2 L2]. split; [exact Sf2|]. intros r0 H. specialize (L2 r0 H). lia.
    + split; [auto with safe|discriminate].
    + destruct Sf; congruence.
    + destruct Sf; congruence.
  - (* object *)
    intros depth l Hf. cbn [burn_object]. pose proof (eat_ws_commas_len l) as Hw.
    destruct (eat_ws_commas l) as [|c r] eqn:El; [split; [auto with safe|discriminate]|]. cbn [length] in Hw.
    destruct (c =? 125). { split; [auto with safe|]. intros r0 [= <-]. lia. }
    destruct (verify_char 34 (c :: r)) as [r1| | |] eqn:E1; cbn [bind]; try (split; [auto with safe|discriminate]).
    2-3: pose proof (verify_char_safe 34 (c :: r)) as [X Y]; congruence.
    apply verify_char_len in E1. cbn [length] in E1.
    destruct (burn_string r1) as [r2| | |] eqn:E2; cbn [bind]; try (split; [auto with safe|discriminate]).
    2-3: pose proof (burn_string_safe r1) as [X Y]; congruence.
    apply burn_string_len in E2.
    destruct (eat_colon_ws r2) as [r3| | |] eqn:E3; cbn [bind]; try (split; [auto with safe|discriminate]).
    2-3: pose proof (eat_colon_ws_safe r2) as [X Y]; congruence.
    apply eat_colon_ws_len in E3.
    destruct (IHv depth r3 ltac:(lia)) as [Sf L].
    destruct (burn_value fuel depth r3) as [r4| | |] eqn:Ev; cbn [bind].
    + specialize (L r4 eq_refl).
      destruct (IHo depth r4 ltac:(lia)) as [Sf2 L2]. split; [exact Sf2|]. intros r0 H. specialize (L2 r0 H). lia.
    + split; [auto with safe|discriminate].
    + destruct Sf; congruence.
    + destruct Sf; congruence.
Qed.

Lemma burn_member_safe l : safe (burn_member l).
Proof.
  unfold burn_member. sbind; [apply burn_string_safe|]. sbind; [apply eat_colon_ws_safe|].
  apply burn_string_len in H. apply eat_colon_ws_len in H0.
  apply (proj1 (burn_all_props (burn_fuel l))). unfold burn_fuel. lia.
Qed.
Lemma burn_member_len l r : burn_member l = Ok r -> (length r < length l)%nat.
Proof.
  unfold burn_member. destruct (burn_string l) as [r1| | |] eqn:E1; cbn [bind]; try discriminate.
  destruct (eat_colon_ws r1) as [r2| | |] eqn:E2; cbn [bind]; try discriminate.
  apply burn_string_len in E1. apply eat_colon_ws_len in E2. intros H.
  apply (proj1 (burn_all_props (burn_fuel l))) in H; [lia|unfold burn_fuel; lia].
Qed.

(* ---------- output buffer writes ---------- *)
Lemma put_safe out off data : safe (put out off data).
Proof. unfold put. destruct (len out <? off + len data); auto with safe. Qed.
Lemma put_len out off data out' : put out off data = Ok out' -> len out' = len out.
Proof.
  unfold put. destruct (N.ltb_spec (len out) (off + len data)); [discriminate|]. intros [= <-].
  rewrite !len_app, len_take, len_drop. lia.
Qed.
Lemma put_raw_len out off data out' : put_raw out off data = Ok out' -> len out' = len out.
Proof.
  unfold put_raw. destruct (N.ltb_spec (len out) (off + len data)); [discriminate|]. intros [= <-].
  rewrite !len_app, len_take, len_drop. lia.
Qed.
Lemma put_raw_safe out off data : off + len data <= len out -> safe (put_raw out off data).
Proof. intros H. unfold put_raw. destruct (N.ltb_spec (len out) (off + len data)); [lia|auto with safe]. Qed.

(* a tactic: case on a result whose safety is known; [x] names the Ok value, [E] the equation *)
Ltac dres T S x E :=
  destruct T as [x| | |] eqn:E; cbn [bind];
  [ | first [ solve [auto with safe] | split; [solve [auto with safe]|discriminate] ]
    | exfalso; pose proof S as [? ?]; congruence
    | exfalso; pose proof S as [? ?]; congruence ].

(* ---------- tags ---------- *)
Lemma burn_tag_strings_props fuel : forall l, (length l < fuel)%nat ->
  safe (burn_tag_strings fuel l) /\ (forall r, burn_tag_strings fuel l = Ok r -> (length r < length l)%nat).
Proof.
  induction fuel as [|fuel IH]; intros l Hf; [lia|]. cbn [burn_tag_strings].
  destruct l as [|c l']; cbn [peek bind]; [split; [auto with safe|discriminate]|].
  destruct (c =? 44).
  - cbn [tl]. pose proof (eat_ws_len l') as Hw.
    dres (verify_char 34 (eat_ws l')) (verify_char_safe 34 (eat_ws l')) r1 E1.
    apply verify_char_len in E1.
    dres (burn_string r1) (burn_string_safe r1) r2 E2.
    apply burn_string_len in E2. pose proof (eat_ws_len r2) as Hw2. cbn [length] in Hf.
    destruct (IH (eat_ws r2) ltac:(lia)) as [Sf L]. split; [exact Sf|].
    intros r H. specialize (L r H). cbn [length]. lia.
  - split; [apply verify_char_safe|]. intros r H. apply verify_char_len in H. exact H.
Qed.
Lemma burn_tag_props l :
  safe (burn_tag l) /\ (forall r, burn_tag l = Ok r -> (length r < length l)%nat).
Proof.
  unfold burn_tag. pose proof (eat_ws_len l) as Hw.
  destruct (eat_ws l) as [|c l1] eqn:El; cbn [peek bind]; [split; [auto with safe|discriminate]|].
  cbn [length] in Hw.
  destruct (c =? 93). { cbn [tl]. split; [auto with safe|]. intros r [= <-]. lia. }
  dres (verify_char 34 (c :: l1)) (verify_char_safe 34 (c :: l1)) r1 E1.
  apply verify_char_len in E1. cbn [length] in E1.
  dres (burn_string r1) (burn_string_safe r1) r2 E2.
  apply burn_string_len in E2. pose proof (eat_ws_len r2) as Hw2.
  destruct (burn_tag_strings_props (S (length l)) (eat_ws r2) ltac:(lia)) as [Sf L]. split; [exact Sf|].
  intros r H. specialize (L r H). lia.
Qed.
Lemma count_tags_loop_safe fuel : forall l count, (length l < fuel)%nat -> safe (count_tags_loop fuel l count).
Proof.
  induction fuel as [|fuel IH]; intros l count Hf; [lia|]. cbn [count_tags_loop].
  destruct l as [|c l']; cbn [peek bind]; [auto with safe|].
  destruct (c =? 93); [auto with safe|]. destruct (c =? 44); [|auto with safe].
  cbn [tl]. pose proof (eat_ws_len l') as Hw.
  dres (verify_char 91 (eat_ws l')) (verify_char_safe 91 (eat_ws l')) r1 E1.
  apply verify_char_len in E1.
  destruct (burn_tag_props r1) as [Sf L].
  dres (burn_tag r1) Sf r2 E2.
  specialize (L r2 eq_refl). pose proof (eat_ws_len r2). cbn [length] in Hf. apply IH. lia.
Qed.
Lemma count_tags_safe l : safe (count_tags l).
Proof.
  unfold count_tags. destruct l as [|c l']; cbn [peek bind]; [auto with safe|].
  destruct (c =? 93); [auto with safe|]. destruct (c =? 91); [|auto with safe].
  cbn [tl]. destruct (burn_tag_props l') as [Sf L].
  dres (burn_tag l') Sf r1 E1.
  specialize (L r1 eq_refl). pose proof (eat_ws_len r1). apply count_tags_loop_safe. cbn [length]. lia.
Qed.

Lemma unescape_safe l cap : safe (json_unescape l cap). Proof. apply json_unescape_total. Qed.

Lemma read_tag_strings_props fuel : forall l out outpos num, (length l < fuel)%nat ->
  safe (read_tag_strings fuel l out outpos num) /\
  (forall r out' op' n', read_tag_strings fuel l out outpos num = Ok (r, out', op', n') ->
     (length r < length l)%nat /\ len out' = len out).
Proof.
  induction fuel as [|fuel IH]; intros l out outpos num Hf; [lia|]. cbn [read_tag_strings].
  destruct (len out <? outpos + 2); [split; [auto with safe|discriminate]|].
  destruct (json_unescape l (len out - (outpos + 2))) as [[inlen s]| | |] eqn:Eu; cbn [bind].
  2: split; [auto with safe|discriminate].
  2-3: exfalso; pose proof (unescape_safe l (len out - (outpos + 2))) as [? ?]; congruence.
  apply json_unescape_consumed in Eu.
  dres (put out (outpos + 2) s) (put_safe out (outpos + 2) s) o1 E1.
  apply put_len in E1.
  dres (put o1 outpos (le16 (len s))) (put_safe o1 outpos (le16 (len s))) o2 E2.
  apply put_len in E2.
  dres (verify_char 34 (drop inlen l)) (verify_char_safe 34 (drop inlen l)) r1 E3.
  apply verify_char_len in E3. pose proof (drop_len_nat inlen l) as Hd. pose proof (eat_ws_len r1) as Hw.
  destruct (eat_ws r1) as [|c r2] eqn:Ew; cbn [peek bind]; [split; [auto with safe|discriminate]|].
  cbn [length] in Hw.
  destruct (c =? 44).
  - cbn [tl]. pose proof (eat_ws_len r2) as Hw2.
    dres (verify_char 34 (eat_ws r2)) (verify_char_safe 34 (eat_ws r2)) r3 E4.
    apply verify_char_len in E4.
    destruct (IH r3 o2 (outpos + 2 + len s) (num + 1) ltac:(lia)) as [Sf L]. split; [exact Sf|].
    intros r out' op' n' H. destruct (L _ _ _ _ H) as [L1 L2]. split; [lia|congruence].
  - destruct (c =? 93); [|split; [auto with safe|discriminate]].
    cbn [tl]. split; [auto with safe|]. intros r out' op' n' [= <- <- _ _]. split; [lia|congruence].
Qed.

Lemma read_tag_props l out outpos :
  safe (read_tag l out outpos) /\
  (forall r out' op', read_tag l out outpos = Ok (r, out', op') -> (length r < length l)%nat /\ len out' = len out).
Proof.
  unfold read_tag. destruct l as [|c l']; cbn [peek bind]; [split; [auto with safe|discriminate]|].
  destruct (c =? 93).
  - dres (put out outpos (le16 0)) (put_safe out outpos (le16 0)) o1 E1.
    apply put_len in E1. cbn [tl]. split; [auto with safe|]. intros r out' op' [= <- <- _]. cbn [length]. split; [lia|exact E1].
  - dres (verify_char 34 (c :: l')) (verify_char_safe 34 (c :: l')) r1 E1.
    apply verify_char_len in E1.
    destruct (read_tag_strings_props (S (length (c :: l'))) r1 out (outpos + 2) 1 ltac:(lia)) as [Sf L].
    destruct (read_tag_strings (S (length (c :: l'))) r1 out (outpos + 2) 1) as [[[[r2 out1] op1] num]| | |] eqn:Er; cbn [bind].
    2: split; [auto with safe|discriminate].
    2-3: destruct Sf; congruence.
    destruct (L _ _ _ _ eq_refl) as [L1 L2].
    dres (put out1 outpos (le16 num)) (put_safe out1 outpos (le16 num)) o2 E2.
    apply put_len in E2. split; [auto with safe|]. intros r out' op' [= <- <- _]. split; [lia|congruence].
Qed.

Lemma read_tags_loop_props fuel : forall l out outpos tag_num num_tags, (length l < fuel)%nat ->
  safe (read_tags_loop fuel l out outpos tag_num num_tags) /\
  (forall r out' op', read_tags_loop fuel l out outpos tag_num num_tags = Ok (r, out', op') ->
     (length r <= length l)%nat /\ len out' = len out).
Proof.
  induction fuel as [|fuel IH]; intros l out outpos tag_num num_tags Hf; [lia|]. cbn [read_tags_loop].
  dres (put out (4 + tag_num * 2) (le16 outpos)) (put_safe out (4 + tag_num * 2) (le16 outpos)) o1 E1.
  apply put_len in E1.
  destruct (read_tag_props l o1 outpos) as [Sf L].
  destruct (read_tag l o1 outpos) as [[[r out2] op2]| | |] eqn:Er; cbn [bind].
  2: split; [auto with safe|discriminate].
  2-3: destruct Sf; congruence.
  destruct (L _ _ _ eq_refl) as [L1 L2]. pose proof (eat_ws_len r) as Hw.
  destruct (eat_ws r) as [|c r1] eqn:Ew; cbn [peek bind]; [split; [auto with safe|discriminate]|].
  cbn [length] in Hw.
  destruct (c =? 93).
  - destruct (negb (tag_num =? num_tags - 1)); [split; [auto with safe|discriminate]|].
    cbn [tl]. split; [auto with safe|]. intros r0 out' op' [= <- <- _]. split; [lia|congruence].
  - destruct (c =? 44); [|split; [auto with safe|discriminate]].
    cbn [tl]. pose proof (eat_ws_len r1) as Hw2.
    dres (verify_char 91 (eat_ws r1)) (verify_char_safe 91 (eat_ws r1)) r2 E2.
    apply verify_char_len in E2.
    destruct (num_tags <=? tag_num + 1); [split; [auto with safe|discriminate]|].
    pose proof (eat_ws_len r2) as Hw3.
    destruct (IH (eat_ws r2) out2 op2 (tag_num + 1) num_tags ltac:(lia)) as [Sf2 LL]. split; [exact Sf2|].
    intros r0 out' op' H. destruct (LL _ _ _ H) as [A B]. split; [lia|congruence].
Qed.

Theorem read_tags_array_props l out :
  safe (read_tags_array l out) /\
  (forall r out' size, read_tags_array l out = Ok (r, out', size) -> (length r <= length l)%nat /\ len out' = len out).
Proof.
  unfold read_tags_array.
  dres (verify_char 91 l) (verify_char_safe 91 l) r1 E1.
  apply verify_char_len in E1. pose proof (eat_ws_len r1) as Hw.
  destruct (len out <? 4); [split; [auto with safe|discriminate]|].
  dres (count_tags (eat_ws r1)) (count_tags_safe (eat_ws r1)) n E2.
  dres (put out 2 (le16 n)) (put_safe out 2 (le16 n)) o1 E3.
  apply put_len in E3.
  destruct (n =? 0).
  - dres (put o1 0 (le16 4)) (put_safe o1 0 (le16 4)) o2 E4.
    apply put_len in E4.
    destruct (proj1 (proj2 (burn_all_props (burn_fuel (eat_ws r1)))) 0 (eat_ws r1) ltac:(unfold burn_fuel; lia)) as [Sf L].
    dres (burn_array (burn_fuel (eat_ws r1)) 0 (eat_ws r1)) Sf r2 E5.
    specialize (L r2 eq_refl). split; [auto with safe|]. intros r out' size [= <- <- _]. split; [lia|congruence].
  - dres (verify_char 91 (eat_ws r1)) (verify_char_safe 91 (eat_ws r1)) r2 E4.
    apply verify_char_len in E4. pose proof (eat_ws_len r2) as Hw2.
    destruct (len out <? 4 + n * 2); [split; [auto with safe|discriminate]|].
    destruct (read_tags_loop_props (S (length l)) (eat_ws r2) o1 (4 + n * 2) 0 n ltac:(lia)) as [Sf L].
    destruct (read_tags_loop (S (length l)) (eat_ws r2) o1 (4 + n * 2) 0 n) as [[[r3 out2] op']| | |] eqn:Er; cbn [bind].
    2: split; [auto with safe|discriminate].
    2-3: destruct Sf; congruence.
    destruct (L _ _ _ eq_refl) as [L1 L2].
    destruct (65535 <? op'); [split; [auto with safe|discriminate]|].
    dres (put out2 0 (le16 op')) (put_safe out2 0 (le16 op')) o3 E5.
    apply put_len in E5. split; [auto with safe|]. intros r out' size [= <- <- _]. split; [lia|congruence].
Qed.

(* Tags::from_json: total, and the consumed count never exceeds the input *)
Theorem tags_from_json_total l out :
  safe (tags_from_json l out) /\ (forall n t, tags_from_json l out = Ok (n, t) -> n <= len l).
Proof.
  unfold tags_from_json. destruct (read_tags_array_props l out) as [Sf L].
  destruct (read_tags_array l out) as [[[r out'] size]| | |] eqn:E; cbn [bind].
  - split; [auto with safe|]. intros n t [= <- _]. lia.
  - split; [auto with safe|discriminate].
  - destruct Sf; congruence.
  - destruct Sf; congruence.
Qed.
