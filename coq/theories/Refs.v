(* Refs.v — event references (C15).  A reference handed out by the store is an address
   base + offset into the memory mapping of the event map.  The logical half - the bytes at an
   offset never change - is the append-only log (DbProofs.readback_forever).  The address half
   depends on the kernel: MmapAppend::resize remaps with may_move(true), so a growth step may
   relocate the mapping.  The kernel's choice is the [moved] flag of a growth step. *)
From Pocket Require Export Bytes.

Record mapping := mkMap { m_base : N; m_len : N }.

Inductive mstep :=
| MAppend                                        (* an append within the mapped length *)
| MGrow (newlen newbase : N) (moved : bool).      (* set_len + mremap; [moved]: the kernel relocated it *)

Definition m_step (m : mapping) (st : mstep) : mapping :=
  match st with
  | MAppend => m
  | MGrow newlen newbase moved => if moved then mkMap newbase newlen else mkMap (m_base m) newlen
  end.
Definition m_run (steps : list mstep) (m : mapping) : mapping := fold_left m_step steps m.

Definition ref_addr (m : mapping) (off : N) : N := m_base m + off.

(* the known class: some growth step relocates the mapping *)
Definition known_class (steps : list mstep) : bool :=
  existsb (fun st => match st with MGrow _ nb true => true | _ => false end) steps.

Lemma m_run_base_stable steps : forall m, known_class steps = false -> m_base (m_run steps m) = m_base m.
Proof.
  induction steps as [|st r IH]; intros m H; cbn [m_run fold_left]; auto.
  cbn [known_class existsb] in H. apply orb_false_iff in H. destruct H as [H1 H2].
  fold (m_run r (m_step m st)). rewrite IH by exact H2.
  destruct st as [|nl nb mv]; cbn [m_step]; auto. destruct mv; [discriminate|reflexivity].
Qed.

(* outside the known class every reference keeps its address across any number of appends and growths *)
Theorem refs_stable_unless_moved steps m off :
  known_class steps = false -> ref_addr (m_run steps m) off = ref_addr m off.
Proof. intros H. unfold ref_addr. rewrite m_run_base_stable by exact H. reflexivity. Qed.

(* the class is not empty and the property is false of it: one relocating growth changes the
   address of every reference taken before it *)
Theorem refs_move_witness :
  exists steps m off, known_class steps = true /\ ref_addr (m_run steps m) off <> ref_addr m off.
Proof.
  exists [MGrow 4096 1000000 true], (mkMap 0 2048), 8. split; [reflexivity|]. cbn. discriminate.
Qed.
