(* Spelling.v — EVERY spelling of a string that json_unescape accepts reads back as that string (C01, C02).
   A string is a list of Unicode scalar values; each may be written
     - literally (its UTF-8 encoding), when it is not a quote, a backslash or a control character;
     - as a two-character escape: backslash followed by a quote, a backslash, a slash, or one of b f n r t;
     - as \uXXXX with hex digits in either case, when it is below 65536 and not a surrogate
   (these are all the spellings the unescaper accepts: surrogate pairs and raw control characters are rejected).
   [spelling_escd]: any mixture of these, per character, satisfies the relation [escd] on which every parse
   theorem of JsonRoundTrip.v / EventAnyOrder.v rests - so those theorems hold for every spelling of the tag
   strings and of the content, not only for the spelling json_escape chooses. *)
From Pocket Require Import Escape EscapeProofs EscapeRoundTrip JsonParse JsonRoundTrip.

Inductive spell1 : N -> bytes -> Prop :=
| SpLit c : scalar c -> is_safe_char c = true -> spell1 c (enc c)
| SpShort x c : short_escape x = Some c -> spell1 c [92; x]
| SpU4 c x3 x2 x1 x0 d3 d2 d1 d0 :
    hex_digit_value x3 = Some d3 -> hex_digit_value x2 = Some d2 ->
    hex_digit_value x1 = Some d1 -> hex_digit_value x0 = Some d0 ->
    c = d3 * 4096 + d2 * 256 + d1 * 16 + d0 -> (c < 55296 \/ 57344 <= c) ->
    spell1 c [92; 117; x3; x2; x1; x0].

Lemma hex_digit_range x d : hex_digit_value x = Some d -> d < 16 /\ x < 128 /\ x <> 34 /\ x <> 92.
Proof.
  unfold hex_digit_value. intros H.
  repeat match type of H with context [if ?b then _ else _] => destruct b eqn:? end; try discriminate;
    injection H as <-; lia.
Qed.

Lemma short_escape_small x c : short_escape x = Some c -> c < 128 /\ enc c = [c].
Proof.
  unfold short_escape. intros H.
  assert (c < 128).
  { repeat match type of H with context [if ?a =? ?b then _ else _] => destruct (a =? b) eqn:? end; try discriminate;
      injection H as <-; lia. }
  split; [assumption|]. unfold enc. replace (c <? 128) with true by lia. reflexivity.
Qed.

Lemma spell1_scalar c p : spell1 c p -> scalar c.
Proof.
  intros [c0 Hs _|x c0 Hx|c0 x3 x2 x1 x0 d3 d2 d1 d0 H3 H2 H1 H0 -> Hns]; [exact Hs| |].
  - destruct (short_escape_small x c0 Hx). split; lia.
  - apply hex_digit_range in H3, H2, H1, H0. split; [exact Hns|lia].
Qed.

(* one character, in any of its spellings, is read back as that character's encoding *)
Lemma un_spell1 c p : spell1 c p -> forall fuel r consumed acc wp cap,
  wp + len (enc c) <= cap -> (length (p ++ r) < fuel)%nat ->
  exists fuel', (length r < fuel')%nat /\
    unescape_fuel fuel UNormal (p ++ r) consumed acc wp cap
    = unescape_fuel fuel' UNormal r (consumed + len p) (rev_append (enc c) acc) (wp + len (enc c)) cap.
Proof.
  intros Hsp fuel r consumed acc wp cap Hcap Hf.
  destruct Hsp as [c [Hns Hmax] Es|x c Hx|c x3 x2 x1 x0 d3 d2 d1 d0 H3 H2 H1 H0 Ec Hns].
  - (* copied verbatim *)
    destruct fuel as [|fuel]; [lia|]. exists fuel. split.
    { rewrite app_length in Hf. pose proof (len_enc c) as H. unfold len in H. lia. }
    cbn [unescape_fuel]. rewrite (ncp_enc c r Hmax), take_app_len, drop_app_len.
    replace (c =? 92) with false by (unfold is_safe_char in Es; lia). rewrite Es.
    replace (cap <? wp + len (enc c)) with false by lia. reflexivity.
  - destruct (short_escape_small x c Hx) as [Hc Henc]. rewrite Henc in *. change (len [c]) with 1 in *.
    destruct fuel as [|[|fuel]]; cbn [app length] in Hf; try lia. exists fuel. split; [lia|].
    cbn [app]. rewrite un_backslash, (un_short _ _ _ _ _ _ _ c Hx Hcap). change (len [92; x]) with 2.
    cbn [rev_append]. f_equal. lia.
  - pose proof (hex_digit_range _ _ H3) as (R3 & _). pose proof (hex_digit_range _ _ H2) as (R2 & _).
    pose proof (hex_digit_range _ _ H1) as (R1 & _). pose proof (hex_digit_range _ _ H0) as (R0 & _).
    cbn [app length] in Hf.
    destruct fuel as [|[|[|[|[|[|fuel]]]]]]; try lia.
    exists fuel. split; [lia|]. cbn [app].
    rewrite un_backslash, un_u.
    rewrite (un_hex_digit _ _ _ _ _ _ _ d3) by (try assumption; lia).
    rewrite (un_hex_digit _ _ _ _ _ _ _ d2) by (try assumption; lia).
    rewrite (un_hex_digit _ _ _ _ _ _ _ d1) by (try assumption; lia).
    change (3 - 0) with 3. change (3 - (0 + 1)) with 2. change (3 - (0 + 1 + 1)) with 1.
    change (16 ^ 3) with 4096. change (16 ^ 2) with 256. change (16 ^ 1) with 16. change (0 + 1 + 1 + 1) with 3.
    set (total := 0 + d3 * 4096 + d2 * 256 + d1 * 16).
    assert (Hc' : total + d0 = c) by (subst total; lia).
    rewrite (un_hex_last _ _ _ _ _ _ _ d0); [| exact H0 | rewrite Hc'; exact Hns | rewrite Hc'; exact Hcap].
    rewrite Hc'. change (len [92; 117; x3; x2; x1; x0]) with 6. f_equal. lia.
Qed.

(* ... and skipped by the string skipper *)
Lemma burn_spell1 c p : spell1 c p -> forall tl, burn_string (p ++ tl) = burn_string tl.
Proof.
  intros Hsp tl. destruct Hsp as [c [Hns Hmax] Es|x c Hx|c x3 x2 x1 x0 d3 d2 d1 d0 H3 H2 H1 H0 Ec Hns].
  - assert (Raw : forall bs, Forall (fun b => b <> 34 /\ b <> 92) bs -> burn_string (bs ++ tl) = burn_string tl).
    { induction bs as [|b bs IHb]; intros Hb; [reflexivity|]. inversion Hb as [|? ? [B1 B2] Hb']; subst. cbn [app burn_string].
      replace (b =? 34) with false by lia. replace (b =? 92) with false by lia. apply IHb. exact Hb'. }
    apply Raw. unfold is_safe_char in Es. unfold enc.
    repeat match goal with |- context [if ?b then _ else _] => destruct b eqn:? end; repeat constructor; lia.
  - cbn [app burn_string]. reflexivity.
  - apply hex_digit_range in H3, H2, H1, H0.
    cbn [app burn_string]. change (92 =? 34) with false. change (92 =? 92) with true. cbv iota.
    replace (x3 =? 34) with false by lia. replace (x3 =? 92) with false by lia.
    replace (x2 =? 34) with false by lia. replace (x2 =? 92) with false by lia.
    replace (x1 =? 34) with false by lia. replace (x1 =? 92) with false by lia.
    replace (x0 =? 34) with false by lia. replace (x0 =? 92) with false by lia. reflexivity.
Qed.

(* a string: the characters [cps], each spelled by the corresponding piece of [ps] *)
Definition spelling (cps : list N) (ps : list bytes) : Prop := Forall2 spell1 cps ps.

Lemma unescape_spelling cps ps : spelling cps ps -> forall fuel rest consumed acc wp cap,
  wp + len (utf8_of cps) <= cap -> (length (concat ps ++ 34%N :: rest) < fuel)%nat ->
  unescape_fuel fuel UNormal (concat ps ++ 34 :: rest) consumed acc wp cap
  = Ok (consumed + len (concat ps), rev acc ++ utf8_of cps).
Proof.
  induction 1 as [|c p cps ps Hc Hs IH]; intros fuel rest consumed acc wp cap Hcap Hf.
  - cbn [concat app utf8_of flat_map] in *. destruct fuel as [|fuel]; [lia|].
    rewrite un_quote, rev_append_rev, !app_nil_r. f_equal. f_equal. change (len (@nil N)) with 0. lia.
  - cbn [concat utf8_of flat_map] in *. fold (utf8_of cps) in *. rewrite <- app_assoc in *.
    rewrite len_app in Hcap.
    destruct (un_spell1 c p Hc fuel (concat ps ++ 34 :: rest) consumed acc wp cap) as [fuel' [Hf' ->]]; [lia|exact Hf|].
    rewrite IH; [| lia | exact Hf'].
    rewrite rev_append_rev, rev_app_distr, rev_involutive, <- app_assoc, len_app. f_equal. f_equal. lia.
Qed.

Lemma burn_spelling cps ps : spelling cps ps -> forall rest, burn_string (concat ps ++ 34 :: rest) = Ok rest.
Proof.
  induction 1 as [|c p cps ps Hc Hs IH]; intros rest; cbn [concat app].
  - cbn [burn_string]. reflexivity.
  - rewrite <- app_assoc, (burn_spell1 c p Hc). apply IH.
Qed.

(* THE THEOREM: any spelling is in the relation the parse theorems are stated over *)
Theorem spelling_escd cps ps : spelling cps ps -> escd (utf8_of cps) (concat ps).
Proof.
  intros Hs. split.
  - intros rest cap Hcap. unfold json_unescape.
    rewrite (unescape_spelling cps ps Hs); [reflexivity | lia | lia].
  - intros rest. apply (burn_spelling cps ps Hs).
Qed.

(* the spelling json_escape chooses is one of them *)
Lemma esc1_spell1 c : scalar c -> spell1 c (esc1 c).
Proof.
  intros Hs. pose proof Hs as [Hns Hmax]. unfold esc1. destruct (is_safe_char c) eqn:Es; [apply SpLit; assumption|].
  assert (Hsmall : c < 32 \/ c = 34 \/ c = 92) by (unfold is_safe_char in Es; lia).
  repeat match goal with |- context [if ?a =? ?b then _ else _] =>
    destruct (a =? b) eqn:?; [assert (a = b) by lia; subst; apply SpShort; reflexivity|] end.
  unfold hex4. cbn [app].
  eapply (SpU4 c _ _ _ _ ((c / 4096) mod 16) ((c / 256) mod 16) ((c / 16) mod 16) (c mod 16));
    try (apply hex_digit_hex_char; lia); lia.
Qed.

(* the strings of a valid string: every scalar list has the spelling json_escape writes, and e.g. the all-\uXXXX one *)
Definition u4 (c : N) : bytes := [92; 117] ++ hex4 c.
Lemma u4_spell1 c : c < 65536 -> (c < 55296 \/ 57344 <= c) -> spell1 c (u4 c).
Proof.
  intros Hc Hns. unfold u4, hex4. cbn [app].
  eapply (SpU4 c _ _ _ _ ((c / 4096) mod 16) ((c / 256) mod 16) ((c / 16) mod 16) (c mod 16));
    try (apply hex_digit_hex_char; lia); lia.
Qed.

(* non-vacuity: the characters A, LF, e-acute spelled as  u0041, backslash-n, literal bytes  and as  A, u000a, u00E9 *)
Example spelling_example :
  spelling [65; 10; 233] [[92; 117; 48; 48; 52; 49]; [92; 110]; [195; 169]] /\
  spelling [65; 10; 233] [[65]; [92; 117; 48; 48; 48; 97]; [92; 117; 48; 48; 69; 57]].
Proof.
  split; (apply Forall2_cons; [|apply Forall2_cons; [|apply Forall2_cons; [|apply Forall2_nil]]]).
  - eapply (SpU4 65 48 48 52 49 0 0 4 1); try reflexivity. lia.
  - apply (SpShort 110 10). reflexivity.
  - apply (SpLit 233); [split; lia|reflexivity].
  - apply (SpLit 65); [split; lia|reflexivity].
  - eapply (SpU4 10 48 48 48 97 0 0 0 10); try reflexivity. lia.
  - eapply (SpU4 233 48 48 69 57 0 0 14 9); try reflexivity. lia.
Qed.
