(* TableProofs.v — laws of the LMDB table abstraction (Keys.v) and of index/deindex (Db.v):
   the table-level half of C17 (index accounting never leaks). *)
From Pocket Require Import Db.
From Coq Require Import Permutation.

Definition keys_unique (t : table) : Prop := NoDup (map fst t).

Lemma In_t_del t k k' v : In (k', v) (t_del t k) <-> In (k', v) t /\ k' <> k.
Proof.
  unfold t_del. rewrite filter_In. cbn [fst]. rewrite negb_true_iff, beq_neq. tauto.
Qed.
Lemma In_t_put t k v k' v' : In (k', v') (t_put t k v) <-> (k' = k /\ v' = v) \/ (In (k', v') t /\ k' <> k).
Proof.
  unfold t_put. cbn [In]. rewrite In_t_del. split.
  - intros [[= <- <-]|H]; auto.
  - intros [[-> ->]|H]; auto.
Qed.
Lemma t_del_fresh t k : (forall v, ~ In (k, v) t) -> t_del t k = t.
Proof.
  intros H. unfold t_del. induction t as [|[k' v] t IH]; cbn [filter fst]; auto.
  destruct (beq k' k) eqn:E; cbn [negb].
  - apply beq_eq in E. subst. exfalso. apply (H v). left. reflexivity.
  - f_equal. apply IH. intros v' Hin. apply (H v'). right. exact Hin.
Qed.
Lemma keys_unique_del t k : keys_unique t -> keys_unique (t_del t k).
Proof.
  unfold keys_unique, t_del. induction t as [|[k' v] t IH]; cbn [filter map fst]; auto.
  intros H. inversion H as [|? ? Hn Hd]; subst. destruct (negb (beq k' k)); cbn [map fst]; auto.
  constructor; auto. intros Hin. apply Hn. apply in_map_iff in Hin. destruct Hin as ([k2 v2] & E & Hin).
  apply filter_In in Hin. apply in_map_iff. exists (k2, v2). tauto.
Qed.
Lemma keys_unique_put t k v : keys_unique t -> keys_unique (t_put t k v).
Proof.
  intros H. unfold keys_unique, t_put. cbn [map fst]. constructor; [|apply keys_unique_del; exact H].
  intros Hin. apply in_map_iff in Hin. destruct Hin as ([k2 v2] & E & Hin). cbn [fst] in E. subst k2.
  apply In_t_del in Hin. tauto.
Qed.
Lemma t_get_In t k v : keys_unique t -> (t_get t k = Some v <-> In (k, v) t).
Proof.
  unfold keys_unique. induction t as [|[k' v'] t IH]; cbn [t_get map fst In]; intros H.
  - split; [discriminate|tauto].
  - inversion H as [|? ? Hn Hd]; subst. destruct (beq k' k) eqn:E.
    + apply beq_eq in E. subst k'. split.
      * intros [= ->]. auto.
      * intros [[= ->]|Hin]; auto. exfalso. apply Hn. apply in_map_iff. exists (k, v). auto.
    + rewrite (IH Hd). apply beq_neq in E. split; auto. intros [[= -> ->]|Hin]; auto. congruence.
Qed.
Lemma t_get_put_same t k v : t_get (t_put t k v) k = Some v.
Proof. unfold t_put. cbn [t_get]. rewrite beq_refl. reflexivity. Qed.
Lemma t_get_del_same t k : t_get (t_del t k) k = None.
Proof.
  unfold t_del. induction t as [|[k' v] t IH]; cbn [filter fst t_get]; auto.
  destruct (beq k' k) eqn:E; cbn [negb t_get]; auto. rewrite E. exact IH.
Qed.
Lemma t_get_del_other t k k' : k' <> k -> t_get (t_del t k) k' = t_get t k'.
Proof.
  intros Hne. unfold t_del. induction t as [|[k2 v] t IH]; cbn [filter fst t_get]; auto.
  destruct (beq k2 k) eqn:E; cbn [negb t_get].
  - apply beq_eq in E. subst k2. destruct (beq k k') eqn:E2; auto. apply beq_eq in E2. congruence.
  - rewrite IH. reflexivity.
Qed.
Lemma t_get_put_other t k v k' : k' <> k -> t_get (t_put t k v) k' = t_get t k'.
Proof.
  intros Hne. unfold t_put. cbn [t_get]. destruct (beq k k') eqn:E.
  - apply beq_eq in E. congruence.
  - apply t_get_del_other. exact Hne.
Qed.

(* ---------- sorting and ranges ---------- *)
Lemma insert_sorted_perm e l : Permutation (insert_sorted e l) (e :: l).
Proof.
  induction l as [|x l IH]; cbn [insert_sorted]; auto.
  destruct (lex_lt (fst x) (fst e)); auto. rewrite IH. apply perm_swap.
Qed.
Lemma sort_table_perm l : Permutation (sort_table l) l.
Proof. induction l as [|e l IH]; cbn [sort_table]; auto. rewrite insert_sorted_perm. constructor. exact IH. Qed.

Inductive key_sorted : table -> Prop :=
| ks_nil : key_sorted []
| ks_cons e l : (forall x, In x l -> lex_lt (fst x) (fst e) = false) -> key_sorted l -> key_sorted (e :: l).

Lemma lex_le_trans_false a b c : lex_lt b a = false -> lex_lt c b = false -> lex_lt c a = false.
Proof.
  intros H1 H2. destruct (lex_lt c a) eqn:E; auto.
  destruct (lex_lt a b) eqn:E3.
  - pose proof (lex_lt_trans _ _ _ E E3). congruence.
  - assert (a = b) by (apply lex_total; auto). subst. congruence.
Qed.
Lemma insert_sorted_sorted e l : key_sorted l -> key_sorted (insert_sorted e l).
Proof.
  induction 1 as [|y l Hy Hs IH]; cbn [insert_sorted].
  - constructor; [intros x []|constructor].
  - destruct (lex_lt (fst y) (fst e)) eqn:E.
    + constructor; auto. intros x Hx.
      apply (Permutation_in _ (insert_sorted_perm e l)) in Hx. destruct Hx as [<-|Hx]; auto.
      apply lex_lt_asym. exact E.
    + constructor; [|constructor; auto]. intros x [<-|Hx]; auto.
      eapply lex_le_trans_false; eauto.
Qed.
Lemma sort_table_sorted l : key_sorted (sort_table l).
Proof. induction l as [|e l IH]; cbn [sort_table]; [constructor|apply insert_sorted_sorted; exact IH]. Qed.

(* a range scan returns exactly the entries whose key lies in [lo, hi], in ascending key order *)
Theorem t_range_spec t lo hi k v :
  In (k, v) (t_range t lo hi) <-> In (k, v) t /\ lex_lt k lo = false /\ lex_lt hi k = false.
Proof.
  unfold t_range. split.
  - intros H. apply (Permutation_in _ (sort_table_perm _)) in H. apply filter_In in H. cbn [fst] in H.
    destruct H as [H1 H2]. apply andb_true_iff in H2. unfold lex_le in H2. rewrite !negb_true_iff in H2. tauto.
  - intros (H1 & H2 & H3). apply (Permutation_in _ (Permutation_sym (sort_table_perm _))).
    apply filter_In. split; auto. cbn [fst]. unfold lex_le. rewrite H2, H3. reflexivity.
Qed.
Theorem t_range_sorted t lo hi : key_sorted (t_range t lo hi).
Proof. apply sort_table_sorted. Qed.

(* ---------- put_all / del_all: what index and deindex do to one table ---------- *)
Definition put_all (t : table) (ks : list bytes) (off : N) : table := fold_left (fun t k => t_put t k off) ks t.
Definition del_all (t : table) (ks : list bytes) : table := fold_left t_del ks t.

Lemma In_del_all ks : forall t k v, In (k, v) (del_all t ks) <-> In (k, v) t /\ ~ In k ks.
Proof.
  induction ks as [|k0 ks IH]; intros t k v; cbn [del_all fold_left In]; [tauto|].
  fold (del_all (t_del t k0) ks). rewrite IH, In_t_del. intuition.
Qed.
Lemma In_put_all ks off : forall t k v,
  In (k, v) (put_all t ks off) <-> (In k ks /\ v = off) \/ (In (k, v) t /\ ~ In k ks).
Proof.
  induction ks as [|k0 ks IH]; intros t k v; cbn [put_all fold_left In]; [tauto|].
  fold (put_all (t_put t k0 off) ks off). rewrite IH, In_t_put.
  destruct (in_dec (list_eq_dec N.eq_dec) k ks) as [Hi|Hi];
  (destruct (list_eq_dec N.eq_dec k k0) as [<-|Hne];
   [assert (Hkk : k = k) by reflexivity; tauto
   |assert (Hne' : k0 <> k) by congruence; tauto]).
Qed.
Lemma keys_unique_put_all ks off : forall t, keys_unique t -> keys_unique (put_all t ks off).
Proof.
  induction ks as [|k ks IH]; intros t H; cbn [put_all fold_left]; auto.
  apply IH. apply keys_unique_put. exact H.
Qed.
Lemma keys_unique_del_all ks : forall t, keys_unique t -> keys_unique (del_all t ks).
Proof.
  induction ks as [|k ks IH]; intros t H; cbn [del_all fold_left]; auto.
  apply IH. apply keys_unique_del. exact H.
Qed.

(* deindexing removes exactly the keys indexing added: with fresh keys the table is restored
   up to order - and its entry count is exactly restored *)
Theorem index_deindex_inverse t ks off k v :
  (forall k0 v0, In k0 ks -> ~ In (k0, v0) t) ->
  (In (k, v) (del_all (put_all t ks off) ks) <-> In (k, v) t).
Proof.
  intros Hfresh. rewrite In_del_all, In_put_all. split.
  - intros [[[H _]|[H _]] Hn]; [contradiction|exact H].
  - intros H. split; [right; split; auto|]; intros Hin; apply (Hfresh _ _ Hin H).
Qed.

Lemma NoDup_perm_len {A} (l1 l2 : list A) :
  NoDup l1 -> NoDup l2 -> (forall x, In x l1 <-> In x l2) -> length l1 = length l2.
Proof.
  intros N1 N2 H. apply Permutation_length. apply NoDup_Permutation; auto.
Qed.
Lemma keys_unique_NoDup t : keys_unique t -> NoDup t.
Proof.
  unfold keys_unique. induction t as [|[k v] t IH]; cbn [map fst]; intros H; [constructor|].
  inversion H as [|? ? Hn Hd]; subst. constructor; auto.
  intros Hin. apply Hn. apply in_map_iff. exists (k, v). auto.
Qed.
Theorem index_deindex_count t ks off :
  keys_unique t -> (forall k0 v0, In k0 ks -> ~ In (k0, v0) t) ->
  len (del_all (put_all t ks off) ks) = len t.
Proof.
  intros Hu Hfresh. unfold len. f_equal. apply NoDup_perm_len.
  - apply keys_unique_NoDup, keys_unique_del_all, keys_unique_put_all, Hu.
  - apply keys_unique_NoDup, Hu.
  - intros [k v]. apply index_deindex_inverse. exact Hfresh.
Qed.

(* the entry count after indexing fresh keys: one entry per DISTINCT key *)
Lemma NoDup_app_intro {A} (l1 l2 : list A) :
  NoDup l1 -> NoDup l2 -> (forall x, In x l1 -> In x l2 -> False) -> NoDup (l1 ++ l2).
Proof.
  induction l1 as [|x l1 IH]; cbn [app]; intros N1 N2 H; auto.
  inversion N1 as [|? ? Hn Hd]; subst. constructor.
  - intros Hin. apply in_app_or in Hin. destruct Hin as [Hin|Hin]; [contradiction|].
    apply (H x); [left; reflexivity|exact Hin].
  - apply IH; auto. intros y H1 H2. apply (H y); [right; exact H1|exact H2].
Qed.

Theorem put_all_count t ks off :
  keys_unique t -> (forall k0 v0, In k0 ks -> ~ In (k0, v0) t) ->
  len (put_all t ks off) = len t + len (nodup (list_eq_dec N.eq_dec) ks).
Proof.
  intros Hu Hfresh. unfold len. rewrite <- Nat2N.inj_add. f_equal.
  rewrite <- (map_length (fun k => (k, off)) (nodup _ ks)). rewrite <- app_length.
  apply NoDup_perm_len.
  - apply keys_unique_NoDup, keys_unique_put_all, Hu.
  - apply NoDup_app_intro.
    + apply keys_unique_NoDup, Hu.
    + apply NoDup_map_inv with (f := fst). rewrite map_map. cbn [fst]. rewrite map_id. apply NoDup_nodup.
    + intros [k v] H1 H2. apply in_map_iff in H2. destruct H2 as (k' & E & H2). injection E as <- <-.
      apply nodup_In in H2. apply (Hfresh _ _ H2 H1).
  - intros [k v]. rewrite In_put_all, in_app_iff, in_map_iff. split.
    + intros [[H1 ->]|[H1 H2]]; [right; exists k; split; auto; apply nodup_In; exact H1|left; exact H1].
    + intros [H|(k' & E & H)].
      * right. split; auto. intros Hin. apply (Hfresh _ _ Hin H).
      * injection E as <- <-. left. split; auto. apply (proj1 (nodup_In (list_eq_dec N.eq_dec) ks k')). exact H.
Qed.

(* ---------- Db.index / Db.deindex are put_all / del_all on each table ---------- *)
Definition keys_tc (e : aevent) : list bytes :=
  map (fun lv : N * bytes => key_tc (fst lv) (snd lv) (e_created e) (e_id e)) (indexable_tags (e_tags e)).
Definition keys_atc (e : aevent) : list bytes :=
  map (fun lv : N * bytes => key_atc (e_pk e) (fst lv) (snd lv) (e_created e) (e_id e)) (indexable_tags (e_tags e)).
Definition keys_ktc (e : aevent) : list bytes :=
  map (fun lv : N * bytes => key_ktc (e_kind e) (fst lv) (snd lv) (e_created e) (e_id e)) (indexable_tags (e_tags e)).

Lemma index_tags_tables e off lvs : forall tb,
  let tb' := fold_left (fun tb (lv : N * bytes) =>
      let '(c, v) := lv in
      mkT (t_i tb) (t_ci tb) (t_put (t_tc tb) (key_tc c v (e_created e) (e_id e)) off) (t_ac tb) (t_akc tb)
          (t_put (t_atc tb) (key_atc (e_pk e) c v (e_created e) (e_id e)) off)
          (t_put (t_ktc tb) (key_ktc (e_kind e) c v (e_created e) (e_id e)) off)
          (t_delids tb) (t_naddr tb) (t_extra tb)) lvs tb in
  t_i tb' = t_i tb /\ t_ci tb' = t_ci tb /\ t_ac tb' = t_ac tb /\ t_akc tb' = t_akc tb /\
  t_delids tb' = t_delids tb /\ t_naddr tb' = t_naddr tb /\ t_extra tb' = t_extra tb /\
  t_tc tb' = put_all (t_tc tb) (map (fun lv : N * bytes => key_tc (fst lv) (snd lv) (e_created e) (e_id e)) lvs) off /\
  t_atc tb' = put_all (t_atc tb) (map (fun lv : N * bytes => key_atc (e_pk e) (fst lv) (snd lv) (e_created e) (e_id e)) lvs) off /\
  t_ktc tb' = put_all (t_ktc tb) (map (fun lv : N * bytes => key_ktc (e_kind e) (fst lv) (snd lv) (e_created e) (e_id e)) lvs) off.
Proof.
  induction lvs as [|[c v] lvs IH]; intros tb; cbn [fold_left map put_all fst snd].
  - repeat split.
  - specialize (IH (mkT (t_i tb) (t_ci tb) (t_put (t_tc tb) (key_tc c v (e_created e) (e_id e)) off) (t_ac tb) (t_akc tb)
          (t_put (t_atc tb) (key_atc (e_pk e) c v (e_created e) (e_id e)) off)
          (t_put (t_ktc tb) (key_ktc (e_kind e) c v (e_created e) (e_id e)) off)
          (t_delids tb) (t_naddr tb) (t_extra tb))).
    cbv zeta in IH. cbn [t_i t_ci t_tc t_ac t_akc t_atc t_ktc t_delids t_naddr t_extra] in IH. exact IH.
Qed.

Theorem index_tables tb e off :
  let tb' := index tb e off in
  t_i tb' = t_put (t_i tb) (e_id e) off /\
  t_ci tb' = t_put (t_ci tb) (key_ci (e_created e) (e_id e)) off /\
  t_ac tb' = t_put (t_ac tb) (key_ac (e_pk e) (e_created e) (e_id e)) off /\
  t_akc tb' = t_put (t_akc tb) (key_akc (e_pk e) (e_kind e) (e_created e) (e_id e)) off /\
  t_tc tb' = put_all (t_tc tb) (keys_tc e) off /\
  t_atc tb' = put_all (t_atc tb) (keys_atc e) off /\
  t_ktc tb' = put_all (t_ktc tb) (keys_ktc e) off /\
  t_delids tb' = t_delids tb /\ t_naddr tb' = t_naddr tb /\ t_extra tb' = t_extra tb.
Proof.
  cbv zeta. unfold index, index_tags.
  match goal with |- context [fold_left ?f ?l ?x] => pose proof (index_tags_tables e off l x) as H end.
  cbv zeta in H. cbn [t_i t_ci t_tc t_ac t_akc t_atc t_ktc t_delids t_naddr t_extra] in H.
  destruct H as (H1 & H2 & H3 & H4 & H5 & H6 & H7 & H8 & H9 & H10).
  unfold keys_tc, keys_atc, keys_ktc. repeat split; assumption.
Qed.

Lemma deindex_tags_tables e lvs : forall tb,
  let tb' := fold_left (fun tb (lv : N * bytes) =>
      let '(c, v) := lv in
      mkT (t_i tb) (t_ci tb) (t_del (t_tc tb) (key_tc c v (e_created e) (e_id e))) (t_ac tb) (t_akc tb)
          (t_del (t_atc tb) (key_atc (e_pk e) c v (e_created e) (e_id e)))
          (t_del (t_ktc tb) (key_ktc (e_kind e) c v (e_created e) (e_id e)))
          (t_delids tb) (t_naddr tb) (t_extra tb)) lvs tb in
  t_i tb' = t_i tb /\ t_ci tb' = t_ci tb /\ t_ac tb' = t_ac tb /\ t_akc tb' = t_akc tb /\
  t_delids tb' = t_delids tb /\ t_naddr tb' = t_naddr tb /\ t_extra tb' = t_extra tb /\
  t_tc tb' = del_all (t_tc tb) (map (fun lv : N * bytes => key_tc (fst lv) (snd lv) (e_created e) (e_id e)) lvs) /\
  t_atc tb' = del_all (t_atc tb) (map (fun lv : N * bytes => key_atc (e_pk e) (fst lv) (snd lv) (e_created e) (e_id e)) lvs) /\
  t_ktc tb' = del_all (t_ktc tb) (map (fun lv : N * bytes => key_ktc (e_kind e) (fst lv) (snd lv) (e_created e) (e_id e)) lvs).
Proof.
  induction lvs as [|[c v] lvs IH]; intros tb; cbn [fold_left map del_all fst snd].
  - repeat split.
  - specialize (IH (mkT (t_i tb) (t_ci tb) (t_del (t_tc tb) (key_tc c v (e_created e) (e_id e))) (t_ac tb) (t_akc tb)
          (t_del (t_atc tb) (key_atc (e_pk e) c v (e_created e) (e_id e)))
          (t_del (t_ktc tb) (key_ktc (e_kind e) c v (e_created e) (e_id e)))
          (t_delids tb) (t_naddr tb) (t_extra tb))).
    cbv zeta in IH. cbn [t_i t_ci t_tc t_ac t_akc t_atc t_ktc t_delids t_naddr t_extra] in IH. exact IH.
Qed.

Theorem deindex_tables tb e :
  let tb' := deindex tb e in
  t_i tb' = t_i tb /\
  t_ci tb' = t_del (t_ci tb) (key_ci (e_created e) (e_id e)) /\
  t_ac tb' = t_del (t_ac tb) (key_ac (e_pk e) (e_created e) (e_id e)) /\
  t_akc tb' = t_del (t_akc tb) (key_akc (e_pk e) (e_kind e) (e_created e) (e_id e)) /\
  t_tc tb' = del_all (t_tc tb) (keys_tc e) /\
  t_atc tb' = del_all (t_atc tb) (keys_atc e) /\
  t_ktc tb' = del_all (t_ktc tb) (keys_ktc e) /\
  t_delids tb' = t_delids tb /\ t_naddr tb' = t_naddr tb /\ t_extra tb' = t_extra tb.
Proof.
  cbv zeta. unfold deindex.
  match goal with |- context [fold_left ?f ?l ?x] => pose proof (deindex_tags_tables e l x) as H end.
  cbv zeta in H. destruct H as (H1 & H2 & H3 & H4 & H5 & H6 & H7 & H8 & H9 & H10).
  cbn [t_i t_ci t_tc t_ac t_akc t_atc t_ktc t_delids t_naddr t_extra].
  unfold keys_tc, keys_atc, keys_ktc. rewrite H1, H2, H3, H4, H5, H6, H7, H8, H9, H10. repeat split.
Qed.

(* every index key ends with the event's id, so keys of events with different ids never collide *)
Lemma key_suffix_ci t id : exists p, key_ci t id = p ++ id. Proof. eexists. reflexivity. Qed.
Lemma app_suffix_inj (p q a b : bytes) : length a = length b -> p ++ a = q ++ b -> a = b.
Proof.
  intros L E. assert (length p = length q).
  { apply (f_equal (@length N)) in E. rewrite !app_length in E. lia. }
  revert q H E. induction p as [|x p IH]; intros [|y q] H E; cbn [length] in H; try discriminate; cbn [app] in E; auto.
  injection E as _ E. apply (IH q); auto.
Qed.
