(* TagsWs.v - the tags array with white space wherever the parser accepts it (C01): after the outer bracket, after
   every tag's opening bracket, after every string's closing quote, after every comma (both levels), after every tag's
   closing bracket.  The proofs are those of JsonRoundTrip.v with the white space carried along. *)
From Pocket Require Import JsonParse Escape JsonRoundTrip JsonSkip.

(* a string of a tag: its spelling, the white space after its closing quote, the white space after the comma that follows *)
Record wstr := mkWs { ws_e : bytes; ws_a : bytes; ws_b : bytes }.
Definition wstr_ok (s : bytes) (x : wstr) : Prop := escd s (ws_e x) /\ wsb (ws_a x) /\ wsb (ws_b x).

(* what follows the opening quote of the first string *)
Fixpoint wstrs_text (es : list wstr) (tail : bytes) : bytes :=
  match es with
  | [] => tail
  | x :: r => match r with
              | [] => ws_e x ++ 34 :: ws_a x ++ 93 :: tail
              | _ => ws_e x ++ 34 :: ws_a x ++ 44 :: ws_b x ++ 34 :: wstrs_text r tail
              end
  end.

Lemma wread_tag_strings_spec ss : forall es fuel pre F tail num,
  Forall2 wstr_ok ss es -> ss <> [] -> (length ss < fuel)%nat ->
  sumN (map str_size ss) <= len F ->
  read_tag_strings fuel (wstrs_text es tail) (pre ++ F) (len pre) num
  = Ok (tail, pre ++ concat (map enc_str ss) ++ drop (sumN (map str_size ss)) F,
        len pre + sumN (map str_size ss), num + len ss - 1).
Proof.
  induction ss as [|s rest IH]; intros es fuel pre F tail num H2 Hne Hf Hcap; [congruence|].
  inversion H2 as [|? x ? er [[Hun Hbu] [Wa Wb]] H2r]; subst. destruct fuel as [|fuel]; [cbn [length] in Hf; lia|].
  cbn [map sumN] in Hcap. unfold str_size in Hcap at 1.
  destruct (split_free F 2 ltac:(lia)) as [EF L2]. remember (take 2 F) as f2 eqn:Ef2. remember (drop 2 F) as F1 eqn:EF1d.
  assert (HF1 : len F1 = len F - 2) by (rewrite EF1d; apply len_drop).
  destruct (split_free F1 (len s) ltac:(lia)) as [EF1 Ls]. remember (take (len s) F1) as fs eqn:Efs. remember (drop (len s) F1) as F' eqn:EF'd.
  assert (HF' : F' = drop (2 + len s) F) by (rewrite EF'd, EF1d, drop_drop; reflexivity).
  clear Ef2 Efs EF'd EF1d.
  set (cont := match rest with [] => ws_a x ++ 93 :: tail | _ => ws_a x ++ 44 :: ws_b x ++ 34 :: wstrs_text er tail end).
  assert (Htext : wstrs_text (x :: er) tail = ws_e x ++ 34 :: cont).
  { cbn [wstrs_text]. subst cont. inversion H2r; subst; reflexivity. }
  rewrite Htext. cbn [read_tag_strings].
  assert (Hlo : len (pre ++ F) = len pre + len F) by apply len_app.
  replace (len (pre ++ F) <? len pre + 2) with false by (symmetry; apply N.ltb_ge; lia).
  rewrite (Hun cont _) by lia. cbn [bind].
  assert (Hput1 : put (pre ++ F) (len pre + 2) s = Ok (pre ++ f2 ++ s ++ F')).
  { rewrite EF, EF1. replace (pre ++ f2 ++ fs ++ F') with ((pre ++ f2) ++ fs ++ F') by (rewrite <- app_assoc; reflexivity).
    replace (len pre + 2) with (len (pre ++ f2)) by (rewrite len_app; lia).
    rewrite put_seg by exact Ls. rewrite <- app_assoc. reflexivity. }
  rewrite Hput1. cbn [bind].
  rewrite (put_seg pre f2 (le16 (len s)) (s ++ F')) by (rewrite len_le16; exact L2). cbn [bind].
  rewrite drop_app_len. cbn [verify_char]. change (34 =? 34) with true. cbv iota. cbn [bind].
  replace (pre ++ le16 (len s) ++ s ++ F') with ((pre ++ enc_str s) ++ F') by (unfold enc_str; rewrite <- !app_assoc; reflexivity).
  replace (len pre + 2 + len s) with (len (pre ++ enc_str s)) by (rewrite len_app, len_enc_str; unfold str_size; lia).
  destruct rest as [|s1 rest1].
  - inversion H2r; subst. subst cont. rewrite (eat_ws_app (ws_a x) 93) by (try assumption; reflexivity).
    cbn [peek bind]. change (93 =? 44) with false. change (93 =? 93) with true. cbv iota.
    cbn [tl map concat sumN]. rewrite app_nil_r, N.add_0_r, len_app, len_enc_str. unfold str_size.
    rewrite <- HF', <- app_assoc. replace (num + len [s] - 1) with num by (unfold len; cbn [length]; lia). reflexivity.
  - subst cont. rewrite (eat_ws_app (ws_a x) 44) by (try assumption; reflexivity).
    cbn [peek bind]. change (44 =? 44) with true. cbv iota. cbn [tl].
    rewrite (eat_ws_app (ws_b x) 34) by (try assumption; reflexivity). cbn [verify_char]. change (34 =? 34) with true. cbv iota. cbn [bind].
    rewrite (IH er fuel (pre ++ enc_str s) F' tail (num + 1) H2r ltac:(discriminate) ltac:(cbn [length] in *; lia)).
    2:{ rewrite HF', len_drop. cbn [map sumN] in *. lia. }
    replace (num + 1 + len (s1 :: rest1) - 1) with (num + len (s :: s1 :: rest1) - 1) by (rewrite !len_cons; lia).
    replace (len (pre ++ enc_str s) + sumN (map str_size (s1 :: rest1))) with (len pre + sumN (map str_size (s :: s1 :: rest1)))
      by (rewrite len_app, len_enc_str; cbn [map sumN]; lia).
    replace (drop (sumN (map str_size (s1 :: rest1))) F') with (drop (sumN (map str_size (s :: s1 :: rest1))) F)
      by (rewrite HF', drop_drop; f_equal; cbn [map sumN]; unfold str_size; lia).
    cbn [map concat]. rewrite <- !app_assoc. reflexivity.
Qed.

Lemma wstrs_text_length es tail : (length es <= length (wstrs_text es tail))%nat /\ (length tail <= length (wstrs_text es tail))%nat.
Proof.
  induction es as [|e r [IH1 IH2]]; cbn [wstrs_text length]; [split; lia|]. destruct r as [|e1 r1].
  - rewrite !app_length. cbn [length]. rewrite app_length. cbn [length]. split; lia.
  - rewrite !app_length. cbn [length]. rewrite app_length. cbn [length]. rewrite app_length. cbn [length] in *. split; lia.
Qed.

(* ---------- one tag ---------- *)
(* a tag: its strings, the white space after its closing bracket, after the comma that follows, and after its OPENING bracket *)
Record wtag := mkWt { wt_s : list wstr; wt_c : bytes; wt_n : bytes; wt_o : bytes }.
Definition wtag_ok (t : list bytes) (x : wtag) : Prop :=
  Forall2 wstr_ok t (wt_s x) /\ wsb (wt_c x) /\ wsb (wt_n x) /\ wsb (wt_o x).

(* the text after the tag's opening bracket and the white space that follows it *)
Definition wtag_text (x : wtag) (tail : bytes) : bytes :=
  match wt_s x with [] => 93 :: tail | _ => 34 :: wstrs_text (wt_s x) tail end.

Lemma wtag_text_nonws x tail : exists c r, wtag_text x tail = c :: r /\ is_ws c = false.
Proof. unfold wtag_text. destruct (wt_s x); eexists _, _; split; reflexivity. Qed.

Lemma wread_tag_spec t x pre F tail : Forall2 wstr_ok t (wt_s x) -> tag_size t <= len F ->
  read_tag (wtag_text x tail) (pre ++ F) (len pre)
  = Ok (tail, pre ++ enc_tag t ++ drop (tag_size t) F, len pre + tag_size t).
Proof.
  intros H2 Hcap. unfold tag_size in *. unfold read_tag, wtag_text.
  destruct t as [|s rest].
  - inversion H2 as [E|]; subst. clear H2.
    destruct (split_free F 2 ltac:(lia)) as [EF L2]. remember (take 2 F) as f2 eqn:Ef2. remember (drop 2 F) as F1 eqn:EF1d. clear Ef2.
    cbn [peek bind]. change (93 =? 93) with true. cbv iota.
    rewrite EF at 1. rewrite (put_seg pre f2 (le16 0) F1) by (rewrite len_le16; exact L2). cbn [bind tl].
    unfold enc_tag. cbn [map concat sumN]. rewrite app_nil_r, N.add_0_r.
    change (len (@nil bytes)) with 0. rewrite EF1d. reflexivity.
  - inversion H2 as [|? e ? er Hse H2r Es]; subst.
    destruct (split_free F 2 ltac:(lia)) as [EF L2]. remember (take 2 F) as f2 eqn:Ef2. remember (drop 2 F) as F1 eqn:EF1d. clear Ef2.
    assert (HF1 : len F1 = len F - 2) by (rewrite EF1d; apply len_drop).
    cbn [peek bind]. change (34 =? 93) with false. cbv iota.
    cbn [verify_char]. change (34 =? 34) with true. cbv iota. cbn [bind].
    rewrite EF at 1. replace (pre ++ f2 ++ F1) with ((pre ++ f2) ++ F1) by (rewrite <- app_assoc; reflexivity).
    replace (len pre + 2) with (len (pre ++ f2)) by (rewrite len_app; lia).
    assert (H2' : Forall2 wstr_ok (s :: rest) (e :: er)) by (constructor; assumption).
    rewrite (wread_tag_strings_spec (s :: rest) (e :: er) _ (pre ++ f2) F1 tail 1 H2' ltac:(discriminate)).
    2:{ cbn [length]. pose proof (proj1 (wstrs_text_length (e :: er) tail)) as Hl. apply F2_length in H2r. cbn [length] in *. lia. }
    2:{ lia. }
    cbn [bind]. rewrite <- app_assoc.
    rewrite (put_seg pre f2 (le16 (1 + len (s :: rest) - 1)) _) by (rewrite len_le16; exact L2). cbn [bind].
    replace (1 + len (s :: rest) - 1) with (len (s :: rest)) by lia.
    replace (drop (sumN (map str_size (s :: rest))) F1) with (drop (2 + sumN (map str_size (s :: rest))) F) by (rewrite EF1d, drop_drop; reflexivity).
    replace (len (pre ++ f2) + sumN (map str_size (s :: rest))) with (len pre + (2 + sumN (map str_size (s :: rest)))) by (rewrite len_app; lia).
    unfold enc_tag. rewrite <- !app_assoc. reflexivity.
Qed.

(* ---------- the tags of the array ---------- *)
(* what follows a tag's closing bracket, after the white space there: the end of the array, or a comma, white space, the
   next tag's opening bracket and the white space after it *)
Fixpoint wtags_text (ts : list wtag) (tail : bytes) : bytes :=     (* at the first string / closing bracket of the first tag *)
  match ts with
  | [] => tail
  | x :: r => wtag_text x (wt_c x ++ match r with
                                      | [] => 93 :: tail
                                      | x2 :: _ => 44 :: wt_n x ++ 91 :: wt_o x2 ++ wtags_text r tail
                                      end)
  end.
Definition wcont0 (x : wtag) (r : list wtag) (tail : bytes) : bytes :=
  match r with [] => 93 :: tail | x2 :: _ => 44 :: wt_n x ++ 91 :: wt_o x2 ++ wtags_text r tail end.
Lemma wtags_text_cons x r tail : wtags_text (x :: r) tail = wtag_text x (wt_c x ++ wcont0 x r tail).
Proof. destruct r; reflexivity. Qed.
Lemma wcont0_nonws x r tail : exists c r0, wcont0 x r tail = c :: r0 /\ is_ws c = false.
Proof. destruct r; cbn [wcont0]; eexists _, _; split; reflexivity. Qed.

Lemma wtag_text_length x tail : (1 <= length (wtag_text x tail))%nat /\ (length tail <= length (wtag_text x tail))%nat.
Proof.
  unfold wtag_text. destruct (wt_s x) as [|e er] eqn:E; cbn [length]; [split; lia|].
  pose proof (proj2 (wstrs_text_length (e :: er) tail)). split; lia.
Qed.
Lemma wtags_text_length ts : forall tail, (length ts <= length (wtags_text ts tail))%nat /\ (length tail <= length (wtags_text ts tail))%nat.
Proof.
  induction ts as [|x r IH]; intros tail; [cbn [wtags_text length]; split; lia|].
  rewrite wtags_text_cons. pose proof (proj2 (wtag_text_length x (wt_c x ++ wcont0 x r tail))) as H.
  rewrite app_length in H. destruct r as [|x2 r2]; cbn [wcont0 length] in *.
  - split; lia.
  - rewrite app_length in H. cbn [length] in H. rewrite app_length in H. destruct (IH tail) as [I1 I2]. cbn [length] in *. split; lia.
Qed.

Lemma wread_tags_loop_spec ts : forall tes fuel h4 od ot D F tail i n,
  Forall2 wtag_ok ts tes -> ts <> [] -> (length ts < fuel)%nat ->
  len h4 = 4 -> len od = 2 * i -> len ot = 2 * len ts -> i + len ts = n ->
  sumN (map tag_size ts) <= len F ->
  read_tags_loop fuel (wtags_text tes tail) (h4 ++ od ++ ot ++ D ++ F) (4 + 2 * n + len D) i n
  = Ok (tail,
        h4 ++ (od ++ concat (map le16 (offsets (4 + 2 * n + len D) ts))) ++ (D ++ concat (map enc_tag ts)) ++ drop (sumN (map tag_size ts)) F,
        4 + 2 * n + len D + sumN (map tag_size ts)).
Proof.
  induction ts as [|t rest IH]; intros tes fuel h4 od ot D F tail i n H2 Hne Hf Lh Lod Lot Hin Hcap; [congruence|].
  revert Hin. inversion H2 as [|? x ? ter (Hte & Wc & Wn & Wo) H2r]; subst. intros Hin. destruct fuel as [|fuel]; [cbn [length] in Hf; lia|].
  cbn [map sumN] in Hcap. rewrite len_cons in Lot, Hin.
  destruct (split_free ot 2 ltac:(lia)) as [Eot Lo2]. remember (take 2 ot) as o2 eqn:Eo2. remember (drop 2 ot) as ot' eqn:Eot'.
  assert (Lot' : len ot' = 2 * len rest) by (rewrite Eot', len_drop; lia). clear Eo2 Eot'.
  set (outpos := 4 + 2 * n + len D) in *.
  rewrite wtags_text_cons. cbn [read_tags_loop].
  rewrite Eot.
  replace (h4 ++ od ++ (o2 ++ ot') ++ D ++ F) with ((h4 ++ od) ++ o2 ++ (ot' ++ D ++ F)) by (rewrite <- !app_assoc; reflexivity).
  replace (4 + i * 2) with (len (h4 ++ od)) by (rewrite len_app; lia).
  rewrite (put_seg (h4 ++ od) o2 (le16 outpos) _) by (rewrite len_le16; exact Lo2). cbn [bind].
  replace ((h4 ++ od) ++ le16 outpos ++ ot' ++ D ++ F) with ((h4 ++ od ++ le16 outpos ++ ot' ++ D) ++ F) by (rewrite <- !app_assoc; reflexivity).
  assert (Lpre : len (h4 ++ od ++ le16 outpos ++ ot' ++ D) = outpos).
  { rewrite !len_app, len_le16. subst outpos. lia. }
  pose proof (wread_tag_spec t x (h4 ++ od ++ le16 outpos ++ ot' ++ D) F (wt_c x ++ wcont0 x ter tail) Hte ltac:(lia)) as RT. rewrite Lpre in RT. rewrite RT. clear RT. cbn [bind].
  destruct (wcont0_nonws x ter tail) as [cc [rr [Ecc Hcc]]]. rewrite Ecc, (eat_ws_app (wt_c x) cc) by assumption. rewrite <- Ecc.
  destruct rest as [|t1 rest1].
  - assert (ter = []) by (inversion H2r; reflexivity). subst ter. cbn [wcont0 peek bind]. change (93 =? 93) with true. cbv iota.
    replace (i =? n - 1) with true by (symmetry; apply N.eqb_eq; unfold len in Hin; cbn [length] in Hin; lia).
    cbn [negb tl map concat sumN offsets]. rewrite !app_nil_r, N.add_0_r.
    assert (Eot'n : ot' = []) by (destruct ot'; [reflexivity|unfold len in Lot'; cbn [length] in Lot'; lia]). subst ot'.
    cbn [app]. rewrite <- !app_assoc. fold outpos. reflexivity.
  - destruct ter as [|x2 ter2]; [inversion H2r|]. assert (H2r0 : wtag_ok t1 x2 /\ Forall2 wtag_ok rest1 ter2) by (inversion H2r; split; assumption). destruct H2r0 as [Hx2 H2r2].
    cbn [wcont0 peek bind]. change (44 =? 93) with false. change (44 =? 44) with true. cbv iota. cbn [tl].
    rewrite (eat_ws_app (wt_n x) 91) by (try assumption; reflexivity). cbn [verify_char]. change (91 =? 91) with true. cbv iota. cbn [bind].
    replace (n <=? i + 1) with false by (symmetry; apply N.leb_gt; rewrite len_cons in Hin; lia).
    destruct Hx2 as (Hte2 & Wc2 & Wn2 & Wo2).
    assert (Hnw2 : exists c0 r0, wtags_text (x2 :: ter2) tail = c0 :: r0 /\ is_ws c0 = false) by (rewrite wtags_text_cons; apply wtag_text_nonws).
    destruct Hnw2 as [c0 [r0 [Ec0 Hc0]]]. rewrite Ec0, (eat_ws_app (wt_o x2) c0) by assumption. rewrite <- Ec0.
    replace ((h4 ++ od ++ le16 outpos ++ ot' ++ D) ++ enc_tag t ++ drop (tag_size t) F)
      with (h4 ++ (od ++ le16 outpos) ++ ot' ++ (D ++ enc_tag t) ++ drop (tag_size t) F) by (rewrite <- !app_assoc; reflexivity).
    replace (outpos + tag_size t) with (4 + 2 * n + len (D ++ enc_tag t)) by (subst outpos; rewrite len_app, len_enc_tag; lia).
    rewrite (IH (x2 :: ter2) fuel h4 (od ++ le16 outpos) ot' (D ++ enc_tag t) (drop (tag_size t) F) tail (i + 1) n H2r ltac:(discriminate)).
    + cbn [map concat sumN offsets]. rewrite drop_drop. rewrite !len_app, len_enc_tag. fold outpos.
      replace (4 + 2 * n + (len D + tag_size t)) with (outpos + tag_size t) by (subst outpos; lia).
      rewrite <- !app_assoc. f_equal. f_equal. lia.
    + cbn [length] in *. lia.
    + exact Lh.
    + rewrite len_app, len_le16. lia.
    + exact Lot'.
    + lia.
    + rewrite len_drop. cbn [map sumN] in *. lia.
Qed.

(* ---------- counting the tags (the skipping pass) ---------- *)
(* what follows the closing quote of a string: white space, then the end of the tag or a comma, white space and the next string *)
Fixpoint wcont_after (prev : wstr) (es : list wstr) (tail : bytes) : bytes :=
  ws_a prev ++ match es with [] => 93 :: tail | e :: r => 44 :: ws_b prev ++ 34 :: ws_e e ++ 34 :: wcont_after e r tail end.
Lemma wstrs_text_cont e er tail : wstrs_text (e :: er) tail = ws_e e ++ 34 :: wcont_after e er tail.
Proof.
  revert e; induction er as [|e1 r IH]; intros e; [reflexivity|].
  change (wstrs_text (e :: e1 :: r) tail) with (ws_e e ++ 34 :: ws_a e ++ 44 :: ws_b e ++ 34 :: wstrs_text (e1 :: r) tail).
  rewrite IH. reflexivity.
Qed.

Lemma wburn_tag_strings_spec ss : forall prev es fuel tail, wsb (ws_a prev) -> wsb (ws_b prev) ->
  Forall2 wstr_ok ss es -> (length ss < fuel)%nat ->
  burn_tag_strings fuel (eat_ws (wcont_after prev es tail)) = Ok tail.
Proof.
  induction ss as [|s rest IH]; intros prev es fuel tail Wa Wb H2 Hf; inversion H2 as [|? e ? er [[Hun Hbu] [Wa' Wb']] H2r]; subst;
    (destruct fuel as [|fuel]; [cbn [length] in Hf; lia|]); cbn [wcont_after].
  - rewrite (eat_ws_app (ws_a prev) 93) by (try assumption; reflexivity). cbn [burn_tag_strings peek bind].
    change (93 =? 44) with false. cbv iota. cbn [verify_char]. change (93 =? 93) with true. reflexivity.
  - rewrite (eat_ws_app (ws_a prev) 44) by (try assumption; reflexivity). cbn [burn_tag_strings peek bind].
    change (44 =? 44) with true. cbv iota. cbn [tl]. rewrite (eat_ws_app (ws_b prev) 34) by (try assumption; reflexivity).
    cbn [verify_char]. change (34 =? 34) with true. cbv iota. cbn [bind].
    rewrite (Hbu _). cbn [bind].
    apply (IH e er fuel tail Wa' Wb' H2r). cbn [length] in Hf. lia.
Qed.

Lemma wcont_after_length prev es tail : (length es <= length (wcont_after prev es tail))%nat.
Proof.
  revert prev; induction es as [|e r IH]; intros prev; cbn [wcont_after length]; [lia|].
  rewrite !app_length. cbn [length]. rewrite app_length. cbn [length]. rewrite app_length. cbn [length]. specialize (IH e). lia.
Qed.

(* burn_tag, entered right after the tag's opening bracket *)
Lemma wburn_tag_spec t x tail : wtag_ok t x -> burn_tag (wt_o x ++ wtag_text x tail) = Ok tail.
Proof.
  intros (H2 & Wc & Wn & Wo). unfold burn_tag.
  destruct (wtag_text_nonws x tail) as [c0 [r0 [E0 H0]]]. rewrite E0, (eat_ws_app (wt_o x) c0) by assumption. rewrite <- E0.
  unfold wtag_text in *. destruct t as [|s rest]; inversion H2 as [E|? e ? er [[Hun Hbu] [Wa Wb]] H2r E]; subst.
  - cbn [peek bind]. change (93 =? 93) with true. reflexivity.
  - cbn [peek bind]. change (34 =? 93) with false. cbv iota. cbn [verify_char]. change (34 =? 34) with true. cbv iota. cbn [bind].
    rewrite wstrs_text_cont, (Hbu _). cbn [bind].
    apply (wburn_tag_strings_spec rest e er _ tail Wa Wb H2r).
    apply F2_length in H2r. rewrite H2r. repeat (first [rewrite app_length | progress (cbn [length])]).
    pose proof (wcont_after_length e er tail). lia.
Qed.

Lemma wcount_tags_loop_spec ts : forall prev tes fuel tail count, wsb (wt_n prev) ->
  Forall2 wtag_ok ts tes -> (length ts < fuel)%nat ->
  count_tags_loop fuel (wcont0 prev tes tail) count = Ok (count + len ts).
Proof.
  induction ts as [|t rest IH]; intros prev tes fuel tail count Wn H2 Hf; inversion H2 as [|? x ? ter Hx H2r]; subst;
    (destruct fuel as [|fuel]; [cbn [length] in Hf; lia|]); cbn [wcont0 count_tags_loop peek bind].
  - change (93 =? 93) with true. cbv iota. f_equal. unfold len. cbn [length]. lia.
  - change (44 =? 93) with false. change (44 =? 44) with true. cbv iota. cbn [tl].
    rewrite (eat_ws_app (wt_n prev) 91) by (try assumption; reflexivity).
    cbn [verify_char]. change (91 =? 91) with true. cbv iota. cbn [bind].
    rewrite wtags_text_cons, (wburn_tag_spec t x _ Hx). cbn [bind].
    destruct Hx as (_ & Wc & Wn' & _).
    destruct (wcont0_nonws x ter tail) as [c0 [r0 [E0 H0]]]. rewrite E0, (eat_ws_app (wt_c x) c0) by assumption. rewrite <- E0.
    rewrite (IH x ter fuel tail (count + 1) Wn' H2r) by (cbn [length] in Hf; lia). f_equal. rewrite len_cons. lia.
Qed.

(* the text after the array's opening bracket: white space, then the closing bracket or the first tag's bracket *)
Definition wtags_body (w0 : bytes) (tes : list wtag) (tail : bytes) : bytes :=
  match tes with [] => w0 ++ 93 :: tail | x :: _ => w0 ++ 91 :: wt_o x ++ wtags_text tes tail end.
Definition wtags_body0 (tes : list wtag) (tail : bytes) : bytes :=      (* the same after the white space *)
  match tes with [] => 93 :: tail | x :: _ => 91 :: wt_o x ++ wtags_text tes tail end.

Lemma wcount_tags_spec ts tes tail : Forall2 wtag_ok ts tes -> count_tags (wtags_body0 tes tail) = Ok (len ts).
Proof.
  intros H2. unfold count_tags. destruct ts as [|t rest]; inversion H2 as [|? x ? ter Hx H2r]; subst.
  - cbn [wtags_body0 peek bind]. change (93 =? 93) with true. reflexivity.
  - cbn [wtags_body0 peek bind]. change (91 =? 93) with false. change (91 =? 91) with true. cbv iota. cbn [tl].
    rewrite wtags_text_cons, (wburn_tag_spec t x _ Hx). cbn [bind].
    pose proof Hx as (_ & Wc & Wn & _).
    destruct (wcont0_nonws x ter tail) as [c0 [r0 [E0 H0]]]. rewrite E0, (eat_ws_app (wt_c x) c0) by assumption. rewrite <- E0.
    rewrite (wcount_tags_loop_spec rest x ter _ tail 1 Wn H2r).
    + f_equal. rewrite len_cons. reflexivity.
    + apply F2_length in H2r. rewrite H2r. cbn [length]. rewrite app_length.
      pose proof (proj2 (wtag_text_length x (wt_c x ++ wcont0 x ter tail))) as Hl. rewrite app_length in Hl.
      assert (G : (length ter <= length (wcont0 x ter tail))%nat).
      { destruct ter as [|x2 r2]; cbn [wcont0 length]; [lia|]. rewrite app_length. cbn [length]. rewrite app_length.
        pose proof (proj1 (wtags_text_length (x2 :: r2) tail)). cbn [length] in *. lia. }
      lia.
Qed.

(* ---------- the tag array ---------- *)
Lemma wtags_body_eat w0 tes tail : wsb w0 -> eat_ws (wtags_body w0 tes tail) = wtags_body0 tes tail.
Proof.
  intros W. unfold wtags_body, wtags_body0. destruct tes; apply eat_ws_app; try assumption; reflexivity.
Qed.

Theorem wread_tags_array_spec ts w0 tes F tail : wsb w0 -> Forall2 wtag_ok ts tes -> tags_size ts <= len F -> fits_tags ts ->
  read_tags_array (91 :: wtags_body w0 tes tail) F = Ok (tail, enc_tags ts ++ drop (tags_size ts) F, tags_size ts).
Proof.
  intros W0 H2 Hcap Hfit. unfold read_tags_array. cbn [verify_char]. change (91 =? 91) with true. cbv iota. cbn [bind].
  rewrite (wtags_body_eat w0 tes tail W0).
  unfold tags_size, tags_hdr in Hcap.
  replace (len F <? 4) with false by (symmetry; apply N.ltb_ge; lia).
  rewrite (wcount_tags_spec ts tes tail H2). cbn [bind].
  destruct (split_free F 2 ltac:(lia)) as [EF L2]. remember (take 2 F) as h2 eqn:Eh2. remember (drop 2 F) as F1 eqn:EF1d. clear Eh2.
  assert (LF1 : len F1 = len F - 2) by (rewrite EF1d; apply len_drop).
  destruct (split_free F1 2 ltac:(lia)) as [EF1 Lc2]. remember (take 2 F1) as c2 eqn:Ec2. remember (drop 2 F1) as F2 eqn:EF2d. clear Ec2.
  assert (LF2 : len F2 = len F - 4) by (rewrite EF2d, len_drop; lia).
  assert (HF2 : F2 = drop 4 F) by (rewrite EF2d, EF1d, drop_drop; reflexivity).
  rewrite EF at 1. rewrite EF1 at 1.
  pose proof (put_seg h2 c2 (le16 (len ts)) F2 ltac:(rewrite len_le16; exact Lc2)) as P1. rewrite L2 in P1. rewrite P1. clear P1. cbn [bind].
  destruct ts as [|t rest].
  - assert (tes = []) by (inversion H2; reflexivity). subst tes. change (len (@nil (list bytes)) =? 0) with true. cbv iota.
    pose proof (put_seg [] h2 (le16 4) (le16 (len (@nil (list bytes))) ++ F2) ltac:(rewrite len_le16; exact L2)) as P2. change (len (@nil N)) with 0 in P2. cbn [app] in P2. rewrite P2. clear P2. cbn [bind].
    cbn [wtags_body0]. unfold burn_fuel. cbn [burn_array eat_ws_commas]. change (is_ws 93 || (93 =? 44)) with false. cbv iota.
    change (93 =? 93) with true. cbv iota.
    unfold enc_tags, tags_size, tags_hdr. cbn [map sumN concat offsets]. change (len (@nil (list bytes))) with 0. cbn [app].
    rewrite HF2. reflexivity.
  - replace (len (t :: rest) =? 0) with false by (symmetry; apply N.eqb_neq; rewrite len_cons; lia).
    inversion H2 as [|? x ? ter Hx H2r]. subst tes. cbn [wtags_body0 verify_char]. change (91 =? 91) with true. cbv iota. cbn [bind].
    pose proof Hx as (_ & _ & _ & Wo).
    assert (Hnw1 : exists c1 r1, wtags_text (x :: ter) tail = c1 :: r1 /\ is_ws c1 = false) by (rewrite wtags_text_cons; apply wtag_text_nonws).
    destruct Hnw1 as [c1 [r1 [E1 Hnw1]]]. rewrite E1, (eat_ws_app (wt_o x) c1) by assumption. rewrite <- E1.
    set (n := len (t :: rest)) in *.
    replace (len F <? 4 + n * 2) with false by (symmetry; apply N.ltb_ge; lia).
    destruct (split_free F2 (2 * n) ltac:(lia)) as [EF2 Lot]. remember (take (2 * n) F2) as ot eqn:Eot. remember (drop (2 * n) F2) as F3 eqn:EF3d. clear Eot.
    assert (LF3 : len F3 = len F - 4 - 2 * n) by (rewrite EF3d, len_drop; lia).
    replace (h2 ++ le16 n ++ F2) with ((h2 ++ le16 n) ++ [] ++ ot ++ [] ++ F3) by (cbn [app]; rewrite <- app_assoc, <- EF2; reflexivity).
    replace (4 + n * 2) with (4 + 2 * n + len (@nil N)) by (unfold len; cbn [length]; lia).
    rewrite (wread_tags_loop_spec (t :: rest) (x :: ter) _ (h2 ++ le16 n) [] ot [] F3 tail 0 n H2 ltac:(discriminate)).
    + cbn [bind app]. change (len (@nil N)) with 0. rewrite N.add_0_r.
      assert (Hsz : 4 + 2 * n + sumN (map tag_size (t :: rest)) = tags_size (t :: rest)) by (unfold tags_size, tags_hdr; subst n; lia).
      rewrite Hsz. unfold fits_tags in Hfit.
      replace (65535 <? tags_size (t :: rest)) with false by (symmetry; apply N.ltb_ge; lia).
      rewrite <- (app_assoc h2).
      match goal with |- context [put (h2 ++ ?R) 0 ?d] => pose proof (put_seg [] h2 d R ltac:(rewrite len_le16; exact L2)) as P3 end.
      change (len (@nil N)) with 0 in P3. cbn [app] in P3. rewrite P3. clear P3. cbn [bind].
      unfold enc_tags. rewrite offsets_hdr. fold n. rewrite <- !app_assoc.
      replace (drop (sumN (map tag_size (t :: rest))) F3) with (drop (tags_size (t :: rest)) F); [reflexivity|].
      rewrite EF3d, HF2, !drop_drop. f_equal. lia.
    + pose proof (proj1 (wtags_text_length (x :: ter) tail)) as Hl. apply F2_length in H2. unfold wtags_body. cbn [length] in *.
      rewrite app_length. cbn [length]. rewrite app_length. lia.
    + rewrite len_app, len_le16. lia.
    + reflexivity.
    + exact Lot.
    + subst n. lia.
    + lia.
Qed.

(* ---------- the relation the event theorems need of a tags text ---------- *)
(* [T tail] is the text after the array's opening bracket, up to and including the closing bracket, followed by [tail] *)
Definition tagsd (ts : atags) (T : bytes -> bytes) : Prop :=
  (forall F tail, tags_size ts <= len F -> fits_tags ts ->
     read_tags_array (91 :: T tail) F = Ok (tail, enc_tags ts ++ drop (tags_size ts) F, tags_size ts)) /\
  (forall tail, (length tail <= length (T tail))%nat).

Lemma tagsd_plain ts tes : Forall2 (Forall2 escd) ts tes -> tagsd ts (tags_body tes).
Proof.
  intros H2. split.
  - intros F tail Hc Hf. apply read_tags_array_spec; assumption.
  - intros tail. destruct tes as [|es r]; cbn [tags_body length]; [lia|].
    pose proof (tags_text_length (es :: r) tail). 
    assert (G : forall tes0 tl0, (length tl0 <= length (tags_text tes0 tl0))%nat).
    { induction tes0 as [|es0 r0 IH0]; intros tl0; cbn [tags_text]; [lia|].
      assert (GS : forall es1 tl1, (length tl1 <= length (strs_text es1 tl1))%nat).
      { induction es1 as [|e1 r1 IH1]; intros tl1; cbn [strs_text]; [lia|]. destruct r1.
        - rewrite app_length. cbn [length]. lia.
        - rewrite app_length. cbn [length]. specialize (IH1 tl1). lia. }
      assert (GT : forall es1 tl1, (length tl1 <= length (tag_text es1 tl1))%nat).
      { intros es1 tl1. destruct es1; cbn [tag_text length]; [lia|]. pose proof (GS (b :: es1) tl1). lia. }
      destruct r0 as [|es2 r2].
      - pose proof (GT es0 (93 :: tl0)). cbn [length] in *. lia.
      - pose proof (GT es0 (44 :: 91 :: tags_text (es2 :: r2) tl0)). specialize (IH0 tl0). cbn [length] in *. lia. }
    pose proof (G (es :: r) tail). lia.
Qed.

Theorem tagsd_ws ts w0 tes : wsb w0 -> Forall2 wtag_ok ts tes -> tagsd ts (wtags_body w0 tes).
Proof.
  intros W0 H2. split.
  - intros F tail Hc Hf. apply wread_tags_array_spec; assumption.
  - intros tail. unfold wtags_body. destruct tes as [|x r]; rewrite app_length; cbn [length]; [lia|].
    rewrite app_length. pose proof (proj2 (wtags_text_length (x :: r) tail)). lia.
Qed.
