"""Shared machinery of the check driver: token format, proof stage, builds, sharded runs of the
extracted model (runner) and of the implementation (harness), verdicts, evidence."""
import fcntl
import hashlib
import json
import os
import re
import subprocess
import sys
import time
from concurrent.futures import ThreadPoolExecutor

VERIF = os.path.dirname(os.path.dirname(os.path.abspath(__file__)))
COQ = os.path.join(VERIF, "coq")
CACHE = os.path.join(VERIF, ".cache")
TARGET = os.path.join(CACHE, "target")
RUNNER = os.path.join(VERIF, "runner")
HARNESS = os.path.join(VERIF, "harness")
EVID = os.path.join(VERIF, "evidence")
REPLAY = os.path.join(EVID, "replay")
NPROC = min(16, os.cpu_count() or 4)

ENV = dict(os.environ)
ENV.update({"CARGO_TARGET_DIR": TARGET, "CARGO_NET_OFFLINE": "true", "LC_ALL": "C"})

U64 = (1 << 64) - 1
U32 = (1 << 32) - 1


# ---------------------------------------------------------------- tokens
def tb(b):
    return "b:" + bytes(b).hex()


def tn(n):
    return "n:%d" % n


def tl(items):
    items = list(items)
    return " ".join(["L%d" % len(items)] + items)


def ttags(tags):
    return tl(tl(tb(s) for s in t) for t in tags)


def topt(n):
    return "none" if n is None else tn(n)


def t_event(e):
    return " ".join([tb(e["id"]), tb(e["pk"]), tb(e["sig"]), tn(e["kind"]), tn(e["created"]),
                     ttags(e["tags"]), tb(e["content"])])


def t_filter(f):
    return " ".join([tl(tb(i) for i in f["ids"]), tl(tb(a) for a in f["authors"]),
                     tl(tn(k) for k in f["kinds"]), ttags(f["tags"]),
                     topt(f.get("since")), topt(f.get("until")), topt(f.get("limit"))])


def kv(line):
    """parse 'cmd k=v k=v ...' where values may contain spaces up to the next ' key='"""
    out = {}
    parts = re.split(r" (?=[a-zA-Z_][a-zA-Z0-9_\-]*=)", line.strip())
    out["_cmd"] = parts[0]
    for p in parts[1:]:
        k, _, v = p.partition("=")
        out[k] = v
    return out


# ---------------------------------------------------------------- locking / subprocess
class Lock:
    def __init__(self, name):
        os.makedirs(CACHE, exist_ok=True)
        self.path = os.path.join(CACHE, name + ".lock")

    def __enter__(self):
        self.f = open(self.path, "w")
        fcntl.flock(self.f, fcntl.LOCK_EX)
        return self

    def __exit__(self, *a):
        fcntl.flock(self.f, fcntl.LOCK_UN)
        self.f.close()


def sh(cmd, cwd=None, timeout=3600, env=None, stdin=None):
    p = subprocess.run(cmd, cwd=cwd, env=env or ENV, stdout=subprocess.PIPE, stderr=subprocess.STDOUT,
                       timeout=timeout, input=stdin, shell=isinstance(cmd, str))
    return p.returncode, p.stdout.decode("utf-8", "replace")


# ---------------------------------------------------------------- proof stage
FORBIDDEN = re.compile(
    r"\b(Admitted|admit|Axiom|Axioms|Parameter|Parameters|Conjecture|Conjectures)\b|Admit Obligations|"
    r"Unset Guard Checking|bypass_check|Unset Positivity|Unset Universe Checking|type-in-type|impredicative-set")
AXIOM_ALLOW = set()  # target: every property theorem is closed under the global context


def strip_comments(src):
    out, depth, i = [], 0, 0
    while i < len(src):
        if src.startswith("(*", i):
            depth += 1
            i += 2
        elif src.startswith("*)", i) and depth:
            depth -= 1
            i += 2
        else:
            if depth == 0:
                out.append(src[i])
            i += 1
    return "".join(out)


def audit_sources():
    bad = []
    for root, _, files in os.walk(COQ):
        for fn in files:
            if fn.endswith(".v"):
                p = os.path.join(root, fn)
                src = strip_comments(open(p).read())
                for m in FORBIDDEN.finditer(src):
                    bad.append("%s: %s" % (os.path.relpath(p, VERIF), m.group(0)))
                # Variable/Hypothesis outside a section
                depth = 0
                for ln in src.split("\n"):
                    s = ln.strip()
                    if re.match(r"Section\b", s):
                        depth += 1
                    elif re.match(r"End\b", s) and depth:
                        depth -= 1
                    elif depth == 0 and re.match(r"(Variable|Variables|Hypothesis|Hypotheses|Context)\b", s):
                        bad.append("%s: %s outside a section" % (os.path.relpath(p, VERIF), s.split()[0]))
    proj = open(os.path.join(COQ, "_CoqProject")).read()
    for flag in ("-type-in-type", "-impredicative-set", "-bypass"):
        if flag in proj:
            bad.append("_CoqProject: " + flag)
    return bad


def ensure_makefile():
    mk = os.path.join(COQ, "Makefile")
    cp = os.path.join(COQ, "_CoqProject")
    if not os.path.exists(mk) or os.path.getmtime(mk) < os.path.getmtime(cp):
        sh(["coq_makefile", "-f", "_CoqProject", "-o", "Makefile"], cwd=COQ)


def proof_stage(prop, tier):
    """(re)compile props/Props_<prop>.v (its dependencies are cached .vo files rebuilt by make when
    stale); returns dict(ok, obligations, discharged, theorems, axioms, log, failed)"""
    rel = "props/Props_%s.v" % prop
    src_path = os.path.join(COQ, rel)
    src = strip_comments(open(src_path).read())
    theorems = re.findall(r"^\s*Theorem\s+([A-Za-z0-9_']+)", src, re.M)
    pins = set(re.findall(r"^\s*Check\s+([A-Za-z0-9_']+)\s*:", src, re.M))
    res = {"ok": False, "obligations": len(theorems), "discharged": 0, "theorems": theorems,
           "axioms": {}, "log": "", "failed": None, "checker_cmd":
           "make -C coq %so (coqc 8.16.1, full .vo) + Print Assumptions audit + source grep" % rel}
    bad = audit_sources()
    if bad:
        res["failed"] = "source-audit: " + "; ".join(bad[:5])
        return res
    missing_pin = [t for t in theorems if t not in pins]
    if missing_pin:
        res["failed"] = "unpinned theorem(s): " + ",".join(missing_pin)
        return res
    with Lock("coq"):
        ensure_makefile()
        vo = os.path.join(COQ, rel + "o")
        if os.path.exists(vo):
            os.remove(vo)
        rc, out = sh("timeout 1500 make -j%d %so" % (NPROC, rel), cwd=COQ, timeout=1600)
        if tier == "thorough" and rc == 0:
            rc2, out2 = sh("timeout 1200 coqchk -o -silent -Q theories Pocket -Q props PocketProps PocketProps.Props_%s" % prop,
                           cwd=COQ, timeout=1300)
            res["coqchk"] = out2[-1500:]
            if rc2 != 0:
                rc = rc2
                out += "\ncoqchk failed:\n" + out2
            else:
                # coqchk -o lists the axioms of the whole closure; anything listed must be allow-listed
                m = re.search(r"\* Axioms:\s*(.*?)(\n\s*\*|\Z)", out2, re.S)
                if m and "<none>" not in m.group(1):
                    names = [x.strip() for x in m.group(1).split("\n") if x.strip()]
                    extra = [x for x in names if x not in AXIOM_ALLOW]
                    if extra:
                        rc = 1
                        out += "\ncoqchk axioms not allow-listed: %s" % extra
    res["log"] = out[-4000:]
    if rc != 0:
        m = re.search(r'File "\./([^"]+)", line (\d+)', out)
        res["failed"] = "coq build failed" + (" at %s:%s" % (m.group(1), m.group(2)) if m else "")
        return res
    # Print Assumptions output: one block per theorem, in order
    blocks = re.findall(r"(Closed under the global context|Axioms:\n(?:.+\n?)+?)(?=\n\S|\Z)", out)
    closed = out.count("Closed under the global context")
    ax = re.findall(r"^Axioms:\n((?:[^\n]+\n?)+)", out, re.M)
    if ax:
        names = set()
        for blk in ax:
            for ln in blk.split("\n"):
                m = re.match(r"^([A-Za-z0-9_.']+)\s*:", ln)
                if m:
                    names.add(m.group(1))
        extra = [n for n in names if n not in AXIOM_ALLOW]
        res["axioms"] = sorted(names)
        if extra:
            res["failed"] = "assumptions outside the allow-list: " + ",".join(extra)
            return res
    if closed + len(ax) < len(theorems):
        res["failed"] = "Print Assumptions missing for some theorem (%d of %d)" % (closed + len(ax), len(theorems))
        return res
    res["ok"] = True
    res["discharged"] = len(theorems)
    return res


# ---------------------------------------------------------------- builds
def build_runner():
    """extract (make Extract.vo) and compile the OCaml runner"""
    with Lock("coq"):
        ensure_makefile()
        rc, out = sh("timeout 1500 make -j%d extract/Extract.vo" % NPROC, cwd=COQ, timeout=1600)
        if rc != 0:
            return False, out[-3000:]
    with Lock("runner"):
        exe = os.path.join(RUNNER, "runner.exe")
        srcs = [os.path.join(RUNNER, x) for x in ("model.ml", "model.mli", "main.ml")]
        if os.path.exists(exe) and all(os.path.getmtime(exe) >= os.path.getmtime(s) for s in srcs):
            return True, ""
        rc, out = sh("ocamlfind ocamlopt -w -a -inline 100 model.mli model.ml main.ml -o runner.exe",
                     cwd=RUNNER, timeout=900)
        return rc == 0, out[-3000:]


def build_harness(profiles=("debug",)):
    with Lock("cargo"):
        for prof in profiles:
            cmd = ["cargo", "build", "--offline", "--quiet"] + (["--release"] if prof == "release" else [])
            rc, out = sh(cmd, cwd=HARNESS, timeout=1800)
            if rc != 0:
                return False, out[-4000:]
    return True, ""


def harness_exe(profile="debug"):
    return os.path.join(TARGET, profile, "harness")


# ---------------------------------------------------------------- sharded execution
def run_lines(exe, lines, timeout=3600, shards=NPROC, env=None, args=()):
    """feed [lines] to [exe] (one result line per input line), sharded over processes"""
    if not lines:
        return []
    n = len(lines)
    shards = max(1, min(shards, (n + 199) // 200))
    chunks = [lines[i::shards] for i in range(shards)]

    def one(chunk):
        data = ("\n".join(chunk) + "\n").encode()
        try:
            # the extracted model may recurse deeply; the implementation runs with the default stack
            pre = 'ulimit -s unlimited 2>/dev/null; ' if exe.endswith("runner.exe") else 'ulimit -s 8192 2>/dev/null; '
            p = subprocess.run(["bash", "-c", pre + 'exec "$0" "$@"', exe] + list(args),
                               input=data, stdout=subprocess.PIPE, stderr=subprocess.PIPE,
                               timeout=timeout, env=env or ENV)
            outl = p.stdout.decode("utf-8", "replace").split("\n")
            if outl and outl[-1] == "":
                outl.pop()
            if len(outl) < len(chunk):
                # the process died (abort, stack overflow, kill) on the first unanswered case:
                # mark it and run the rest of the chunk in a fresh process
                died = "PROCESS-DIED rc=%s %s" % (p.returncode, p.stderr.decode("utf-8", "replace")[-200:].replace("\n", " "))
                rest = chunk[len(outl) + 1:]
                outl = outl + [died] + (one(rest) if rest else [])
            return outl[:len(chunk)]
        except subprocess.TimeoutExpired:
            return ["PROCESS-TIMEOUT"] * len(chunk)

    with ThreadPoolExecutor(max_workers=shards) as ex:
        outs = list(ex.map(one, chunks))
    res = [None] * n
    for s, o in enumerate(outs):
        for j, ln in enumerate(o):
            res[s + j * shards] = ln
    return res


# ---------------------------------------------------------------- known findings
def load_known(prop):
    path = os.path.join(VERIF, "known_findings.txt")
    out = {}
    if os.path.exists(path):
        for ln in open(path):
            ln = ln.strip()
            m = re.match(r"finding:\s+property=(\S+)\s+class=(\S+)\s*(.*)", ln)
            if m and m.group(1) == prop:
                out[m.group(2)] = m.group(3)
    return out


# ---------------------------------------------------------------- verdict / evidence
def write_replay(prop, payload):
    os.makedirs(REPLAY, exist_ok=True)
    blob = json.dumps(payload, sort_keys=True, indent=1)
    h = hashlib.sha256(blob.encode()).hexdigest()[:12]
    path = os.path.join(REPLAY, "%s-%s.case" % (prop, h))
    with open(path, "w") as f:
        f.write(blob + "\n")
    return os.path.relpath(path, VERIF)


def write_evidence(prop, tier, seed, coverage, assumptions, wall, violations):
    os.makedirs(EVID, exist_ok=True)
    ev = {"property_id": prop, "tier": tier, "seed": seed, "level": "proof", "coverage": coverage,
          "assumptions": assumptions, "wall_s": round(wall, 2), "violations": violations}
    tmp = os.path.join(EVID, ".%s.json.tmp" % prop)
    with open(tmp, "w") as f:
        json.dump(ev, f, indent=1, sort_keys=True)
        f.write("\n")
    os.replace(tmp, os.path.join(EVID, "%s.json" % prop))


BASE_TRUSTED = [
    "Coq 8.16.1 kernel (coqc; coqchk re-check in the thorough tier) incl. its vm_compute machine; native_compute not used",
    "axioms: none - every property theorem prints 'Closed under the global context' (checked on every run)",
    "hand-written Gallina model of the Rust code (coq/theories); tied to /repo only by the correspondence check of this run",
    "OCaml extraction with ExtrOcamlBasic only (bool/option/unit/prod/list/sumbool/sumor -> OCaml builtins; N/positive/nat extracted as inductives); ocamlfind ocamlopt 4.13.1; runner/main.ml (token parsing and printing only)",
    "Rust harness linked against /repo/pocket-types and /repo/pocket-db by path (rebuilt by cargo from the working tree), python3 driver and generators",
    "x86-64 little-endian (to_ne_bytes modelled as little-endian)",
]
