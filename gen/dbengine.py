"""Base of the db-history engines (C04, C05, C09-C12, C16-C18)."""
import os
import random
import re
import shutil

import common as C
from dbgen import HistGen
from dbjudge import judge_history
from engine import BaseEngine, Verdict


class DbEngine(BaseEngine):
    kind = "history"
    weights = {"new": 5, "addr": 3, "resubmit": 1, "delete": 2, "remove": 1, "vanish": 0.3, "giftwrap": 0.3,
               "reopen": 0.3, "rebuild": 0.2, "xput": 0.2, "query": 2, "qown": 1}
    aspects = set()
    quick = (150, 25)        # histories, ops per history
    thorough = (3000, 60)
    db_trusted = ["Db.v models the store over abstract events/filters (justified by the C06/C19 theorems) and LMDB as finite maps "
                  "iterated in memcmp key order with a 511-byte key limit; transactions as private table copies; "
                  "ADb.v is the abstract store the oracle uses; both are extracted and run on every history"]

    # compare the bytes of event.map with the byte-level model after every operation (C04, C16)
    with_map = False
    # every awkward tag shape x every way of taking an event out, then every access path (deterministic)
    ghost_sweep = False

    def generate(self, rng, tier):
        nh, nops = self.quick if tier == "quick" else self.thorough
        HistGen.WITH_MAP = self.with_map
        out = []
        for i in range(nh):
            sub = random.Random(rng.getrandbits(64))
            n = sub.choice([max(3, nops // 4), nops // 2, nops, nops])
            g = HistGen(sub, self.weights, n).run()
            out.append((self.hist_class(g), g.render()))
        if self.ghost_sweep:
            for shape in HistGen.GHOST_SHAPES:
                for how in HistGen.GHOST_HOWS:
                    sub = random.Random(rng.getrandbits(64))
                    g = HistGen(sub, {"new": 1, "addr": 1}, sub.choice([0, 2])).run()
                    g.g_ghost(shape=shape, how=how, every_query=True)
                    out.append(("ghost-sweep:%s" % how, g.render()))
        return out

    def hist_class(self, g):
        kinds = sorted(set(o[0] for o in g.ops))
        return "hist:" + "+".join(k[:3] for k in kinds)

    def execute(self, cases):
        rundir = os.path.join(C.CACHE, "run", "%s-%d" % (self.prop, os.getpid()))
        os.makedirs(rundir, exist_ok=True)
        env = dict(C.ENV)
        env["VERIF_RUN_DIR"] = rundir
        lines = [c[1] for c in cases]
        try:
            model_out = C.run_lines(os.path.join(C.RUNNER, "runner.exe"), ["noop" if self.skip_model(c[0]) else c[1] for c in cases])
            impl = {}
            for prof in self.profiles:
                impl[prof] = C.run_lines(C.harness_exe(prof), lines, env=env)
        finally:
            shutil.rmtree(rundir, ignore_errors=True)
        return model_out, impl

    def judge(self, gcls, line, model_out, impl_outs):
        v = None
        for prof in self.profiles:
            v = judge_history(line, model_out, impl_outs[prof], self.aspects, gcls)
            if not (v.oracle_ok and v.corr_ok):
                v.detail = "[%s] %s" % (prof, v.detail)
                return v
        return v

    def shrink(self, line, still_fails):
        """delta-debugging on the op list (obs ops follow their op)"""
        head, *rest = line.split(" ; ")
        ops = rest
        # group: (op, obs) pairs - rest[0] is the initial obs
        changed = True
        while changed and len(ops) > 2:
            changed = False
            i = 1
            while i < len(ops):
                j = i + 1
                while j < len(ops) and (ops[j].startswith("obs") or ops[j] == "map"):
                    j += 1
                cand = ops[:i] + ops[j:]
                cl = " ; ".join([head] + cand)
                if len(cand) >= 1 and still_fails(cl):
                    ops = cand
                    changed = True
                else:
                    i = j
        return " ; ".join([head] + ops)

    def run_cases(self, cases, seed):
        failures, dist, nontriv, samples = super().run_cases(cases, seed)
        # shrink the first oracle failure of each class
        done = set()
        for f in failures:
            kind, cls, payload = f
            if kind != "oracle" or cls in done or len(done) >= 2:
                continue
            done.add(cls)

            def still(cl, cls=cls):
                mo, io = self.execute([("shrink", cl)])
                v = self.judge("shrink", cl, mo[0], {p: io[p][0] for p in self.profiles})
                return (not v.oracle_ok) and v.cls == cls
            try:
                small = self.shrink(payload["case"], still)
                if small != payload["case"]:
                    mo, io = self.execute([("shrink", small)])
                    v = self.judge("shrink", small, mo[0], {p: io[p][0] for p in self.profiles})
                    payload.update({"case": small, "model": mo[0], "impl": {p: io[p][0] for p in self.profiles}, "oracle": v.detail,
                                    "shrunk": True})
            except Exception as ex:  # shrinking is best effort
                payload["shrink_error"] = repr(ex)
        return failures, dist, nontriv, samples

    # ---- arrival orders that only exist with several submitters (optional per engine) ----
    # an engine that sets `races` provides make_race(rng) -> ((class, conc-line), meta) and judge_race(meta, out) -> Verdict.
    # The cases run on one Store shared by real threads under the schedule controller of the verif hooks (every point a pause
    # point, seeded choice); the oracles are FINAL-STATE oracles that hold for every linearization, so they are sound whatever
    # the interleaving was.
    races = None

    @staticmethod
    def race_parse(out):
        """-> (responses {"t.k": text}, final id flags [..]) or None"""
        if not out.startswith('conc sched='):
            return None
        rs = re.search(r' resp=(.*?) final=', out)
        resp = {}
        for part in (rs.group(1).split(' ;; ') if rs and rs.group(1) else []):
            k, _, v = part.partition('=')
            resp[k] = v
        fin = re.search(r' final=(?:.*? \| )?ids=(\S*)', out)
        return resp, (fin.group(1).split(',') if fin and fin.group(1) else [])

    def race_precheck(self, out):
        if not out.startswith('conc sched='):
            return Verdict(oracle_ok=False, cls='concurrent-run-died', detail=out[:120], outcome='died')
        if re.search(r'sched=\S*(WATCHDOG|DEADLOCK)', out):
            return Verdict(corr_ok=False, cls='schedule-controller', detail='controller stuck', outcome='stuck')
        return None

    def run(self, rng, tier, seed):
        res = super().run(rng, tier, seed)
        if not self.races:
            return res
        rundir = os.path.join(C.CACHE, 'run', '%sc-%d' % (self.prop, os.getpid()))
        os.makedirs(rundir, exist_ok=True)
        env = dict(C.ENV)
        env['VERIF_RUN_DIR'] = rundir
        try:
            cases = [self.make_race(rng) for _ in range(self.races['quick' if tier == 'quick' else 'thorough'])]
            outs = C.run_lines(C.harness_exe('debug'), [c[0][1] for c in cases], env=env, shards=8)
        finally:
            shutil.rmtree(rundir, ignore_errors=True)
        dist = res['stats']['distribution']
        scheds = set()
        for ((gcls, line), meta), o in zip(cases, outs):
            try:
                v = self.race_precheck(o) or self.judge_race(meta, o)
            except Exception as ex:
                v = Verdict(corr_ok=False, cls='unparsable-output', detail=repr(ex), outcome='unparsable')
            key = '%s/%s' % (gcls, v.outcome)
            dist[key] = dist.get(key, 0) + 1
            m = re.search(r'sched=(\S*)', o)
            scheds.add(m.group(1) if m else line)
            payload = {'kind': 'schedule', 'seed': seed, 'case': line, 'class': gcls, 'impl': o[:4000], 'meta': meta}
            if not v.oracle_ok:
                payload['oracle'] = v.detail
                res['failures'].append(('oracle', v.cls, payload))
            elif not v.corr_ok:
                payload['correspondence'] = v.detail
                res['failures'].append(('corr', v.cls, payload))
        res['stats']['evaluations'] += len(cases)
        res['stats']['distinct_nontrivial'] += len(scheds)
        res['stats'].setdefault('extra', {})['multi_submitter_races'] = len(cases)
        res['failures'].sort(key=lambda f: (f[0] != 'oracle', len(f[2]['case'])))
        return res

    def replay(self, payload):
        if payload.get('kind') != 'schedule':
            return super().replay(payload)
        rundir = os.path.join(C.CACHE, 'run', '%sr-%d' % (self.prop, os.getpid()))
        os.makedirs(rundir, exist_ok=True)
        env = dict(C.ENV)
        env['VERIF_RUN_DIR'] = rundir
        C.build_harness(self.profiles)
        out = C.run_lines(C.harness_exe('debug'), [payload['case']], env=env)
        shutil.rmtree(rundir, ignore_errors=True)
        v = self.race_precheck(out[0]) or self.judge_race(payload.get('meta', {}), out[0])
        print('case: %s' % payload['case'][:1500])
        print('impl (this run; the schedule is re-derived from the same seed): %s' % out[0][:3000])
        print('oracle: %s %s' % ('ok' if v.oracle_ok else 'FAILS', v.detail))
        return 0 if (v.oracle_ok and v.corr_ok) else 1

    @staticmethod
    def race_line(sub, g, setup, progs, obs_ids, after=()):
        """[after]: operations executed one after the other once every thread has returned, before the final observation"""
        obs = ''.join(o + ' ; ' for o in after) + 'obs %s L0' % C.tl([C.tb(i) for i in obs_ids])
        names = C.tl(C.tb(n) for n in g.names)
        return 'conc %s %s %s ; S %s%s ; F ; %s' % (names, C.tn(sub.getrandbits(40)), C.tn(sub.choice([50, 150, 300, 600])),
                                                   ''.join(' ; ' + o for o in setup), ''.join(' ; T' + ''.join(' ; ' + o for o in p) for p in progs), obs)
