"""Generator of operation histories for the db engine (shared by C04, C05, C09-C12, C16-C18).

A history is a list of ops over a small adversarial universe; every random choice comes from
the one `rng` handed in, so a history is reproducible from (seed, index).  After every op an
`obs` op dumps everything observable about every id and address mentioned so far."""
import hashlib
import time

import common as C

AUTHORS = [bytes([0xA1]) * 32, bytes([0xA2]) * 32, bytes([0xB3]) * 32, bytes(31) + b"\x01"]
KINDS = [0, 1, 3, 5, 7, 1059, 9999, 10000, 19999, 20000, 29999, 30000, 39999, 40000, 65535]
RKINDS = [0, 3, 10000, 19999]
PKINDS = [30000, 39999]
TIMES = [100, 200, 300, 400, 500, 600, 700, 800, 900, 1000]
XTIMES = [0, 1, C.U64, C.U64 - 1]
LONG = b"L" * 182
DVALS = [b"", b"x", b"x\x00", b"x\x00\x00", b"y", LONG[:181], LONG, LONG + b"1", LONG + b"2", LONG + b"1" * 18,
         b"Z" * 476, b"Z" * 477, b"0123456789abcdef" * 4, "dé".encode()]
TVALS = [b"", b"a", b"b", b"c", b"a\x00", LONG, LONG + b"q", "𝄞".encode()]
LETTERS = [b"t", b"e", b"p", b"d", b"a", b"T"]
SIG = bytes([7]) * 64
NOW_GAP = 10 ** 7


def fake_id(e):
    h = hashlib.sha256()
    h.update(e["pk"] + e["kind"].to_bytes(2, "big") + e["created"].to_bytes(8, "big") + e["content"])
    for t in e["tags"]:
        h.update(b"\x01" + b"\x02".join(t))
    return h.digest()


def addr_str(kind, author, d):
    return str(kind).encode() + b":" + author.hex().encode() + b":" + d


class HistGen:
    def __init__(self, rng, weights, nops, extra_names=(b"xt",)):
        self.r = rng
        self.w = weights
        self.nops = nops
        self.names = list(extra_names)
        self.ops = []
        self.events = []        # every event ever submitted (dict)
        self.ids = []           # every id ever mentioned
        self.addrs = []         # every (kind, author, d) ever mentioned
        self.special_ids = [bytes(32), b"\xff" * 32]
        self.now = int(time.time())

    # ---- bookkeeping
    def note_id(self, i):
        if i not in self.ids:
            self.ids.append(i)

    def note_addr(self, k, a, d):
        if (k, a, d) not in self.addrs and len(self.addrs) < 14:
            self.addrs.append((k, a, d))

    def note_event(self, e):
        self.note_id(e["id"])
        if e["kind"] in RKINDS or 10000 <= e["kind"] < 20000:
            self.note_addr(e["kind"], e["pk"], b"")
        if 30000 <= e["kind"] < 40000:
            for t in e["tags"]:
                if len(t) >= 1 and t[0] == b"d":
                    if len(t) >= 2:
                        self.note_addr(e["kind"], e["pk"], t[1])
                    break

    # ---- events
    def rtime(self):
        return self.r.choice(TIMES * 6 + XTIMES)

    def rtags(self, kind):
        r = self.r
        tags = []
        if 30000 <= kind < 40000 and r.random() < 0.9:
            tags.append([b"d", r.choice(DVALS)] + ([b"extra"] if r.random() < 0.1 else []))
        for _ in range(r.choice([0, 0, 1, 1, 2, 3])):
            name = r.choice(LETTERS + [b"tt", b"client"])
            k = r.choice([0, 1, 1, 1, 2])
            tags.append([name] + [r.choice(TVALS) for _ in range(k)])
        if r.random() < 0.1 and tags:
            tags.append(list(r.choice(tags)))       # repeated tag
        if r.random() < 0.08:
            tags.insert(r.randrange(len(tags) + 1), [])     # an empty tag, anywhere (also BEFORE indexed tags)
        if r.random() < 0.04:
            tags.insert(r.randrange(len(tags) + 1), [r.choice(LETTERS)])   # a name without a value
        if 30000 <= kind < 40000 and r.random() < 0.15:
            tags.append([b"d", r.choice(DVALS)])    # a second d tag (not the address)
        r.shuffle(tags) if r.random() < 0.2 else None
        return tags

    def new_event(self, kind=None, pk=None, created=None, tags=None):
        r = self.r
        kind = r.choice(KINDS) if kind is None else kind
        e = {"pk": pk or r.choice(AUTHORS), "sig": SIG, "kind": kind,
             "created": self.rtime() if created is None else created,
             "tags": self.rtags(kind) if tags is None else tags,
             "content": r.choice([b"", b"c", b"hello world", b"z" * r.choice([10, 300, 1500, 2040, 2047, 2048, 4200])])}
        e["id"] = fake_id(e)
        if self.special_ids and r.random() < 0.04:
            e["id"] = self.special_ids.pop()
        self.events.append(e)
        self.note_event(e)
        return e

    def op_store(self, e):
        self.ops.append(("store", e))

    # ---- op generators
    def g_store_new(self):
        self.op_store(self.new_event())

    def g_store_addr(self):
        """an event at the address of an existing replaceable event, in some time relation"""
        r = self.r
        olds = [e for e in self.events if e["kind"] in RKINDS + PKINDS]
        if not olds or r.random() < 0.3:
            k = r.choice(RKINDS + PKINDS)
            self.op_store(self.new_event(kind=k))
            return
        o = r.choice(olds)
        rel = r.choice(["older", "newer", "equal", "neighbour-d", "neighbour-author", "neighbour-kind", "second-d"])
        if o["kind"] in PKINDS and r.random() < 0.25:
            rel = "second-d"
        created = {"older": max(0, o["created"] - r.choice([1, 100])), "newer": min(C.U64, o["created"] + r.choice([1, 100])),
                   "equal": o["created"]}.get(rel, self.rtime())
        tags = [list(t) for t in o["tags"]]
        pk, kind = o["pk"], o["kind"]
        if rel == "neighbour-d" and kind in PKINDS:
            tags = [[b"d", r.choice(DVALS)]]
        elif rel == "second-d" and kind in PKINDS:
            # another address of the same (author, kind) that ALSO carries the old event's d value as a later d tag:
            # it matches a #d filter for that value without being at that address
            od = [t[1] for t in o["tags"] if len(t) >= 2 and t[0] == b"d"][:1] or [r.choice(DVALS)]
            tags = [[b"d", r.choice([d for d in DVALS if d != od[0]] or DVALS)], [b"d", od[0]]] + [list(t) for t in o["tags"] if t[:1] != [b"d"]][:1]
        elif rel == "neighbour-author":
            pk = r.choice(AUTHORS)
        elif rel == "neighbour-kind":
            kind = r.choice(RKINDS if kind in RKINDS else PKINDS)
        e = self.new_event(kind=kind, pk=pk, created=created, tags=tags)
        self.op_store(e)

    def g_store_resubmit(self):
        if self.events:
            e = self.r.choice(self.events)
            self.op_store(e)
        else:
            self.g_store_new()

    def g_delete(self):
        """a kind-5 deletion request mixing own / foreign / absent / malformed targets"""
        r = self.r
        pk = r.choice(AUTHORS)
        tags = []
        for _ in range(r.choice([1, 1, 2, 3, 5])):
            c = r.random()
            own = [e for e in self.events if e["pk"] == pk]
            foreign = [e for e in self.events if e["pk"] != pk]
            if c < 0.3 and own:
                tags.append([b"e", r.choice(own)["id"].hex().encode()])
            elif c < 0.42 and foreign:
                tags.append([b"e", r.choice(foreign)["id"].hex().encode()])
            elif c < 0.5:
                absent = hashlib.sha256(b"absent%d" % r.randrange(4)).digest()
                self.note_id(absent)
                tags.append([b"e", absent.hex().encode()])
            elif c < 0.55:
                tags.append([b"e", r.choice([b"zz" * 32, b"ab", b"", "é".encode() * 32, (b"AB" * 32)])])
            elif c < 0.58:
                tags.append([b"e"])
            elif c < 0.85:
                # an address
                cand = [a for a in self.addrs if (a[1] == pk) == (r.random() < 0.8)]
                if cand and r.random() < 0.8:
                    k, a, d = r.choice(cand)
                else:
                    k, a, d = r.choice(RKINDS + PKINDS + [1]), r.choice([pk, pk, r.choice(AUTHORS)]), r.choice(DVALS)
                if r.random() < 0.1:
                    d = r.choice(DVALS)          # e.g. a junk d on a non-parameterized kind
                self.note_addr(k, a, d)
                tags.append([b"a", addr_str(k, a, d)] + ([b"wss://x"] if r.random() < 0.1 else []))
            elif c < 0.9:
                tags.append([b"a", r.choice([b"", b"1", b"30000:zz:x", b"x:" + pk.hex().encode() + b":", b"70000:" + pk.hex().encode() + b":",
                                             b"+30000:" + pk.hex().encode() + b":x", b"30000:" + pk.hex().encode(),
                                             b"-1:" + pk.hex().encode() + b":"])])
            else:
                tags.append([r.choice([b"p", b"t", b"ee"]), b"v"])
        if r.random() < 0.3:
            # NIP-09 `k` tags (the kinds of the named events): right, wrong, malformed - they must not change what is deleted
            for _ in range(r.choice([1, 1, 2])):
                tags.insert(r.randrange(len(tags) + 1), [b"k", r.choice([b"1", b"7", b"5", b"30023", b"10000", b"x", b"", b"65536"])])
        e = self.new_event(kind=5, pk=pk, tags=tags)
        self.op_store(e)

    def g_remove(self):
        r = self.r
        if self.ids and r.random() < 0.85:
            self.ops.append(("remove", r.choice(self.ids)))
        else:
            x = hashlib.sha256(b"never").digest()
            self.note_id(x)
            self.ops.append(("remove", x))

    def g_vanish(self):
        self.ops.append(("vanish", self.r.choice(AUTHORS)))

    def g_giftwrap(self):
        r = self.r
        target = r.choice(AUTHORS)
        hx = target.hex().encode()
        shape = r.choice(["first", "second-tag", "later-value", "upper", "other-kind", "none", "nul-suffix", "nul-suffix2", "long-suffix"])
        tags = {"first": [[b"p", hx]], "second-tag": [[b"p", r.choice(AUTHORS).hex().encode()], [b"p", hx]],
                "later-value": [[b"p", b"zz", hx]], "upper": [[b"p", hx.upper()]], "other-kind": [[b"p", hx]],
                "none": [[b"e", hx]],
                # values that only collide with hex(pk) after the index pads/cuts them to 182 bytes
                "nul-suffix": [[b"p", hx + b"\x00"]], "nul-suffix2": [[b"p", hx + b"\x00" * 5]],
                "long-suffix": [[b"p", hx + b"\x00" * 118 + b"tail"]]}[shape]
        kind = 1 if shape == "other-kind" else 1059
        self.op_store(self.new_event(kind=kind, tags=tags))

    def g_ghost(self, shape=None, how=None, every_query=False):
        """store an event with an awkward tag list, take it out again in one of the ways the store offers, then ask for it
        through every access path: a removed event that an index still serves is a ghost"""
        r = self.r
        letter, val = r.choice([b"t", b"e", b"p", b"T"]), r.choice(TVALS[1:4])
        shape = shape or r.choice(self.GHOST_SHAPES)
        tags = {"empty-first": [[], [letter, val]], "empty-mid": [[b"t", b"zz"], [], [letter, val]],
                "nameless-value": [[b"", b"x"], [letter, val]], "valueless-first": [[letter], [letter, val]],
                "repeat": [[letter, val], [letter, val]], "long-name-first": [[b"client", b"x"], [letter, val]],
                "plain": [[letter, val]]}[shape]
        how = how or r.choice(["remove", "delete", "replace", "vanish", "remove"])
        kind = r.choice(RKINDS + PKINDS) if how == "replace" else r.choice([1, 1, 7, 1059])
        if kind in PKINDS:
            tags = [[b"d", b"gh"]] + tags
        pk = r.choice(AUTHORS)
        e = self.new_event(kind=kind, pk=pk, created=r.choice([1000, 2000]), tags=tags)
        self.op_store(e)
        if how == "remove":
            self.ops.append(("remove", e["id"]))
        elif how == "delete":
            self.op_store(self.new_event(kind=5, pk=pk, created=3000, tags=[[b"e", e["id"].hex().encode()]]))
        elif how == "replace":
            self.op_store(self.new_event(kind=kind, pk=pk, created=e["created"] + 5, tags=[t for t in tags if t[:1] == [b"d"]] + [[b"q", b"new"]]))
        else:
            self.ops.append(("vanish", pk))
        base = {"ids": [], "authors": [], "kinds": [], "tags": [], "since": None, "until": None, "limit": None}
        for sh in ({"tags": [[letter, val]]}, {"tags": [[letter, val]], "authors": [pk]}, {"tags": [[letter, val]], "kinds": [kind]},
                   {"authors": [pk], "kinds": [kind]}, {"authors": [pk]}, {"ids": [e["id"]]}, {"since": e["created"], "until": e["created"]}):
            if every_query or r.random() < 0.7:
                f = dict(base)
                f.update(sh)
                self.ops.append(("query", f, [], 1, 0, 0, self.now))

    def g_expired(self):
        """an event carrying a NIP-40 expiration tag in the past (the store does not interpret it: the event is stored and
        retrievable like any other), then another author's deletion request naming it, then a lookup"""
        r = self.r
        a, b = r.sample(AUTHORS, 2)
        kind = r.choice([1, 1, 7, 30023])
        tags = [[b"expiration", r.choice([b"1", b"1000", b"1700000000", b"0"])]]
        if kind == 30023:
            tags = [[b"d", b"exp"]] + tags
        if r.random() < 0.3:
            tags.append([b"t", b"x"])
        v = self.new_event(kind=kind, pk=a, created=r.choice([500, 1000, 2000]), tags=tags)
        self.op_store(v)
        dt = [[b"e", v["id"].hex().encode()]]
        if r.random() < 0.3:
            dt.insert(r.randrange(2), [b"e", b"00" * 32])
        self.op_store(self.new_event(kind=5, pk=b, created=3000, tags=dt))
        base = {"ids": [v["id"]], "authors": [], "kinds": [], "tags": [], "since": None, "until": None, "limit": None}
        self.ops.append(("query", base, [], 1, 0, 0, self.now))

    GHOST_SHAPES = ["empty-first", "empty-mid", "nameless-value", "valueless-first", "repeat", "long-name-first", "plain"]
    GHOST_HOWS = ["remove", "delete", "replace", "vanish"]

    def g_reopen(self):
        self.ops.append(("reopen",))

    def g_rebuild(self):
        self.ops.append(("rebuild",))

    def g_xput(self):
        r = self.r
        self.ops.append(("xput", r.choice(self.names + [b"nosuch"]), r.choice([b"k1", b"k2", b"\x00", b"k" * 100]),
                         r.choice([b"", b"v1", b"v2" * 50])))

    def g_query(self):
        r = self.r
        f = {"ids": [], "authors": [], "kinds": [], "tags": [], "since": None, "until": None, "limit": None}
        base = r.choice(self.events) if self.events and r.random() < 0.85 else None
        shape = r.choice(["ids", "authors", "ak", "at", "kt", "t", "scrape", "kinds", "mixed", "mixed", "akt", "akt", "akd", "mvl", "mvl"])
        if shape == "mvl":
            # several values of one tag letter, each carried by stored events, and a limit BELOW the number of matches:
            # the newest `limit` over ALL the values must be returned, whichever index (kind+tag / author+tag / tag) serves it
            groups = {}
            for e in self.events:
                for t in e["tags"]:
                    if len(t) >= 2 and len(t[0]) == 1:
                        groups.setdefault(t[0], {}).setdefault(t[1], []).append(e)
            cands = [(L, vs) for L, vs in groups.items() if len(vs) >= 2 and sum(len(x) for x in vs.values()) >= 3]
            if cands:
                L, vs = r.choice(cands)
                vals = list(vs)
                r.shuffle(vals)
                vals = vals[:r.choice([2, 2, 3, 4])]
                evs = {e["id"]: e for v in vals for e in vs[v]}
                plan = r.choice(["kt", "kt", "at", "t"])
                if plan == "kt":
                    f["kinds"] = sorted({e["kind"] for e in evs.values()})[:r.choice([1, 2, 4])]
                elif plan == "at":
                    f["authors"] = sorted({e["pk"] for e in evs.values()})[:r.choice([1, 2, 4])]
                f["tags"] = [[L] + vals]
                f["limit"] = r.choice([2, 2, 3, max(2, len(evs) - 1)])
                self.ops.append(("query", f, [], 1, 100, 10 ** 6, self.now))
                return
            shape = "kt"
        if shape == "akd":
            # one author, one parameterized-replaceable kind, ONE d value carried by several of their events
            # (as the address of one, as a later d tag of others): all of them qualify
            groups = {}
            for e in self.events:
                if e["kind"] in PKINDS:
                    for v in set(t[1] for t in e["tags"] if len(t) >= 2 and t[0] == b"d"):
                        groups.setdefault((e["pk"], e["kind"], v), []).append(e)
            multi = [k for k, v in groups.items() if len(v) >= 2] or list(groups)
            if multi:
                pk, kind, v = r.choice(multi)
                f["authors"], f["kinds"], f["tags"] = [pk], [kind], [[b"d", v]]
                f["limit"] = r.choice([None, None, 2, 3, 10])
                self.ops.append(("query", f, [], 1, 100, 10 ** 6, self.now))
                return
            shape = "akt"
        if shape == "akt":
            # authors + kinds + tag constraint (served by the author-kind plan; the tag constraint only filters):
            # all events of one (author, kind), constrained by the tag values several of them carry
            pool = [e for e in self.events if any(len(t) >= 2 and len(t[0]) == 1 for t in e["tags"])]
            if pool:
                base = r.choice(pool)
                same = [e for e in self.events if e["pk"] == base["pk"] and e["kind"] == base["kind"]]
                letters = [t[0] for t in base["tags"] if len(t) >= 2 and len(t[0]) == 1]
                letter = b"d" if b"d" in letters and r.random() < 0.6 else r.choice(letters)
                vals = []
                for e in same:
                    for t in e["tags"]:
                        if len(t) >= 2 and t[0] == letter and t[1] not in vals:
                            vals.append(t[1])
                r.shuffle(vals)
                f["authors"] = [base["pk"]] + ([r.choice(AUTHORS)] if r.random() < 0.3 else [])
                f["kinds"] = [base["kind"]] + ([r.choice(KINDS)] if r.random() < 0.3 else [])
                f["tags"] = [[letter] + vals[:r.choice([1, 2, 3, 5])]]
            else:
                shape = "ak"
        pick = lambda pool, own, n: ([own] if own is not None and r.random() < 0.8 else []) + [r.choice(pool) for _ in range(r.choice([0, 0, 1, n]))]
        if shape in ("ids", "mixed") and (shape == "ids" or r.random() < 0.3):
            f["ids"] = pick(self.ids or [bytes(32)], base["id"] if base else None, 3)
            r.shuffle(f["ids"])
        if shape in ("authors", "ak", "at") or (shape == "mixed" and r.random() < 0.5):
            f["authors"] = pick(AUTHORS, base["pk"] if base else None, 2)
        if shape in ("ak", "kt", "kinds") or (shape == "mixed" and r.random() < 0.5):
            f["kinds"] = pick(KINDS, base["kind"] if base else None, 2)
        if shape in ("at", "kt", "t") or (shape == "mixed" and r.random() < 0.5):
            letters = r.sample(LETTERS, r.choice([1, 1, 2]))
            for L in letters:
                vals = []
                if base:
                    for t in base["tags"]:
                        if len(t) >= 2 and t[0] == L and r.random() < 0.8:
                            vals.append(t[1])
                vals += [r.choice(TVALS + DVALS[:6]) for _ in range(r.choice([0, 1, 2]))]
                r.shuffle(vals)
                f["tags"].append([L] + vals)
        if shape in ("ak", "at") and not f["authors"]:
            f["authors"] = [r.choice(AUTHORS)]
        w = r.random()
        if w < 0.35:
            ts = sorted([self.rtime(), self.rtime()])
            f["since"], f["until"] = ts[0], ts[1]
        elif w < 0.45:
            t = base["created"] if base else self.rtime()
            f["since"], f["until"] = t, t
        elif w < 0.5:
            f["since"], f["until"] = 600, 300                      # inverted
        elif w < 0.55:
            f["since"] = self.now + NOW_GAP                        # future
        elif w < 0.6:
            f["since"] = r.choice([0, C.U64])
            f["until"] = r.choice([None, 0, C.U64])
        elif w < 0.65:
            f["until"] = self.rtime()
        f["limit"] = r.choice([None, None, 0, 1, 1, 2, 3, 5, C.U32])
        screen = []
        if r.random() < 0.4:
            for i in r.sample(self.ids, min(len(self.ids), r.choice([1, 2, 4]))):
                screen.append((i, r.choice([1, 2, 2])))
        allow = r.choice([1, 1, 1, 0])
        lim = r.choice([0, 1, 3, 100])
        secs = r.choice([0, 50, 500, 10 ** 6])
        self.ops.append(("query", f, screen, allow, lim, secs, self.now))

    def g_query_own(self):
        """own-field filters of one stored event (C17)"""
        r = self.r
        if not self.events:
            return self.g_query()
        e = r.choice(self.events)
        shapes = [{"ids": [e["id"]]}, {"authors": [e["pk"]]}, {"authors": [e["pk"]], "kinds": [e["kind"]]},
                  {"since": e["created"], "until": e["created"]}, {"kinds": [e["kind"]]}]
        for t in e["tags"]:
            if len(t) >= 2 and len(t[0]) == 1:
                shapes += [{"tags": [[t[0], t[1]]]}, {"tags": [[t[0], t[1]]], "authors": [e["pk"]]},
                           {"tags": [[t[0], t[1]]], "kinds": [e["kind"]]}]
        sh = r.choice(shapes)
        f = {"ids": [], "authors": [], "kinds": [], "tags": [], "since": None, "until": None, "limit": None}
        f.update(sh)
        if r.random() < 0.3 and f["since"] is None:
            f["since"] = max(0, e["created"] - r.choice([0, 1, 50]))
            f["until"] = min(C.U64, e["created"] + r.choice([0, 1, 50]))
        self.ops.append(("query", f, [], 1, 0, 0, self.now))

    GENS = {"new": g_store_new, "addr": g_store_addr, "resubmit": g_store_resubmit, "delete": g_delete,
            "remove": g_remove, "vanish": g_vanish, "expired": g_expired, "giftwrap": g_giftwrap, "reopen": g_reopen, "rebuild": g_rebuild,
            "xput": g_xput, "query": g_query, "qown": g_query_own, "ghost": g_ghost}

    def run(self):
        names = list(self.w)
        weights = [self.w[n] for n in names]
        for _ in range(self.nops):
            g = self.r.choices(names, weights)[0]
            self.GENS[g](self)
        return self

    # ---- rendering
    def render_op(self, op):
        k = op[0]
        if k == "store":
            return "store " + C.t_event(op[1])
        if k == "remove":
            return "remove " + C.tb(op[1])
        if k == "vanish":
            return "vanish " + C.tb(op[1])
        if k in ("reopen", "rebuild", "map"):
            return k
        if k == "xput":
            return "xput %s %s %s" % (C.tb(op[1]), C.tb(op[2]), C.tb(op[3]))
        if k == "query":
            _, f, screen, allow, lim, secs, now = op
            return "query %s %s %s %s %s %s" % (C.t_filter(f), C.tl("%s %s" % (C.tb(i), C.tn(o)) for i, o in screen),
                                                C.tn(allow), C.tn(lim), C.tn(secs), C.tn(now))
        raise ValueError(k)

    # engines that compare the bytes of the event map file with the byte-level model (LogBytes.v) set this
    WITH_MAP = False

    def render(self, obs_every=1):
        """the dbhist line; ids/addrs in each obs are those mentioned up to that point (we use the
        final universe throughout: unknown ids simply observe as absent)"""
        obs = "obs %s %s" % (C.tl(C.tb(i) for i in self.ids),
                             C.tl("%s %s %s" % (C.tn(k), C.tb(a), C.tb(d)) for k, a, d in self.addrs))
        parts = ["dbhist " + C.tl(C.tb(n) for n in self.names), "; " + obs]
        for n, op in enumerate(self.ops):
            parts.append("; " + self.render_op(op))
            if (n + 1) % obs_every == 0 or n == len(self.ops) - 1:
                parts.append("; " + obs)
                if self.WITH_MAP:
                    parts.append("; map")
        return " ".join(parts)
