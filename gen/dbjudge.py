"""Judging one db history: correspondence (implementation vs concrete model, per aspect) and the
oracle (implementation vs the abstract specification ADb.v + facts computed here in python)."""
import re

import common as C
from engine import Verdict

# ------------------------------------------------------------------ parsing the case line


class P:
    def __init__(self, toks):
        self.t, self.i = toks, 0

    def nxt(self):
        x = self.t[self.i]
        self.i += 1
        return x

    def b(self):
        return bytes.fromhex(self.nxt()[2:])

    def n(self):
        return int(self.nxt()[2:])

    def lst(self, f):
        k = int(self.nxt()[1:])
        return [f() for _ in range(k)]

    def opt(self):
        if self.t[self.i] == "none":
            self.i += 1
            return None
        return self.n()

    def tags(self):
        return self.lst(lambda: self.lst(self.b))

    def event(self):
        return {"id": self.b(), "pk": self.b(), "sig": self.b(), "kind": self.n(), "created": self.n(),
                "tags": self.tags(), "content": self.b()}

    def filter(self):
        return {"ids": self.lst(self.b), "authors": self.lst(self.b), "kinds": self.lst(self.n), "tags": self.tags(),
                "since": self.opt(), "until": self.opt(), "limit": self.opt()}


def parse_hist(line):
    p = P(line.split(" "))
    assert p.nxt() == "dbhist"
    names = p.lst(p.b)
    ops = []
    while p.i < len(p.t):
        assert p.nxt() == ";"
        k = p.nxt()
        if k == "store":
            ops.append(("store", p.event()))
        elif k == "remove":
            ops.append(("remove", p.b()))
        elif k == "vanish":
            ops.append(("vanish", p.b()))
        elif k in ("reopen", "rebuild", "map"):
            ops.append((k,))
        elif k == "xput":
            ops.append(("xput", p.b(), p.b(), p.b()))
        elif k == "query":
            f = p.filter()
            screen = p.lst(lambda: (p.b(), p.n()))
            ops.append(("query", f, screen, p.n(), p.n(), p.n(), p.n()))
        elif k == "obs":
            ids = p.lst(p.b)
            addrs = p.lst(lambda: (p.n(), p.b(), p.b()))
            ops.append(("obs", ids, addrs))
        else:
            raise ValueError("op " + k)
    return names, ops


# ------------------------------------------------------------------ segments -> aspects
def parse_obs(seg):
    d = {}
    for m in re.finditer(r"(ids|addrs|stats|offs|extra|live|delids|deladdrs)=(\S*)", seg):
        d[m.group(1)] = m.group(2)
    out = {}
    if "ids" in d:
        items = d["ids"].split(",") if d["ids"] else []
        out["ids.has"] = [x[0] for x in items]
        out["ids.del"] = [x[1] for x in items]
        out["ids.hash"] = [x[3:] for x in items]
    if "addrs" in d:
        items = d["addrs"].split(",") if d["addrs"] else []
        out["addrs.asof"] = [x.split(":")[0] for x in items]
        out["addrs.find"] = [x.split(":")[1] for x in items]
    if "stats" in d:
        s = d["stats"].split(",")
        out["stats.main"] = s[0:2] + s[3:5]
        out["stats.tags"] = [s[2], s[5], s[6]]
        out["stats.del"] = s[7:9]
        out["stats.bytes"] = s[9]
    if "offs" in d:
        out["offs"] = d["offs"].split(",") if d["offs"] else []
    if "extra" in d:
        out["extra"] = d["extra"]
    for k in ("live", "delids", "deladdrs"):
        if k in d:
            out[k] = d[k]
    return out


def pad182(v):
    return v + bytes(182 - len(v)) if len(v) <= 182 else v[:182]


def tag_keys(e):
    ks = set()
    for t in e["tags"]:
        if len(t) >= 2 and len(t[0]) == 1:
            ks.add((t[0], pad182(t[1])))
    return len(ks)


def ev_size(e):
    ts = e["tags"]
    tsz = 4 + 2 * len(ts) + sum(2 + sum(2 + len(s) for s in t) for t in ts)
    return 144 + tsz + 4 + len(e["content"])


def align8(x):
    return x if x % 8 == 0 else x + 8 - x % 8


ALL_ASPECTS = {"store.result", "store.errclass", "store.offset", "ids.has", "ids.del", "ids.hash", "addrs.asof", "addrs.find",
               "stats.main", "stats.tags", "stats.del", "stats.bytes", "offs", "extra", "query", "remove", "vanish",
               "reopen", "rebuild", "noop-on-failure", "reopen-preserves", "rebuild-preserves", "rebuild-compact", "map.bytes"}


def judge_history(line, model_out, impl_out, aspects, gcls=""):
    """-> Verdict.  `aspects`: the aspect names this property's check enforces."""
    names, ops = parse_hist(line)
    if not impl_out.startswith("dbhist "):
        return Verdict(oracle_ok=False, cls="harness-died", detail="implementation run died: %s" % impl_out[:200], outcome="died")
    isegs = impl_out[len("dbhist "):].split(" | ")
    mpart, _, spart = model_out[len("dbhist "):].partition(" ## ")
    msegs = mpart.split(" | ")
    ssegs = spart.split(" | ")
    if len(isegs) != len(ops):
        # a panic that killed the store object ends the history early
        return Verdict(oracle_ok=False, cls="store-died", detail="history stopped after op %d: %s" % (len(isegs), isegs[-1][:100]), outcome="died")
    if len(msegs) != len(ops) or len(ssegs) != len(ops):
        return Verdict(corr_ok=False, cls="runner-output", detail="model produced %d/%d segments for %d ops" % (len(msegs), len(ssegs), len(ops)), outcome="runner")

    events_by_id = {}
    stored_hash = {}      # offset -> hash (current file)
    all_offsets = []
    prev_obs = None       # parsed obs of the implementation before the last non-obs op
    last_obs = None
    pending = None        # (kind of op awaiting its following obs, info)
    corr_fail = None
    outcomes = set()

    def fail(cls, detail, n):
        return Verdict(oracle_ok=False, cls=cls, detail="op %d (%s): %s" % (n, ops[n][0], detail), outcome=cls)

    for n, op in enumerate(ops):
        k = op[0]
        iseg, mseg, sseg = isegs[n], msegs[n], ssegs[n]
        if iseg == "panic" or iseg.startswith("HARNESS-ERROR"):
            return fail("panic", "implementation panicked: %s" % iseg[:80], n)
        if k == "store":
            e = op[1]
            events_by_id.setdefault(e["id"], e)
            icls = iseg.split(" ")[0]
            outcomes.add("store:" + icls)
            if "store.result" in aspects:
                # accepted vs refused must agree with the abstract store; WHICH refusal is compared only
                # where the property names it (aspect store.errclass: C09 'replaced', C11 'deleted')
                if (icls == "ok") != (sseg == "ok"):
                    return fail("store-result", "implementation %s, abstract store %s" % (icls, sseg), n)
                if "store.errclass" in aspects and icls != sseg:
                    return fail("store-refusal-kind", "implementation %s, abstract store %s" % (icls, sseg), n)
            if icls == "ok":
                m = re.match(r"ok (\d+) h=(\w+)", iseg)
                off, h = int(m.group(1)), m.group(2)
                if "store.offset" in aspects:
                    if off in stored_hash:
                        return fail("offset-reused", "offset %d returned twice" % off, n)
                stored_hash[off] = h
                all_offsets.append(off)
            if corr_fail is None and {"store.result", "store.offset"} & aspects:
                a = iseg if "store.offset" in aspects else icls
                b = mseg if "store.offset" in aspects else mseg.split(" ")[0]
                if a != b:
                    corr_fail = (n, "store: impl %s model %s" % (iseg[:60], mseg[:60]))
            pending = ("store", icls)
        elif k in ("remove", "vanish", "xput", "reopen", "rebuild"):
            outcomes.add(k + ":" + iseg.split(" ")[0])
            if not iseg.startswith("ok") and iseg != "notable":
                if k in aspects or k in ("reopen", "rebuild"):
                    return fail(k + "-fails", "returned %s" % iseg, n)
            if k == "rebuild":
                stored_hash = {}
                all_offsets = []
                if "rebuild-preserves" in aspects and "bak=true" not in iseg:
                    return fail("rebuild-no-backup", "no backup files left behind", n)
            if corr_fail is None and (k in aspects) and iseg != mseg:
                corr_fail = (n, "%s: impl %s model %s" % (k, iseg[:60], mseg[:60]))
            pending = (k, iseg)
        elif k == "map":
            # the bytes of the real event.map against the byte-level model (LogBytes.v: bytes_of_log of the model's log).
            # digest = len:end:tail:block hashes.  The model always runs with 2048-byte chunks; a release-profile file
            # (4 MiB chunks) is compared in everything but its length, which must be a whole number of chunks, at least
            # the end marker, and not a chunk more than the last append needed.
            if "map.bytes" in aspects and corr_fail is None:
                a, b = iseg.split(" ")[-1].split(":"), mseg.split(" ")[-1].split(":")
                if len(a) != 4 or len(b) != 4:
                    corr_fail = (n, "map: impl %s model %s" % (iseg[:60], mseg[:60]))
                else:
                    ilen, iend = int(a[0]), int(a[1])
                    same = a[1:] == b[1:] and (a[0] == b[0] if ilen % 4194304 else (ilen >= iend and (ilen == 4194304 or ilen - 4194304 < iend)))
                    if not same:
                        i_bl, m_bl = a[3].split("."), b[3].split(".")
                        bad = [j for j in range(max(len(i_bl), len(m_bl))) if j >= len(i_bl) or j >= len(m_bl) or i_bl[j] != m_bl[j]]
                        corr_fail = (n, "map: file len %s end %s, model len %s end %s, first differing 1 KiB block %s" % (a[0], a[1], b[0], b[1], bad[:1]))
        elif k == "query":
            _, f, screen, allow, lim, secs, now = op
            outcomes.add("query:" + iseg.split(" ")[0])
            if "query" in aspects:
                m = re.match(r"q \[(.*?)\] redactable=(\w+) limit=(\d+) refusable=(\w+)", sseg)
                qual = [x.split(":") for x in m.group(1).split(",")] if m.group(1) else []
                limit = int(m.group(3))
                if iseg.startswith("err:scraper"):
                    if m.group(4) != "true":
                        return fail("scraper-refusal-unjustified", "refused as scraping although the filter names ids/authors/tags or the allowances cover it", n)
                elif iseg.startswith("err"):
                    return fail("query-error", iseg, n)
                else:
                    mi = re.match(r"ok \[(.*?)\] red=(\w+)", iseg)
                    got = mi.group(1).split(",") if mi.group(1) else []
                    qids = [x[1] for x in qual]
                    qt = {x[1]: int(x[0]) for x in qual}
                    if len(set(got)) != len(got):
                        return fail("query-duplicates", "duplicate events returned: %s" % got, n)
                    for g in got:
                        if g not in qt:
                            return fail("query-returns-nonmatching", "returned %s which is not retrievable/matching/screened-in" % g, n)
                    want = min(limit, len(qids))
                    if len(got) != want:
                        return fail("query-wrong-count", "returned %d events, %d qualify, limit %d" % (len(got), len(qids), limit), n)
                    ts = [qt[g] for g in got]
                    if any(ts[i] < ts[i + 1] for i in range(len(ts) - 1)):
                        return fail("query-not-newest-first", "order %s" % ts, n)
                    if sorted(ts, reverse=True) != sorted((int(x[0]) for x in qual), reverse=True)[:want]:
                        return fail("query-not-newest-k", "returned times %s, newest qualifying %s" % (ts, [int(x[0]) for x in qual][:want]), n)
                    if mi.group(2) == "true" and m.group(2) != "true":
                        return fail("redacted-flag-unsound", "redacted=true but no matching event is screened as redacted", n)
                if corr_fail is None and iseg != mseg:
                    corr_fail = (n, "query: impl %s model %s" % (iseg[:80], mseg[:80]))
            pending = None
        elif k == "obs":
            io, mo, so = parse_obs(iseg), parse_obs(mseg), parse_obs(sseg)
            ids, addrs = op[1], op[2]
            # oracle against the abstract spec
            for asp in ("ids.has", "ids.del", "ids.hash", "addrs.asof", "addrs.find"):
                if asp in aspects and io.get(asp) != so.get(asp):
                    bad = [j for j in range(len(io[asp])) if io[asp][j] != so[asp][j]]
                    j = bad[0]
                    what = ids[j].hex()[:8] if asp.startswith("ids") else "%d:%s:%s" % (addrs[j][0], addrs[j][1].hex()[:6], addrs[j][2][:12])
                    return fail("obs-" + asp, "%s of %s: implementation %s, abstract store %s" % (asp, what, io[asp][j], so[asp][j]), n)
            live_ids = [ids[j] for j in range(len(ids)) if so["ids.has"][j] == "1"]
            if "stats.main" in aspects:
                if any(x != so["live"] for x in io["stats.main"]):
                    return fail("index-count-leak", "id/ci/ac/akc entry counts %s, retrievable events %s" % (io["stats.main"], so["live"]), n)
            if "stats.del" in aspects:
                if io["stats.del"] != [so["delids"], so["deladdrs"]]:
                    return fail("marker-count", "deleted-id/naddr entries %s, abstract %s/%s" % (io["stats.del"], so["delids"], so["deladdrs"]), n)
            if "stats.tags" in aspects and int(so["live"]) == len(live_ids):
                exp = sum(tag_keys(events_by_id[i]) for i in live_ids if i in events_by_id)
                if any(int(x) != exp for x in io["stats.tags"]):
                    return fail("tag-index-count", "tc/atc/ktc entries %s, expected %d" % (io["stats.tags"], exp), n)
            if "offs" in aspects:
                got = io.get("offs", [])
                for j, off in enumerate(all_offsets):
                    if j >= len(got) or got[j] != stored_hash[off]:
                        return fail("readback-differs", "offset %d reads back %s, stored %s" % (off, got[j] if j < len(got) else "?", stored_hash[off]), n)
            if "extra" in aspects and io.get("extra") != so.get("extra"):
                return fail("extra-table", "extra tables %s vs %s" % (io.get("extra"), so.get("extra")), n)
            # transitions
            if pending and last_obs is not None:
                pk, info = pending
                cmp_keys = ["ids.has", "ids.del", "ids.hash", "addrs.asof", "addrs.find", "stats.main", "stats.tags", "stats.del", "extra"]
                if pk == "store" and info != "ok" and "noop-on-failure" in aspects:
                    for ck in cmp_keys:
                        if io.get(ck) != last_obs.get(ck):
                            return fail("failed-store-changed-state", "%s changed across a store that returned %s" % (ck, info), n)
                if pk == "reopen" and "reopen-preserves" in aspects:
                    for ck in cmp_keys + ["offs", "stats.bytes"]:
                        if io.get(ck) != last_obs.get(ck):
                            return fail("reopen-changed-state", "%s changed across reopen" % ck, n)
                if pk == "rebuild" and "rebuild-preserves" in aspects:
                    for ck in cmp_keys:
                        if io.get(ck) != last_obs.get(ck):
                            return fail("rebuild-changed-state", "%s changed across rebuild" % ck, n)
                if pk == "rebuild" and "rebuild-compact" in aspects and all(i in events_by_id for i in live_ids):
                    end = 8
                    for i in sorted(live_ids):
                        end = align8(end) + ev_size(events_by_id[i])
                    if int(io["stats.bytes"]) != end:
                        return fail("rebuild-not-compact", "event bytes after rebuild %s, retrievable events need %d" % (io["stats.bytes"], end), n)
            pending = None
            # correspondence with the concrete model, per aspect
            if corr_fail is None:
                for asp in ("ids.has", "ids.del", "ids.hash", "addrs.asof", "addrs.find", "stats.main", "stats.tags",
                            "stats.del", "stats.bytes", "offs", "extra"):
                    if asp in aspects and io.get(asp) != mo.get(asp):
                        corr_fail = (n, "obs %s: impl %s model %s" % (asp, str(io.get(asp))[:80], str(mo.get(asp))[:80]))
                        break
            last_obs = io
    if corr_fail:
        return Verdict(corr_ok=False, cls="db-correspondence", detail="op %d: %s" % corr_fail, outcome="corr")
    nontriv = sum(1 for o in ops if o[0] == "store") >= 2
    return Verdict(outcome="+".join(sorted(outcomes))[:120], nontrivial=nontriv)
