"""C01 - event JSON parsing is faithful to an independent JSON parser."""
import itertools

import common as C
import jsongen as J
from engine import BaseEngine, Verdict

NAMES = ["id", "pubkey", "sig", "kind", "created_at", "tags", "content"]


def tags_size(ts):
    return 4 + 2 * len(ts) + sum(2 + sum(2 + len(s.encode()) for s in t) for t in ts)


def ev_size(e):
    return 144 + tags_size(e["tags"]) + 4 + len(e["content"].encode())


def rand_event(rng):
    tags = []
    for _ in range(rng.choice([0, 0, 1, 2, 3, 6])):
        tags.append([J.rand_text(rng, 20) for _ in range(rng.choice([0, 1, 2, 2, 3, 5]))])
    return {"id": bytes(rng.getrandbits(8) for _ in range(32)), "pk": bytes(rng.getrandbits(8) for _ in range(32)),
            "sig": bytes(rng.getrandbits(8) for _ in range(64)),
            "kind": rng.choice([0, 1, 5, 65535, rng.randrange(65536)]),
            "created": rng.choice([0, 1, 1700000000, (1 << 63), (1 << 64) - 1, rng.getrandbits(64)]),
            "tags": tags, "content": J.rand_text(rng, rng.choice([0, 5, 40, 300]))}


def expected_tokens(e):
    return C.t_event({"id": e["id"], "pk": e["pk"], "sig": e["sig"], "kind": e["kind"], "created": e["created"],
                      "tags": [[s.encode() for s in t] for t in e["tags"]], "content": e["content"].encode()})


def pad204(text):
    # the parser refuses inputs shorter than 204 bytes; short events get trailing whitespace
    return text


class Engine(BaseEngine):
    prop = "C01"
    profiles = ("debug", "release")
    rule = ("event JSON texts rendered from the abstract syntax of the theorems: random member order (all 5040 orders for two base events "
            "in thorough), whitespace runs from {'', ' ', '\\n', '\\t', '\\r\\n', mixed, 17 spaces} in every slot, every string character "
            "spelled raw / short escape / \\uXXXX (3 hex cases), hex fields in lower/upper/mixed case, 0-3 unknown members with nested "
            "values and look-alike names at random positions, trailing bytes after the object, integer boundaries (kind 0/65535/65536/10^10, "
            "created_at 2^63/2^64-1/2^64/10^19/10^20), tag sections around 65535 bytes, output buffers exactly/just above the needed size "
            "with fills 0x00/0xAA/0xFF; plus a mutated stream (one byte substituted/deleted/inserted, members duplicated/renamed). "
            "oracle = python's json module (strict, duplicate names -> no claim): accept + consumed = offset past '}' + all seven accessors "
            "equal the independently extracted values. non-trivial = distinct accepted text")
    trusted = ["model JsonParse.v of json_parse.rs/event.rs parse_json_event; Escape.v; oracle: CPython 3 json module"]
    assumptions = ["member NAMES written with escapes (e.g. \"i\\u0064\") are treated as unknown members by the code: not generated (boundary)",
                   "texts shorter than 204 bytes are refused by design (minimum event size): short events are not generated"]

    def case(self, cls, text, outlen, fill):
        return (cls, "evjson %s %s %s" % (C.tb(text), C.tn(outlen), C.tn(fill)))

    def generate(self, rng, tier):
        out = []
        n = 1500 if tier == "quick" else 40000
        fills = [0, 0xAA, 0xFF]
        for i in range(n):
            e = rand_event(rng)
            order = NAMES[:]
            rng.shuffle(order)
            trailing = rng.choice(["", "", " ", ",{\"id\":1}", "]", "\n\n", "x"])
            text = J.render_event(rng, e, order=order, trailing=trailing).encode()
            need = ev_size(e)
            out.append(self.case("valid", text, need + rng.choice([0, 0, 1, 9, 4096]), rng.choice(fills)))
            if i % 4 == 0:
                out.append(self.case("mutated", self.mutate(rng, text), need + 64, rng.choice(fills)))
        # member orders
        base = [rand_event(rng) for _ in range(2)]
        perms = list(itertools.permutations(NAMES))
        if tier == "quick":
            perms = rng.sample(perms, 64)
        for e in base:
            for p in perms:
                text = J.render_event(rng, e, order=list(p), plain=True).encode()
                out.append(self.case("orders", text, ev_size(e), 0xAA))
        # the smallest events there are: one-digit kind and created_at, no tags, empty content, no whitespace, nothing after
        # the closing brace (333 bytes), in random member orders; and the same with 1-2 more bytes
        for i in range(40 if tier == "quick" else 600):
            e = rand_event(rng)
            e["kind"], e["created"] = rng.randrange(10), rng.randrange(10)
            e["tags"], e["content"] = [], rng.choice(["", "", "", "a", "ab"])
            if i % 5 == 4:
                e["kind"] = rng.choice([10, 99])
            order = NAMES[:]
            rng.shuffle(order)
            text = J.render_event(rng, e, order=order, plain=True).encode()
            out.append(self.case("minimal-%d" % min(len(text), 336), text, ev_size(e) + rng.choice([0, 8]), rng.choice(fills)))
        # integer boundaries
        for kind in (0, 65535, 65536, 10 ** 10, 4294967296 + 1):
            for created in (0, 1 << 63, (1 << 64) - 1, 1 << 64, 10 ** 19, 10 ** 20):
                e = rand_event(rng)
                e["kind"], e["created"] = kind, created
                text = J.render_event(rng, e, plain=True).encode()
                cls = "intbound-ok" if kind <= 65535 and created < (1 << 64) else "intbound-bad"
                out.append(self.case(cls, text, ev_size(e) + 8, 0))
        # integers beyond the field's range, spread over the whole of every wrap-around window (a wrapping accumulator
        # with a one-sided overflow test lets the upper part of each window through): 20..22-digit created_at, 5..11-digit kinds
        for j in range(60 if tier == "quick" else 2000):
            e = rand_event(rng)
            if j % 3 == 0:
                e["created"] = rng.choice([rng.randrange(1 << 64, 10 ** 20), rng.randrange(10 ** 20, 10 ** 21), (1 << 64) * rng.randrange(1, 6) + rng.getrandbits(64),
                                           3 * 10 ** 19, 36893488147419103231, 2 * (1 << 64) - 1, 10 ** 22 + rng.getrandbits(60)])
            elif j % 3 == 1:
                e["kind"] = rng.choice([rng.randrange(65536, 1 << 32), rng.randrange(1 << 32, 1 << 34), (1 << 32) * rng.randrange(1, 9) + rng.randrange(65536),
                                        (1 << 32) + 1, (1 << 32) + 65535, (1 << 16) * rng.randrange(1, 70000) + rng.randrange(65536)])
            else:
                e["created"] = rng.choice([(1 << 64) - 1 - rng.randrange(10), rng.randrange(1 << 63, 1 << 64)])
                e["kind"] = rng.choice([65535, 65534, rng.randrange(60000, 65536)])
            text = J.render_event(rng, e, plain=True).encode()
            cls = "intrange-ok" if e["kind"] <= 65535 and e["created"] < (1 << 64) else "intrange-bad"
            out.append(self.case(cls, text, ev_size(e) + 8, 0))
        # tag section sizes around the u16 limit
        for extra in (-40, -1, 0, 1, 40):
            e = rand_event(rng)
            e["tags"] = [["t", "a" * (65535 - 12 + extra)]]
            e["content"] = "c"
            text = J.render_event(rng, e, plain=True).encode()
            out.append(self.case("tagsize-ok" if tags_size(e["tags"]) <= 65535 else "tagsize-bad", text, ev_size(e) + 8, 0))
        return out

    def mutate(self, rng, text):
        t = bytearray(text)
        k = rng.random()
        pos = rng.randrange(len(t))
        if k < 0.3:
            t[pos] = rng.choice([0, 0x22, 0x5C, 0x7F, 0x80, 0xC3, 0xFF, 0x5D, 0x7D, 0x2C, 0x3A, 0x30, 0x20])
        elif k < 0.5:
            del t[pos]
        elif k < 0.65:
            t.insert(pos, rng.choice([0x22, 0x5C, 0x2C, 0x20, 0x5B, 0x7B, 0x30]))
        elif k < 0.8:
            # duplicate a member: append a second "kind"
            i = bytes(t).rfind(b"}")
            if i > 0:
                t[i:i] = rng.choice([b',"kind":7', b',"content":"dup"', b',"id":"' + b"00" * 32 + b'"', b',"tags":[]'])
        else:
            for a, b in ((b'"kind"', b'"kinD"'), (b'"content"', b'"contenT"'), (b'"id"', b'"ID"'), (b'"tags"', b'"tag"')):
                if rng.random() < 0.3 and a in t:
                    i = bytes(t).find(a)
                    t[i:i + len(a)] = b
                    break
        return bytes(t)

    def judge(self, gcls, line, model_out, impl_outs):
        toks = line.split(" ")
        text = bytes.fromhex(toks[1][2:])
        m = C.kv(model_out)
        first = None
        for prof, o in impl_outs.items():
            i = C.kv(o)
            if "r" not in i or o.endswith("impl=panic") or o.startswith("PROCESS"):
                return Verdict(oracle_ok=False, cls="parser-panics", detail="[%s] %s" % (prof, o[:80]), outcome="panic")
            rcls = i["r"].split(":")[0]
            if i.get("guard") == "false":
                return Verdict(oracle_ok=False, cls="write-outside-buffer", detail="[%s] guard bytes modified" % prof, outcome="guard")
            if gcls in ("valid", "orders", "intbound-ok", "intrange-ok", "tagsize-ok"):
                if rcls != "ok":
                    return Verdict(oracle_ok=False, cls="valid-event-rejected", detail="[%s] a valid event text is rejected: %s" % (prof, i["r"]), outcome=rcls)
            if gcls in ("intbound-bad", "intrange-bad", "tagsize-bad") and rcls == "ok":
                return Verdict(oracle_ok=False, cls="out-of-range-accepted", detail="[%s] an integer/tag section that does not fit was accepted" % prof, outcome=rcls)
            if rcls == "ok":
                consumed = int(i["consumed"])
                if consumed > len(text):
                    return Verdict(oracle_ok=False, cls="consumed-too-large", detail="[%s] consumed %d of %d" % (prof, consumed, len(text)), outcome=rcls)
                if i["acc"] == "panic" or i["json"] == "panic":
                    return Verdict(oracle_ok=False, cls="accessor-panics", detail="[%s] accessor/serialiser panicked on an accepted event" % prof, outcome=rcls)
                obj = J.ref_parse(text[:consumed])
                if obj is not None:
                    ev = J.ref_event(obj)
                    if ev is None:
                        return Verdict(oracle_ok=False, cls="accepted-non-event", detail="[%s] accepted, but the independent parser finds no event in the text" % prof, outcome=rcls)
                    if i["acc"] != C.t_event(ev):
                        return Verdict(oracle_ok=False, cls="accessors-differ-from-json", detail="[%s] accessors differ from the independent parser's values" % prof, outcome=rcls)
                    if gcls in ("valid", "orders"):
                        end = text.index(b"{")
                        # consumed must be the offset just past the closing brace: python re-parses exactly that prefix (done) and
                        # the next byte, if any, is the generator's trailing part
                        if text[consumed - 1:consumed] != b"}":
                            return Verdict(oracle_ok=False, cls="consumed-wrong", detail="[%s] consumed does not end at the closing brace" % prof, outcome=rcls)
                elif gcls in ("valid", "orders", "intbound-ok", "intrange-ok", "tagsize-ok"):
                    return Verdict(corr_ok=False, cls="generator", detail="generated text does not parse with python json at the consumed length", outcome=rcls)
            # correspondence
            mr = m.get("r", "?").split(":")[0]
            if mr != rcls:
                return Verdict(corr_ok=False, cls="evjson-outcome", detail="[%s] model %s impl %s" % (prof, m.get("r"), i["r"]), outcome=rcls)
            if rcls == "ok":
                for k in ("consumed", "ev", "acc", "tail"):
                    if m.get(k) != i.get(k):
                        return Verdict(corr_ok=False, cls="evjson-" + k, detail="[%s] %s differs from the model" % (prof, k), outcome=rcls)
            first = first or rcls
        return Verdict(outcome=first, nontrivial=(first == "ok"))
