"""C02 - event binary <-> JSON round trip is lossless and the binary form is canonical."""
import common as C
import jsongen as J
import eng_c01
from engine import BaseEngine, Verdict


class Engine(BaseEngine):
    prop = "C02"
    profiles = ("debug",)
    rule = ("for each random abstract event (all tag shapes incl. empty tags/strings, Unicode content incl. every escape class): 5 JSON texts "
            "differing in member order, whitespace, escape spelling, hex case and unknown members, each parsed into an exactly-sized or larger "
            "buffer with prior contents 0x00/0xAA/0xFF, plus the same event built with Event::from_parts. oracle: all byte-identical (and "
            "== / Hash agree), as_json of the parsed event is valid JSON (python json) denoting the same seven values, and parses back "
            "byte-identically. non-trivial = distinct accepted text")
    trusted = ["models JsonParse.v / Ctor.v / Escape.v; oracle: CPython 3 json module and byte equality on the implementation itself"]
    assumptions = ["strings are valid UTF-8 (the property's hypothesis)"]

    def generate(self, rng, tier):
        out = []
        n = 300 if tier == "quick" else 8000
        for g in range(n):
            e = eng_c01.rand_event(rng)
            need = eng_c01.ev_size(e)
            for v in range(5):
                text = J.render_event(rng, e, order=rng.sample(eng_c01.NAMES, 7), plain=(v == 0)).encode()
                out.append(("grp:%d" % g, "evjson %s %s %s" % (C.tb(text), C.tn(need + rng.choice([0, 0, 3, 500])), C.tn(rng.choice([0, 0xAA, 0xFF])))))
            pe = {"id": e["id"], "pk": e["pk"], "sig": e["sig"], "kind": e["kind"], "created": e["created"],
                  "tags": [[s.encode() for s in t] for t in e["tags"]], "content": e["content"].encode()}
            out.append(("grp:%d" % g, "ctor_event %s %s %s" % (C.t_event(pe), C.tn(need), C.tn(rng.choice([0xAA, 0xFF])))))
        return out

    def judge(self, gcls, line, model_out, impl_outs):
        o = impl_outs["debug"]
        i = C.kv(o)
        m = C.kv(model_out)
        if "r" not in i or o.endswith("impl=panic"):
            return Verdict(oracle_ok=False, cls="panics", detail=o[:80], outcome="panic")
        if "NONCANON" in i:
            return Verdict(oracle_ok=False, cls="binary-form-not-canonical", detail=i["NONCANON"].replace("_", " "), outcome="noncanon")
        if line.startswith("ctor_event"):
            if not i["r"].startswith("ok"):
                return Verdict(oracle_ok=False, cls="from-parts-rejected", detail=i["r"][:60], outcome="err")
            if m["r"][3:] != i["buf"]:
                return Verdict(corr_ok=False, cls="ctor-bytes", detail="from_parts bytes differ from the model", outcome="ok")
            return Verdict(outcome="ctor", nontrivial=False)
        if i["r"] != "ok":
            return Verdict(oracle_ok=False, cls="valid-event-rejected", detail="a valid event text is rejected: %s" % i["r"], outcome="err")
        text = bytes.fromhex(line.split(" ")[1][2:])
        ev = J.ref_event(J.ref_parse(text[:int(i["consumed"])]) or {})
        if ev is None:
            return Verdict(corr_ok=False, cls="generator", detail="generated text not readable by python json", outcome="ok")
        if not i["json"].startswith("ok "):
            return Verdict(oracle_ok=False, cls="as-json-fails", detail="as_json failed on a valid UTF-8 event: %s" % i["json"][:40], outcome="ok")
        js = bytes.fromhex(i["json"][3:])
        jev = J.ref_event(J.ref_parse(js) or {})
        if jev is None:
            return Verdict(oracle_ok=False, cls="as-json-not-json", detail="as_json output is not a JSON event: %s" % js[:120], outcome="ok")
        if C.t_event(jev) != C.t_event(ev):
            return Verdict(oracle_ok=False, cls="as-json-differs", detail="as_json output denotes different field values", outcome="ok")
        if i["reparse"] != "true":
            return Verdict(oracle_ok=False, cls="reparse-differs", detail="parsing as_json's output does not reproduce the bytes (%s)" % i["reparse"], outcome="ok")
        if i.get("eqhash") != "true":
            return Verdict(oracle_ok=False, cls="eq-hash", detail="equal bytes compare unequal / hash differently", outcome="ok")
        for k in ("consumed", "ev", "acc", "json", "reparse"):
            if m.get(k) != i.get(k):
                return Verdict(corr_ok=False, cls="evjson-" + k, detail="%s differs from the model" % k, outcome="ok")
        return Verdict(outcome="ok", nontrivial=True)

    def execute(self, cases):
        model_out, impl = super().execute(cases)
        # group check is done here because it needs all implementation outputs of a group
        groups = {}
        for n, (gcls, line) in enumerate(cases):
            o = impl["debug"][n]
            i = C.kv(o)
            b = i.get("ev") if line.startswith("evjson") else (i.get("buf") if i.get("r", "").startswith("ok") else None)
            groups.setdefault(gcls, []).append((n, b))
        self._noncanon = {}
        for g, lst in groups.items():
            bs = set(b for _, b in lst if b is not None)
            if len(bs) > 1:
                for n, b in lst:
                    self._noncanon[n] = "texts of one event (and its from_parts form) give %d different binary forms" % len(bs)
        # attach to outputs so judge can see it
        for n, msg in self._noncanon.items():
            impl["debug"][n] = impl["debug"][n] + " NONCANON=" + msg.replace(" ", "_")
        return model_out, impl
