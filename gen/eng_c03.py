"""C03 - all parsers are total and memory-safe on arbitrary bytes and buffer sizes."""
import random

import common as C
import jsongen as J
import eng_c01
from engine import BaseEngine, Verdict

SUBST = [0x00, 0x22, 0x5C, 0x7F, 0x80, 0xC3, 0xFF, 0x5D, 0x7D, 0x2C, 0xE2, 0xF4, 0xF7]
PK = bytes([0xA1]) * 32


def seed_filters(rng):
    out = []
    for _ in range(4):
        f = {"ids": [bytes(rng.getrandbits(8) for _ in range(32)) for _ in range(rng.choice([0, 1, 2]))] or None,
             "authors": [PK] if rng.random() < 0.6 else None, "kinds": [1, 30023] if rng.random() < 0.6 else None,
             "tags": [["e", "x", 'q"\\'], ["p", PK.hex()]][:rng.choice([0, 1, 2])],
             "since": rng.choice([None, 5]), "until": rng.choice([None, 18446744073709551615]), "limit": rng.choice([None, 10])}
        out.append(J.render_filter(rng, f).encode())
    out.append(b"{}")
    out.append(b'{"kinds":[1]}')
    return out


class Engine(BaseEngine):
    prop = "C03"
    profiles = ("debug", "release")
    rule = ("malformed stream, deliberately structured: for seed texts (events, filters, tag arrays, hex strings, addresses) - EVERY prefix, "
            "every single-byte substitution by each of {00 22 5C 7F 80 C3 FF ] } , E2 F4 F7} (sampled in quick), every single-byte deletion, "
            "unknown members nested 1..200000 levels deep (arrays, objects, unbalanced), filters with hundreds of members (tag fields of all 52 letters, look-alike #-keys, unknown members), complete filters shorter than one hex field that carry ids/authors of 0..129 hex digits, digit runs of 1..40, every output length 0..needed+16 "
            "for complete texts, random byte strings; entry points event/filter/tags from JSON, json_unescape, json_escape, Id/Pubkey/Sig hex, "
            "Addr::try_from_bytes; both build profiles; 64 guard bytes each side of every output buffer. oracle: never panics/aborts/hangs, "
            "consumed <= input length, guards intact, accepted values survive all accessors/serialisers. "
            "non-trivial = distinct case (all are malformed or boundary by construction)")
    trusted = ["JsonParse.v/Escape.v/Hex.v/Db.addr_parse models with explicit Panic/OutOfFuel outcomes; real-memory effects beyond the "
               "guard bytes cannot be exhibited by a Gallina model (partial)"]
    assumptions = ["UB that does not trip a guard byte is not observable here", "Hll8 hex import is exercised under C20"]

    def generate(self, rng, tier):
        out = []
        quick = tier == "quick"
        events = []
        for _ in range(3 if quick else 12):
            e = eng_c01.rand_event(rng)
            events.append((J.render_event(rng, e).encode(), eng_c01.ev_size(e)))
        e = eng_c01.rand_event(rng)
        events.append((J.render_event(rng, e, plain=True).encode(), eng_c01.ev_size(e)))
        filters = seed_filters(rng)
        tagtexts = [b'[["a","b"],["p","' + PK.hex().encode() + b'"],[]]', b"[]", b'[ [ "\\u00e9" , "x\\n" ] ]']

        def variants(text, budget):
            vs = [("prefix", text[:k]) for k in range(len(text) + 1)]
            subs = [(k, b) for k in range(len(text)) for b in SUBST]
            if len(subs) > budget:
                subs = rng.sample(subs, budget)
            vs += [("subst", text[:k] + bytes([b]) + text[k + 1:]) for k, b in subs]
            dels = list(range(len(text)))
            if len(dels) > budget // 4:
                dels = rng.sample(dels, budget // 4)
            vs += [("delete", text[:k] + text[k + 1:]) for k in dels]
            return vs

        budget = 600 if quick else 100000
        for text, need in events:
            for cls, v in variants(text, budget):
                out.append(("ev-" + cls, "evjson %s %s n:170" % (C.tb(v), C.tn(need + 16))))
            for ol in range(0, need + 17):
                if quick and ol % 3 and not (need - 8 <= ol <= need + 2) and not (140 <= ol <= 180):
                    continue
                out.append(("ev-outlen", "evjson %s %s n:%d" % (C.tb(text), C.tn(ol), rng.choice([0, 170, 255]))))
        for text in filters:
            for cls, v in variants(text, budget):
                out.append(("fl-" + cls, "fljson %s n:2000 n:170" % C.tb(v)))
            for ol in range(0, min(len(text), 400) + 17):
                if quick and ol % 3 and ol > 70:
                    continue
                out.append(("fl-outlen", "fljson %s %s n:170" % (C.tb(text), C.tn(ol))))
        for text in tagtexts:
            for cls, v in variants(text, budget):
                out.append(("tags-" + cls, "tagsjson %s n:400 n:0" % C.tb(v)))
            for ol in range(0, 120):
                out.append(("tags-outlen", "tagsjson %s %s n:0" % (C.tb(text), C.tn(ol))))
        # complete filters SHORTER than one hex field (64 bytes for an id / author) that nevertheless carry ids / authors:
        # length arithmetic on the whole input (input.len() - 64) is only exercised when the input is this short
        for name in (b"ids", b"authors"):
            for k in (0, 1, 2, 3, 10, 31, 40, 45, 46, 47, 48, 49, 50, 60, 62, 63, 64, 65, 66, 100, 126, 127, 128, 129):
                h = (b"0123456789abcdef" * 9)[:k]
                for t in (b'{"' + name + b'":["' + h + b'"]}', b'{"' + name + b'":["' + h + b'"', b'{ "' + name + b'" : [ "' + h + b'" ] }',
                          b'{"kinds":[1],"' + name + b'":["' + h + b'","' + h + b'"]}', b'{"' + name + b'":["' + h + b'"],"limit":1}'):
                    out.append(("fl-short-hex", "fljson %s n:%d n:170" % (C.tb(t), rng.choice([64, 200, 2000]))))
        base_ev = events[-1][0]
        # tokenizer desynchronisation: a UTF-8 lead byte right before a closing quote makes the byte-wise counting pass
        # (count_tags / burn_string) and the code-point-wise reading pass (json_unescape) see different string ends;
        # later strings made of JSON punctuation let both passes still find a well-formed continuation
        def mini_ev(t, tail=b""):
            return (b'{"id":"' + b"11" * 32 + b'","pubkey":"' + b"22" * 32 + b'","created_at":1,"kind":1,"tags":' + t + tail
                    + b',"content":"c","sig":"' + b"33" * 64 + b'"}')
        frag = [b"a", b"]]", b"],[", b'","', b"]", b"[", b",", b"", b'\\"', b"]],", b'"]]', b"x]]"]
        for _ in range(400 if quick else 30000):
            tags = []
            for _t in range(rng.choice([1, 2, 2, 3])):
                tags.append([rng.choice(frag) + (bytes([rng.choice([0xC3, 0xE2, 0xF0, 0xF4, 0xFF])]) * rng.choice([0, 0, 1, 1, 2]) if rng.random() < 0.5 else b"")
                             for _s in range(rng.choice([1, 1, 2]))])
            t = b"[" + b",".join(b"[" + b",".join(b'"' + x + b'"' for x in tg) + b"]" for tg in tags) + b"]"
            out.append(("tags-desync", "tagsjson %s n:400 n:%d" % (C.tb(t), rng.choice([0, 170]))))
            if rng.random() < 0.5:
                ev = mini_ev(t)
                out.append(("ev-desync", "evjson %s n:4096 n:%d" % (C.tb(ev), rng.choice([0, 170]))))
        for t in (b'[["a\xf0"],["]]"]]', b'[["a\xe2"],["]"]]', b'[["\xc3"],["]]"]]', b'[["a\xf0"],["]],"]]'):
            out.append(("tags-desync", "tagsjson %s n:400 n:170" % C.tb(t)))
            out.append(("ev-desync", "evjson %s n:4096 n:170" % C.tb(mini_ev(t))))
        # tag sections straddling the 65535-byte limit of the binary format (one long string / the last tag crossing / many tags)
        def jt(ts):
            return (b"[" + b",".join(b"[" + b",".join(b'"' + x + b'"' for x in t) + b"]" for t in ts) + b"]")
        for ts in ([[b"r", b"a" * 65536]], [[b"r", b"a" * 65523]], [[b"r", b"a" * 65522]],
                   [[b"a", b"x" * 40000], [b"b", b"y" * 30000]], [[b"a", b"x" * 65000], [b"b", b"y" * 600]],
                   [[b"k", b"v" * 50] for _ in range(1100)], [[b"a", b"x" * 30000, b"y" * 30000, b"z" * 6000]],
                   [[b"r", b"a" * 65522], []], [[b"r", b"a" * 65518], [], []], [[b"r", b"a" * 65520], [b""]], [[b"r", b"a" * 65521, b""]]):
            t = jt(ts)
            sfx = "-many" if len(ts) > 100 else ""
            out.append(("tags-overflow" + sfx, "tagsjson %s n:80000 n:170" % C.tb(t)))
            out.append(("ev-overflow" + sfx, "evjson %s n:80000 n:170" % C.tb(mini_ev(t))))
        # filters with MANY members: tag fields of every letter plus keys that merely look like tag fields (#0, #-, #é, ##, #ab, #)
        # repeated up to a few hundred times, unknown members by the hundred: fixed-size tables indexed by a member count
        for _ in range(40 if quick else 1500):
            parts = []
            letters = [chr(c) for c in list(range(65, 91)) + list(range(97, 123))]
            rng.shuffle(letters)
            for L in letters[:rng.choice([0, 5, 26, 51, 52])]:
                parts.append('"#%s":["v"]' % L)
            odd = rng.choice(["0", "1", "9", "-", "_", "#", "é", "ab", "", " ", "e "])
            for j in range(rng.choice([1, 2, 53, 60, 120, 300])):
                k = odd if rng.random() < 0.7 else rng.choice(["0", "5", "9", "-", "@", "[", "`", "{", "Z9"])
                parts.append('"#%s":[%s]' % (k, rng.choice(['"v"', '', '"a","b"', '1'])))
            for j in range(rng.choice([0, 0, 3, 200])):
                parts.append('"u%d":%s' % (j, rng.choice(["1", "[]", "{}", '"s"', "null"])))
            rng.shuffle(parts)
            t = ("{" + ",".join(parts) + "}").encode()
            out.append(("fl-many-members", "fljson %s n:%d n:170" % (C.tb(t), rng.choice([2000, 40000, 64]))))
        # nesting
        for depth in (1, 2, 10, 127, 128, 129, 130, 1000, 10000, 200000):
            for opener, closer in ((b"[", b"]"), (b'{"a":', b"}"), (b"[", b"")):
                val = opener * depth + (b"1" if closer or True else b"") + closer * depth
                t = base_ev[:-1] + b',"x":' + val + b"}"
                out.append(("nesting", "evjson %s n:4096 n:0" % C.tb(t)))
                out.append(("nesting", "fljson %s n:4096 n:0" % C.tb(b'{"kinds":[1],"x":' + val + b"}")))
        # a stack-exhausting depth (the process dies if the recursion is unbounded)
        for depth in ((1500000,) if quick else (1500000, 4000000)):
            t = base_ev[:-1] + b',"x":' + b"[" * depth + b"}"
            out.append(("nesting-huge", "evjson %s n:4096 n:0" % C.tb(t)))
        # tag fields with 65534/65535/65536 values (the per-field u16 counter)
        for k in (65534, 65535, 65536):
            t = b'{"#e":[' + b",".join([b'""'] * k) + b"]}"
            out.append(("many-values", "fljson %s n:300000 n:0" % C.tb(t)))
        # digit runs
        for n in list(range(1, 41)):
            d = (b"9" * n)
            out.append(("digits", "fljson %s n:200 n:0" % C.tb(b'{"limit":' + d + b',"since":' + d + b',"kinds":[' + d + b"]}")))
            t = base_ev.replace(b'"kind":', b'"kind":' + d, 1)
            out.append(("digits", "evjson %s n:4096 n:0" % C.tb(t)))
        # many tag fields
        letters = [chr(c) for c in list(range(65, 91)) + list(range(97, 123))]
        for k in (31, 32, 33, 34, 52):
            t = "{" + ",".join('"#%s":["v"]' % L for L in letters[:k]) + "}"
            out.append(("many-tag-fields", "fljson %s n:4096 n:0" % C.tb(t.encode())))
        out.append(("many-tag-fields", "fljson %s n:4096 n:0" % C.tb(("{" + ",".join('"#%s":["v"]' % L for L in (letters + ["e"])) + "}").encode())))
        # strings: unescape / escape on structured + random bytes
        strs = [b"abc\"", b"abc", b"\\", b"\\u", b"\\u00", b"\\u00e9\"", b"\\ud800\"", b"\\uDFFF\"", b"\\uD7FF\\uE000\"", b"\xc3", b"\xc3\"", b"\xe2\x80", b"\xf0\x90\x80",
                b"\xf7\xbf\xbf\xbf", b"\xf7\xbf\xbf\xbf\"", b"\xff\xff\xff\xff\"", b"\x80\"", b"a\x00b\"", b"\t\"", "é†𝄞\"".encode(), b"\\n\\t\\\"\\\\\\/\\b\\f\\r\"", b"\\x\""]
        for s in strs:
            for cap in (0, 1, 2, 3, 4, 5, 64):
                out.append(("unescape", "unescape %s %s" % (C.tb(s), C.tn(cap))))
            out.append(("escape", "escape " + C.tb(s)))
        for _ in range(300 if quick else 20000):
            b = bytes(rng.choice([rng.getrandbits(8), rng.choice(b'"\\u0ad8fF{}[],: ')]) for _ in range(rng.choice([1, 2, 5, 12, 40])))
            out.append(("unescape-rand", "unescape %s %s" % (C.tb(b), C.tn(rng.choice([0, 3, 16, 64])))))
            out.append(("escape-rand", "escape " + C.tb(b)))
        # hex fields and addresses
        good = bytes(range(32)).hex().encode()
        for n, width in ((32, 64), (33, 64), (64, 128)):
            g = (good * 2)[:width]
            for k in range(0, width + 1, 3):
                out.append(("hex", "hex %s %s" % (C.tn(n), C.tb(g[:k]))))
            for k in range(0, width, 5):
                for b in (0x80, 0xFF, 0x67, 0x2F, 0x3A, 0x40, 0x47, 0x60, 0x00):
                    out.append(("hex", "hex %s %s" % (C.tn(n), C.tb(g[:k] + bytes([b]) + g[k + 1:]))))
            out.append(("hex", "hex %s %s" % (C.tn(n), C.tb(g.upper()))))
        addrs = [b"30023:" + PK.hex().encode() + b":ident", b"0:" + PK.hex().encode() + b":", b"65535:" + PK.hex().encode() + b":a:b:c",
                 b"65536:" + PK.hex().encode() + b":x", b"+5:" + PK.hex().encode() + b":x", b"-5:" + PK.hex().encode() + b":x", b"", b":", b"::",
                 b"1:zz:x", b"1:" + PK.hex().encode(), b"\xff:" + PK.hex().encode() + b":x", b"1:" + PK.hex().encode()[:-1] + b"\x80:x",
                 b"00001:" + PK.hex().encode() + b":x", b" 1:" + PK.hex().encode() + b":x", b"1 :" + PK.hex().encode() + b":x"]
        for a in addrs:
            for cls, v in [("addr", a)] + [("addr-prefix", a[:k]) for k in range(len(a))]:
                out.append((cls, "addr " + C.tb(v)))
        return out

    def skip_model(self, gcls):
        return gcls == "many-values" or gcls.endswith("-many")

    def judge(self, gcls, line, model_out, impl_outs):
        cmd = line.split(" ", 1)[0]
        m = C.kv(model_out)
        first = None
        inlen = len(line.split(" ")[1]) // 2 - 1
        for prof, o in impl_outs.items():
            if o.startswith("PROCESS") or o.endswith("impl=panic") or "r=" not in o:
                what = "aborted/hung (process died)" if o.startswith("PROCESS") else "panicked"
                return Verdict(oracle_ok=False, cls="parser-panics", detail="[%s] %s %s: %s" % (prof, cmd, what, o[:60]), outcome="panic")
            i = C.kv(o)
            rcls = i["r"].split(" ")[0].split(":")[0]
            if i.get("guard") == "false":
                return Verdict(oracle_ok=False, cls="write-outside-buffer", detail="[%s] guard bytes modified" % prof, outcome="guard")
            if rcls == "ok":
                if "consumed" in i and int(i["consumed"]) > inlen:
                    return Verdict(oracle_ok=False, cls="consumed-too-large", detail="[%s] consumed %s > %d" % (prof, i["consumed"], inlen), outcome=rcls)
                if "inlen" in i and int(i["inlen"]) > inlen:
                    return Verdict(oracle_ok=False, cls="consumed-too-large", detail="[%s] inlen %s > %d" % (prof, i["inlen"], inlen), outcome=rcls)
                if i.get("acc") == "panic" or i.get("json") == "panic":
                    return Verdict(oracle_ok=False, cls="accessor-panics", detail="[%s] accessor/serialiser panicked on an accepted value" % prof, outcome=rcls)
            if model_out == "noop":
                first = first or rcls
                continue
            mr = m.get("r", "?").split(" ")[0].split(":")[0]
            if mr != rcls:
                return Verdict(corr_ok=False, cls=cmd + "-outcome", detail="[%s] model %s impl %s" % (prof, m.get("r", "?")[:30], i["r"][:30]), outcome=rcls)
            if rcls == "ok":
                for k in ("consumed", "ev", "fl", "tags", "inlen", "out", "acc"):
                    if k in i and k in m and i[k] != m[k]:
                        return Verdict(corr_ok=False, cls=cmd + "-" + k, detail="[%s] %s differs from the model" % (prof, k), outcome=rcls)
                if cmd in ("escape", "hex", "addr") and i["r"] != m["r"]:
                    return Verdict(corr_ok=False, cls=cmd + "-value", detail="[%s] value differs from the model" % prof, outcome=rcls)
            first = first or rcls
        return Verdict(outcome=first, nontrivial=True)
