"""C04 - stored events read back byte-identical, forever."""
from dbengine import DbEngine


class Engine(DbEngine):
    prop = 'C04'
    profiles = ('debug', 'release')
    weights = {'new': 8, 'addr': 2, 'resubmit': 1, 'delete': 1.5, 'remove': 1.5, 'reopen': 1.2, 'vanish': 0.2, 'giftwrap': 0.2}
    aspects = {'stats.bytes', 'store.offset', 'reopen', 'store.result', 'ids.hash', 'offs', 'reopen-preserves', 'ids.has', 'rebuild', 'rebuild-preserves', 'map.bytes'}
    with_map = True
    quick = (120, 40)
    thorough = (2500, 150)
    rule = 'histories of store/remove/delete/reopen with content sizes straddling the 2048-byte debug chunk (10, 300, 1500, 2040, 2047, 2048, 4200 bytes; multi-chunk; and contents of 65535..131072 bytes, beyond every 16-bit length) in BOTH build profiles (debug: a file growth every few stores; release: 4 MiB chunks); after EVERY op every offset ever returned by a successful store is read back and compared (hash) with what was stored, every id is looked up; reopen inserted at random positions; rebuild followed by continued use of the returned store across further growth steps. oracle: read-back equals stored bytes, offsets pairwise distinct; correspondence: exact offsets and end marker vs the model; BYTE LEVEL after every op: the real event.map (length, end marker, zero tail, hash of every 1 KiB block below the marker) equals the file of the byte-level model LogBytes.v (bytes_of_log of the log of the model; the theorems of LogBytesProofs.v are about this function). non-trivial = history with >= 2 stores'
    trusted = DbEngine.db_trusted
    assumptions = ['that bytes already written survive set_len/mremap growth is an OS fact: assumed by the model, observed by the harness']

    def generate(self, rng, tier):
        import random
        import common as C
        from dbgen import HistGen, AUTHORS, fake_id
        out = super().generate(rng, tier)
        # exact-fill histories: the event map is filled to its very last byte (end marker == file length),
        # then the store is reopened and used again (debug profile: 2048-byte chunks)
        for i in range(25 if tier == "quick" else 400):
            sub = random.Random(rng.getrandbits(64))
            g = HistGen(sub, {"new": 1}, 0).run()
            end = 8
            n = sub.choice([0, 1, 3, 6])
            for j in range(n + 1):
                e = g.new_event(kind=1, pk=sub.choice(AUTHORS), tags=[])
                if j == n:
                    base = end if end % 8 == 0 else end + 8 - end % 8
                    target = ((base + 152) // 2048 + sub.choice([1, 1, 2])) * 2048
                    e["content"] = b"F" * (target - base - 152)
                else:
                    e["content"] = b"c" * sub.choice([0, 7, 100, 1900, 2048])
                e["id"] = fake_id(e)
                g.op_store(e)
                g.note_event(e)
                base = end if end % 8 == 0 else end + 8 - end % 8
                end = base + 152 + len(e["content"])
            g.ops.append(("reopen",))
            for _ in range(sub.choice([1, 2])):
                g.g_store_new()
            if sub.random() < 0.5:
                g.ops.append(("reopen",))
            out.append(("exact-fill", g.render()))
        # large contents: the content length is a 32-bit field; sizes around 2^16 (and one at 2^17) are stored among
        # ordinary events, read back after every later op, across a reopen
        for i in range(6 if tier == "quick" else 60):
            sub = random.Random(rng.getrandbits(64))
            g = HistGen(sub, {"new": 1}, sub.choice([0, 2])).run()
            for size in sub.sample([65535, 65536, 65537, 70000, 131072, 40000], sub.choice([2, 3])):
                e = g.new_event(kind=sub.choice([1, 30023]), pk=sub.choice(AUTHORS), tags=[[b"d", b"big"]] if sub.random() < 0.5 else [])
                e["content"] = bytes([65 + size % 23]) * size
                e["id"] = fake_id(e)
                g.op_store(e)
                g.note_event(e)
                if sub.random() < 0.5:
                    g.g_store_new()
            g.ops.append(("reopen",))
            g.g_store_new()
            out.append(("large-content", g.render()))
        # rebuild, then keep using the store the rebuild returned until its event map has to grow again
        # (and again), reading everything back after every step
        for i in range(8 if tier == "quick" else 120):
            sub = random.Random(rng.getrandbits(64))
            g = HistGen(sub, {"new": 1}, 0).run()
            def put(n, size):
                for _ in range(n):
                    e = g.new_event(kind=1, pk=sub.choice(AUTHORS), tags=[])
                    e["content"] = b"r" * size
                    e["id"] = fake_id(e)
                    g.op_store(e)
                    g.note_event(e)
            put(sub.choice([3, 6, 12]), sub.choice([300, 900, 1700]))
            if sub.random() < 0.5 and g.events:
                g.ops.append(("remove", sub.choice(g.events)["id"]))
            g.ops.append(("rebuild",))
            put(sub.choice([4, 8, 14]), sub.choice([300, 900, 1700]))
            if sub.random() < 0.5:
                g.ops.append(("reopen",))
                put(2, 1200)
            out.append(("rebuild-then-grow", g.render()))
        return out
