"""C04 - stored events read back byte-identical, forever."""
from dbengine import DbEngine


class Engine(DbEngine):
    prop = 'C04'
    profiles = ('debug', 'release')
    weights = {'new': 8, 'addr': 2, 'resubmit': 1, 'delete': 1.5, 'remove': 1.5, 'reopen': 1.2, 'vanish': 0.2, 'giftwrap': 0.2}
    aspects = {'stats.bytes', 'store.offset', 'reopen', 'store.result', 'ids.hash', 'offs', 'reopen-preserves', 'ids.has'}
    quick = (120, 40)
    thorough = (2500, 150)
    rule = 'histories of store/remove/delete/reopen with content sizes straddling the 2048-byte debug chunk (10, 300, 1500, 2040, 2047, 2048, 4200 bytes; multi-chunk) in BOTH build profiles (debug: a file growth every few stores; release: 4 MiB chunks); after EVERY op every offset ever returned by a successful store is read back and compared (hash) with what was stored, every id is looked up; reopen inserted at random positions. oracle: read-back equals stored bytes, offsets pairwise distinct; correspondence: exact offsets and end marker vs the model. non-trivial = history with >= 2 stores'
    trusted = DbEngine.db_trusted
    assumptions = ['that bytes already written survive set_len/mremap growth is an OS fact: assumed by the model, observed by the harness']
