"""C04 - stored events read back byte-identical, forever."""
from dbengine import DbEngine


class Engine(DbEngine):
    prop = 'C04'
    profiles = ('debug', 'release')
    weights = {'new': 8, 'addr': 2, 'resubmit': 1, 'delete': 1.5, 'remove': 1.5, 'reopen': 1.2, 'vanish': 0.2, 'giftwrap': 0.2}
    aspects = {'stats.bytes', 'store.offset', 'reopen', 'store.result', 'ids.hash', 'offs', 'reopen-preserves', 'ids.has', 'rebuild', 'rebuild-preserves', 'map.bytes'}
    with_map = True
    quick = (120, 40)
    thorough = (2500, 150)
    rule = 'histories of store/remove/delete/reopen with content sizes straddling the 2048-byte debug chunk (10, 300, 1500, 2040, 2047, 2048, 4200 bytes; multi-chunk; and contents of 65535..131072 bytes, beyond every 16-bit length) in BOTH build profiles (debug: a file growth every few stores; release: 4 MiB chunks); after EVERY op every offset ever returned by a successful store is read back and compared (hash) with what was stored, every id is looked up; reopen inserted at random positions; rebuild followed by continued use of the returned store across further growth steps; class failed-growth: the environment refuses to extend the file after 1..3 chunks of a multi-chunk growth (soft RLIMIT_FSIZE), later stores use the space gained and then grow again (implementation-only oracle: every offset reads back). oracle: read-back equals stored bytes, offsets pairwise distinct; correspondence: exact offsets and end marker vs the model; BYTE LEVEL after every op: the real event.map (length, end marker, zero tail, hash of every 1 KiB block below the marker) equals the file of the byte-level model LogBytes.v (bytes_of_log of the log of the model; the theorems of LogBytesProofs.v are about this function). non-trivial = history with >= 2 stores'
    trusted = DbEngine.db_trusted
    assumptions = ['that bytes already written survive set_len/mremap growth is an OS fact: assumed by the model, observed by the harness']

    def generate(self, rng, tier):
        import random
        import common as C
        from dbgen import HistGen, AUTHORS, fake_id
        out = super().generate(rng, tier)
        # exact-fill histories: the event map is filled to its very last byte (end marker == file length),
        # then the store is reopened and used again (debug profile: 2048-byte chunks)
        for i in range(25 if tier == "quick" else 400):
            sub = random.Random(rng.getrandbits(64))
            g = HistGen(sub, {"new": 1}, 0).run()
            end = 8
            n = sub.choice([0, 1, 3, 6])
            for j in range(n + 1):
                e = g.new_event(kind=1, pk=sub.choice(AUTHORS), tags=[])
                if j == n:
                    base = end if end % 8 == 0 else end + 8 - end % 8
                    target = ((base + 152) // 2048 + sub.choice([1, 1, 2])) * 2048
                    e["content"] = b"F" * (target - base - 152)
                else:
                    e["content"] = b"c" * sub.choice([0, 7, 100, 1900, 2048])
                e["id"] = fake_id(e)
                g.op_store(e)
                g.note_event(e)
                base = end if end % 8 == 0 else end + 8 - end % 8
                end = base + 152 + len(e["content"])
            g.ops.append(("reopen",))
            for _ in range(sub.choice([1, 2])):
                g.g_store_new()
            if sub.random() < 0.5:
                g.ops.append(("reopen",))
            out.append(("exact-fill", g.render()))
        # large contents: the content length is a 32-bit field; sizes around 2^16 (and one at 2^17) are stored among
        # ordinary events, read back after every later op, across a reopen
        for i in range(6 if tier == "quick" else 60):
            sub = random.Random(rng.getrandbits(64))
            g = HistGen(sub, {"new": 1}, sub.choice([0, 2])).run()
            for size in sub.sample([65535, 65536, 65537, 70000, 131072, 40000], sub.choice([2, 3])):
                e = g.new_event(kind=sub.choice([1, 30023]), pk=sub.choice(AUTHORS), tags=[[b"d", b"big"]] if sub.random() < 0.5 else [])
                e["content"] = bytes([65 + size % 23]) * size
                e["id"] = fake_id(e)
                g.op_store(e)
                g.note_event(e)
                if sub.random() < 0.5:
                    g.g_store_new()
            g.ops.append(("reopen",))
            g.g_store_new()
            out.append(("large-content", g.render()))
        # rebuild, then keep using the store the rebuild returned until its event map has to grow again
        # (and again), reading everything back after every step
        for i in range(8 if tier == "quick" else 120):
            sub = random.Random(rng.getrandbits(64))
            g = HistGen(sub, {"new": 1}, 0).run()
            def put(n, size):
                for _ in range(n):
                    e = g.new_event(kind=1, pk=sub.choice(AUTHORS), tags=[])
                    e["content"] = b"r" * size
                    e["id"] = fake_id(e)
                    g.op_store(e)
                    g.note_event(e)
            put(sub.choice([3, 6, 12]), sub.choice([300, 900, 1700]))
            if sub.random() < 0.5 and g.events:
                g.ops.append(("remove", sub.choice(g.events)["id"]))
            g.ops.append(("rebuild",))
            put(sub.choice([4, 8, 14]), sub.choice([300, 900, 1700]))
            if sub.random() < 0.5:
                g.ops.append(("reopen",))
                put(2, 1200)
            out.append(("rebuild-then-grow", g.render()))
        out += failed_growth_cases(rng, tier)
        return out

    def skip_model(self, gcls):
        return gcls == "failed-growth"

    def judge(self, gcls, line, model_out, impl_outs):
        if gcls != "failed-growth":
            return super().judge(gcls, line, model_out, impl_outs)
        return judge_failed_growth(self.profiles, line, impl_outs)


def failed_growth_cases(rng, tier, cls="failed-growth", reopen_after_failure=0.35, n=None):
    """a growth that FAILS part-way (the environment refuses to extend the file after k chunks: soft RLIMIT_FSIZE), optionally
    a reopen while the file has whole spare chunks beyond the end marker, then stores that fit into what was gained, then
    stores that have to grow the file again; every offset ever returned is re-read after every op.  Judged on the
    implementation alone (the model has no failing file system)."""
    import random
    import common as C
    from dbgen import HistGen, AUTHORS, fake_id
    out = []
    for i in range(n if n is not None else (10 if tier == "quick" else 200)):
        sub = random.Random(rng.getrandbits(64))
        g = HistGen(sub, {"new": 1}, 0).run()
        obs = "obs %s L0" % C.tl(C.tb(i_) for i_ in g.ids)
        ops = []
        def ev(size, ch=b"g"):
            e = g.new_event(kind=1, pk=sub.choice(AUTHORS), tags=[])
            e["content"] = ch * size
            e["id"] = fake_id(e)
            return "store " + C.t_event(e)
        for j in range(sub.choice([5, 6, 8])):
            ops.append(ev(sub.choice([40000, 50000, 60000]), b"B"))      # a map larger than LMDB's data file
        for rnd in range(sub.choice([1, 1, 2])):
            ops.append("fsizelimit " + C.tn(2048 * sub.choice([1, 2, 2, 3, 4]) + sub.choice([0, 100, 1000])))
            ops.append(ev(sub.choice([9000, 12000, 20000])))                # needs 5..10 chunks: fails after 1..4
            ops.append("fsizeunlimit")
            if sub.random() < reopen_after_failure:
                ops.append("reopen")                                        # opened with whole spare chunks beyond the marker
            for j in range(sub.choice([2, 3, 5])):
                ops.append(ev(sub.choice([300, 900, 1500])))                # fit into the chunks gained by the failed growth
            ops.append(ev(sub.choice([3000, 5000, 9000])))                  # has to grow again
            for j in range(sub.choice([1, 3])):
                ops.append(ev(sub.choice([10, 900, 2100])))
        ops.append("reopen")
        ops.append(ev(100))
        line = "dbhist " + C.tl(C.tb(n_) for n_ in g.names) + " ; " + obs + "".join(" ; " + x + " ; " + obs for x in ops)
        out.append((cls, line))
    return out


def judge_failed_growth(profiles, line, impl_outs):
    import re
    from engine import Verdict
    from dbjudge import parse_obs
    kinds = [x.split(" ", 1)[0] for x in line.split(" ; ")[1:]]
    nfail = 0
    for prof in profiles:
        o = impl_outs[prof]
        if not o.startswith("dbhist "):
            return Verdict(oracle_ok=False, cls="harness-died", detail="[%s] %s" % (prof, o[:100]), outcome="died")
        segs = o[len("dbhist "):].split(" | ")
        if len(segs) != len(kinds):
            return Verdict(oracle_ok=False, cls="store-died", detail="[%s] history stopped after op %d: %s" % (prof, len(segs), segs[-1][:80]), outcome="died")
        stored = []
        for n, (k, seg) in enumerate(zip(kinds, segs)):
            if seg == "panic":
                return Verdict(oracle_ok=False, cls="panic", detail="[%s] op %d (%s) panicked" % (prof, n, k), outcome="panic")
            if k == "store":
                m = re.match(r"ok (\d+) h=(\w+)", seg)
                if m:
                    stored.append((int(m.group(1)), m.group(2)))
                else:
                    nfail += 1
            elif k in ("reopen", "prealloc") and not seg.startswith("ok"):
                return Verdict(oracle_ok=False, cls="reopen-fails", detail="[%s] reopen returned %s" % (prof, seg), outcome="reopen")
            elif k == "obs":
                got = parse_obs(seg).get("offs", [])
                for j, (off, h) in enumerate(stored):
                    if j >= len(got) or got[j] != h:
                        return Verdict(oracle_ok=False, cls="readback-differs",
                                       detail="[%s] op %d: offset %d reads back %s, stored %s (every offset returned so far is re-read after every op)" % (prof, n, off, got[j] if j < len(got) else "?", h), outcome="readback")
                if len(set(x[0] for x in stored)) != len(stored):
                    return Verdict(oracle_ok=False, cls="offset-reused", detail="[%s] an offset was returned twice" % prof, outcome="reuse")
    return Verdict(outcome="failed-growth/%s" % ("some-failed" if nfail else "none-failed"), nontrivial=True)
