"""C05 - queries return exactly the matching events, newest first, newest-k under limit."""
from dbengine import DbEngine


class Engine(DbEngine):
    prop = 'C05'
    profiles = ('debug', 'release')
    weights = {'new': 5, 'addr': 2, 'delete': 1, 'remove': 0.7, 'giftwrap': 0.3, 'query': 9, 'qown': 2, 'resubmit': 0.3, 'ghost': 0.5}
    aspects = {'query', 'store.result'}
    quick = (200, 40)
    thorough = (4000, 90)
    rule = "query-heavy histories: filters derived from stored events' own fields then perturbed, every plan (ids / author+kind / author+tag / kind+tag / tag / author / scrape), 1-3 values per tag letter, 1-2 letters, since/until absent/equal/inverted/future/0/2^64-1, limit 0,1,2,3,5,2^32-1,absent, screening tables with Mismatch/Redacted entries, scrape allowances; >= 3 events per (author,kind) and tag value with equal timestamps at the cut. oracle (vs ADb.a_qualifying): returned events all qualify, no duplicates, newest first, count = min(limit, qualifying), created_at multiset = that of the newest k, redacted flag sound, scraper refusal only when justified, no panic (both profiles). non-trivial = history with >= 2 stores"
    trusted = DbEngine.db_trusted
    assumptions = ['tag constraints have single-letter names (the only ones the JSON syntax can express and the indexes hold)', 'Time::now is at least 10^7 s away from generated since/until values']
