"""C05 - queries return exactly the matching events, newest first, newest-k under limit."""
from dbengine import DbEngine


class Engine(DbEngine):
    prop = 'C05'
    profiles = ('debug', 'release')
    weights = {'new': 5, 'addr': 2, 'delete': 1, 'remove': 0.7, 'giftwrap': 0.3, 'query': 9, 'qown': 2, 'resubmit': 0.3, 'ghost': 0.5}
    ghost_sweep = True
    aspects = {'query', 'store.result'}
    quick = (200, 40)
    thorough = (4000, 90)
    rule = "query-heavy histories: filters derived from stored events' own fields then perturbed, every plan (ids / author+kind / author+tag / kind+tag / tag / author / scrape), 1-3 values per tag letter, 1-2 letters, since/until absent/equal/inverted/future/0/2^64-1, limit 0,1,2,3,5,2^32-1,absent, screening tables with Mismatch/Redacted entries, scrape allowances; >= 3 events per (author,kind) and tag value with equal timestamps at the cut. oracle (vs ADb.a_qualifying): returned events all qualify, no duplicates, newest first, count = min(limit, qualifying), created_at multiset = that of the newest k, redacted flag sound, scraper refusal only when justified, no panic (both profiles). non-trivial = history with >= 2 stores"
    trusted = DbEngine.db_trusted
    assumptions = ['tag constraints have single-letter names (the only ones the JSON syntax can express and the indexes hold)', 'Time::now is at least 10^7 s away from generated since/until values']

    def generate(self, rng, tier):
        import random
        from dbgen import HistGen, AUTHORS, fake_id
        out = super().generate(rng, tier)
        # limit blocks: several index ranges of ONE query (values of a tag letter / kinds of an author / authors), each holding
        # a handful of events with interleaved timestamps, asked with every limit below the number of matches through
        # every plan that can serve it: the per-range counters and the moving since are exercised on every history
        for i in range(40 if tier == "quick" else 1500):
            sub = random.Random(rng.getrandbits(64))
            g = HistGen(sub, {"new": 1}, 0).run()
            nr = sub.choice([2, 2, 3, 4])
            letter = sub.choice([b"t", b"e", b"p"])
            vals = [b"v%d" % j for j in range(nr)]
            kinds = sub.sample([1, 7, 30023, 10002, 4], nr) if sub.random() < 0.5 else [1] * nr
            auths = sub.sample(AUTHORS, min(nr, len(AUTHORS))) if sub.random() < 0.5 else [AUTHORS[0]] * nr
            times = sub.sample(range(100, 100 + 12 * nr), sub.randrange(nr + 1, 5 * nr + 1))
            if sub.random() < 0.3:
                times = [t_ - t_ % 3 for t_ in times]          # ties
            evs = []
            for t_ in times:
                j = sub.randrange(nr)
                k_ = kinds[j % len(kinds)]
                tags = [[letter, vals[j]]] + ([[b"d", b"blk%d" % len(evs)]] if 30000 <= k_ < 40000 else [])
                if 10000 <= k_ < 20000:
                    k_ = 1                                       # one holder per address would hide the block
                e = g.new_event(kind=k_, pk=auths[j % len(auths)], created=t_, tags=tags)
                e["content"] = b"b%d" % len(evs)
                e["id"] = fake_id(e)
                g.op_store(e)
                g.note_event(e)
                evs.append(e)
            base = {"ids": [], "authors": [], "kinds": [], "tags": [], "since": None, "until": None, "limit": None}
            n = len(evs)
            ks = sorted({e["kind"] for e in evs})
            as_ = sorted({e["pk"] for e in evs})
            sub.shuffle(vals)
            shapes = [{"tags": [[letter] + vals]}, {"tags": [[letter] + vals], "kinds": ks}, {"tags": [[letter] + vals], "authors": as_},
                      {"authors": as_, "kinds": ks}, {"authors": as_}, {"kinds": ks}, {"authors": as_, "kinds": ks, "tags": [[letter] + vals[:2]]}]
            for sh in shapes:
                for lim in sorted(set([1, 2, max(1, n // 2), max(1, n - 1)])) if tier != "quick" else sub.sample(sorted(set([1, 2, max(1, n // 2), max(1, n - 1)])), 2):
                    f = dict(base)
                    f.update(sh)
                    f["limit"] = lim
                    if sub.random() < 0.2:
                        f["since"] = min(times) + sub.choice([0, 3, 7])
                    g.ops.append(("query", f, [], 1, 100, 10 ** 6, g.now))
            out.append(("limit-block", g.render(obs_every=1000)))
        return out
