"""C06 - the match predicate equals NIP-01 semantics."""
import itertools

import common as C
from engine import BaseEngine, Verdict
from pools import *


class Engine(BaseEngine):
    prop = "C06"
    rule = ("(filter, event) pairs built from parts with OwnedFilter::new/OwnedEvent::new; pools: 6 ids, 4 authors, 15 kinds, "
            "11 boundary times, names incl. multi-letter/empty, values incl. empty/prefix/extension/NUL/multi-byte/181-183 bytes; "
            "structured stream (filter derived from the event's own fields then perturbed) + repeated constraint names (2-4 constraints of one name against one tag) + random stream + exhaustive small "
            "universe (thorough). non-trivial = distinct case whose filter has at least one non-empty field")
    trusted = ["theorem C06_matches_spec is about Access.event_matches on Layout.enc_filter/enc_event; this run compares the "
               "implementation's encodings byte-for-byte with enc_* and its answer with both the model and spec_matches"]
    assumptions = ["tag strings are valid UTF-8 (Tags::from_parts takes &str)",
                   "nameless tag constraints (zero-string filter tags) are outside NIP-01 and excluded (boundary Example in Props_C06.v)"]

    def near_filter(self, rng, e):
        """a filter derived from the event's own fields, then perturbed"""
        f = {"ids": [], "authors": [], "kinds": [], "tags": [], "since": None, "until": None, "limit": None}
        if rng.random() < 0.5:
            f["ids"] = rand_sub(rng, IDS, 2) + ([e["id"]] if rng.random() < 0.7 else [])
            rng.shuffle(f["ids"])
        if rng.random() < 0.5:
            f["authors"] = rand_sub(rng, AUTHORS, 2) + ([e["pk"]] if rng.random() < 0.7 else [])
        if rng.random() < 0.5:
            f["kinds"] = rand_sub(rng, KINDS, 2) + ([e["kind"]] if rng.random() < 0.7 else [])
        r = rng.random()
        if r < 0.3:
            f["since"] = e["created"] + rng.choice([-1, 0, 0, 1]) if 0 < e["created"] < C.U64 else e["created"]
        if rng.random() < 0.3:
            f["until"] = e["created"] + rng.choice([-1, 0, 0, 1]) if 0 < e["created"] < C.U64 else e["created"]
        for t in e["tags"]:
            if t and rng.random() < 0.5:
                vals = rand_sub(rng, VALUES, 2)
                if len(t) > 1 and rng.random() < 0.7:
                    vals.insert(rng.randrange(len(vals) + 1), t[1])
                if len(t) > 2 and rng.random() < 0.3:
                    vals = [t[2]]          # near miss: a later value of the tag
                f["tags"].append([t[0]] + vals)
        if rng.random() < 0.2:
            f["tags"].append([rng.choice(NAMES)] + rand_sub(rng, VALUES, 2))
        return f

    def repeat_filter(self, rng, e):
        """several constraints with the SAME name (expressible through from_parts only), each satisfied - or one
        of them not - by the same single tag of the event: NIP-01 evaluates every constraint on its own"""
        f = {"ids": [], "authors": [], "kinds": [], "tags": [], "since": None, "until": None, "limit": None}
        tagged = [t for t in e["tags"] if len(t) > 1]
        if not tagged:
            e["tags"] = e["tags"] + [[rng.choice([b"e", b"p", b"t"]), rng.choice(VALUES)]]
            tagged = [e["tags"][-1]]
        t = rng.choice(tagged)
        if rng.random() < 0.5:
            e["tags"] = [t]                      # fewer tags than constraints
        for _ in range(rng.choice([2, 2, 3, 4])):
            vals = rand_sub(rng, VALUES, 2)
            if rng.random() < 0.85:
                vals.insert(rng.randrange(len(vals) + 1), t[1])
            f["tags"].append([t[0]] + vals)
        return f

    def rand_filter(self, rng):
        return {"ids": rand_sub(rng, IDS), "authors": rand_sub(rng, AUTHORS), "kinds": rand_sub(rng, KINDS),
                "tags": [[rng.choice(NAMES)] + rand_sub(rng, VALUES) for _ in range(rng.choice([0, 0, 1, 2]))],
                "since": rng.choice([None, None] + TIMES), "until": rng.choice([None, None] + TIMES),
                "limit": rng.choice([None, 0, 1, C.U32])}

    def generate(self, rng, tier):
        n = 6000 if tier == "quick" else 120000
        out = []
        for i in range(n):
            e = rand_event(rng)
            if i % 10 == 9:
                out.append(("repeated-names", "match %s %s" % (C.t_filter(self.repeat_filter(rng, e)), C.t_event(e))))
            elif i % 3 == 0:
                out.append(("random", "match %s %s" % (C.t_filter(self.rand_filter(rng)), C.t_event(e))))
            else:
                out.append(("near", "match %s %s" % (C.t_filter(self.near_filter(rng, e)), C.t_event(e))))
        # values that straddle two adjacent slots of a packed array: a kind made of the high byte of one listed kind and the
        # low byte of the next, an id / author made of the tail of one listed value and the head of the next; everything
        # else in the filter accepts the event, so only a slot-aligned comparison refuses it
        for i in range(300 if tier == "quick" else 6000):
            e = rand_event(rng)
            f = {"ids": [], "authors": [], "kinds": [], "tags": [], "since": None, "until": None, "limit": None}
            which = rng.choice(["kinds", "kinds", "ids", "authors"])
            if which == "kinds":
                ks = [rng.choice([1, 2, 256, 257, 30023, 1059, 65535, 0, 255, 4660, 13398]) for _ in range(rng.choice([2, 2, 3, 5]))]
                j = rng.randrange(len(ks) - 1)
                e["kind"] = (ks[j] >> 8) | ((ks[j + 1] & 0xFF) << 8)
                f["kinds"] = ks
            else:
                pool = [bytes([(7 * v + w) % 256 for w in range(32)]) for v in range(4)]
                vs = [rng.choice(pool) for _ in range(rng.choice([2, 2, 3]))]
                j, k = rng.randrange(len(vs) - 1), rng.randrange(1, 32)
                mixed = vs[j][k:] + vs[j + 1][:k]
                if which == "ids":
                    e["id"], f["ids"] = mixed, vs
                else:
                    e["pk"], f["authors"] = mixed, vs
            out.append(("slot-straddle", "match %s %s" % (C.t_filter(f), C.t_event(e))))
        # exhaustive small universe: every filter with <=1 entry per list and <=1 constraint of <=2 values
        # x every event with <=2 tags over small pools
        ids, aus, ks = IDS[:2], AUTHORS[:2], [1, 7]
        names, vals = [b"e", b"p"], [b"", b"x", b"xy"]
        tagpool = [[]] + [[n_] for n_ in names] + [[n_, v] for n_ in names for v in vals] + [[b"e", b"x", b"xy"]]
        evs = []
        for tg in itertools.chain([[]], ([t] for t in tagpool), ([t, u] for t in tagpool[2:6] for u in tagpool[5:])):
            for tm in (0, 5, C.U64):
                evs.append({"id": ids[0], "pk": aus[0], "sig": SIG, "kind": 1, "created": tm, "tags": tg, "content": b""})
        cons = [[]] + [[[n_] + list(vs)] for n_ in names for vs in ([], [b"x"], [b""], [b"xy", b"x"])]
        fls = []
        for i_ in ([], [ids[0]], [ids[1]]):
            for a_ in ([], [aus[1]]):
                for k_ in ([], [1], [7]):
                    for c in cons:
                        for (s, u) in ((None, None), (5, 5), (6, None), (None, 4)):
                            fls.append({"ids": i_, "authors": a_, "kinds": k_, "tags": c, "since": s, "until": u, "limit": None})
        pairs = [(f, e) for f in fls for e in evs]
        if tier == "quick":
            pairs = rng.sample(pairs, 3000)
        self._exh = tier != "quick"
        for f, e in pairs:
            out.append(("small-universe", "match %s %s" % (C.t_filter(f), C.t_event(e))))
        return out

    def extra_stats(self):
        return {"extra": {"small_universe_exhaustive": getattr(self, "_exh", False)}}

    def judge(self, gcls, line, model_out, impl_outs):
        m = C.kv(model_out)
        i = C.kv(impl_outs["debug"])
        nontriv = " L0 L0 L0 L0 " not in line[:20]
        if "impl" not in i:
            return Verdict(corr_ok=False, cls="ctor", detail="constructor failed: %s" % impl_outs["debug"], outcome="ctor-fail")
        outcome = i["impl"]
        if m.get("pre") != "true":
            return Verdict(corr_ok=False, cls="generator", detail="generated parts outside wf/fits", outcome="pre-false")
        # oracle: the specification's answer (for filters whose constraints all have names)
        if m["named"] == "true" and i["impl"] != "ok " + m["spec"]:
            return Verdict(oracle_ok=False, cls="match-differs-from-nip01",
                           detail="implementation answers %s, NIP-01 specification says %s" % (i["impl"], m["spec"]), outcome=outcome)
        # correspondence: model outcome and both encodings
        if m["model"] != i["impl"]:
            return Verdict(corr_ok=False, cls="match-model", detail="model %s vs impl %s" % (m["model"], i["impl"]), outcome=outcome)
        if m["fenc"] != i["fenc"] or m["eenc"] != i["eenc"]:
            return Verdict(corr_ok=False, cls="encoding", detail="enc_filter/enc_event differs from from_parts bytes", outcome=outcome)
        return Verdict(outcome=outcome, nontrivial=nontriv)
