"""C07 - filter JSON parsing is faithful, order-independent and round-trips."""
import itertools

import common as C
import jsongen as J
from engine import BaseEngine, Verdict

LETTERS = [chr(c) for c in list(range(65, 91)) + list(range(97, 123))]


def fl_tokens(f):
    return " ".join([C.tl(C.tb(x) for x in f["ids"]), C.tl(C.tb(x) for x in f["authors"]), C.tl(C.tn(k) for k in f["kinds"]),
                     C.ttags(f["tags"]), C.tn(f["since"]), C.tn(f["until"]), C.tn(f["limit"])])


def rand_filter(rng):
    rb = lambda n: bytes(rng.getrandbits(8) for _ in range(n))
    f = {}
    if rng.random() < 0.5:
        f["ids"] = [rb(32) for _ in range(rng.choice([0, 1, 2, 3]))]
    if rng.random() < 0.5:
        f["authors"] = [rb(32) for _ in range(rng.choice([0, 1, 2]))]
    if rng.random() < 0.5:
        f["kinds"] = [rng.choice([0, 1, 7, 65535, rng.randrange(65536)]) for _ in range(rng.choice([0, 1, 3]))]
    f["tags"] = [[L] + [J.rand_text(rng, 10) for _ in range(rng.choice([0, 1, 2, 3]))] for L in rng.sample(LETTERS, rng.choice([0, 0, 1, 2, 4]))]
    for k, pool in (("since", [0, 1, 1700000000, (1 << 64) - 1]), ("until", [0, 5, (1 << 64) - 1, 1 << 63]), ("limit", [0, 1, 500, (1 << 32) - 1, 1 << 32, 10 ** 12])):
        if rng.random() < 0.4:
            f[k] = rng.choice(pool)
    return f


def expect(f):
    return {"ids": f.get("ids") or [], "authors": f.get("authors") or [], "kinds": f.get("kinds") or [],
            "tags": [[t[0].encode()] + [v.encode() for v in t[1:]] for t in f.get("tags", [])],
            "since": f.get("since", 0) if f.get("since") is not None else 0,
            "until": f.get("until") if f.get("until") is not None else (1 << 64) - 1,
            "limit": min(f["limit"], (1 << 32) - 1) if f.get("limit") is not None else (1 << 32) - 1}


class Engine(BaseEngine):
    prop = "C07"
    profiles = ("debug", "release")
    rule = ("filter JSON texts rendered from the abstract syntax: every subset of ids/authors/kinds/since/until/limit/#letter members in random "
            "order (all orders of one value set in thorough), all 52x52 ordered pairs of tag letters and same-letter pairs, whitespace runs in "
            "every slot, values needing every escape, unknown members (incl. '#ee', '#', '#1', look-alikes) anywhere, integer boundaries "
            "(limit 2^32-1 / 2^32 / 10^12, since/until 2^64-1 / 2^64, kinds 65535/65536); each accepted filter is serialised (as_json), the "
            "text is read by python's json module and parsed back. oracle: accepted + accessors equal the independently extracted values "
            "(limit saturated), acceptance independent of order, as_json is valid JSON with the same values and parses back byte-identically. "
            "non-trivial = distinct accepted text")
    trusted = ["model JsonParse.v of filter.rs parse_json_filter / Filter::as_json; oracle: CPython 3 json module"]
    assumptions = ["duplicate member names make a text ambiguous for the independent parser: no claim on them",
                   "limit >= 2^32 is saturated to 2^32-1 (= no limit)"]

    def case(self, cls, text, outlen=4096, fill=0xAA):
        return (cls, "fljson %s %s %s" % (C.tb(text), C.tn(outlen), C.tn(fill)))

    def generate(self, rng, tier):
        out = []
        n = 1500 if tier == "quick" else 40000
        for _ in range(n):
            f = rand_filter(rng)
            text = J.render_filter(rng, f).encode()
            out.append(self.case("valid", text, rng.choice([4096, 4096, 2000]), rng.choice([0, 0xAA, 0xFF])))
        for a in LETTERS:
            for b in LETTERS:
                t = '{"#%s":["v"],"#%s":["w","x"]}' % (a, b)
                out.append(self.case("letter-pair" if a != b else "same-letter", t.encode()))
        f = {"ids": [bytes(32)], "authors": [bytes([1]) * 32], "kinds": [1, 2], "tags": [["e", "x"], ["p", "y", "z"]], "since": 5, "until": 9, "limit": 3}
        nm = 3 + 2 + 3
        perms = list(itertools.permutations(range(nm)))
        perms = rng.sample(perms, 200 if tier == "quick" else 5000)
        for p in perms:
            out.append(self.case("orders", J.render_filter(rng, f, order=list(p), plain=True).encode()))
        for lim in ((1 << 32) - 1, 1 << 32, 10 ** 12, (1 << 64) - 1, 1 << 64):
            out.append(self.case("int-ok" if lim < (1 << 64) else "int-bad", ('{"limit":%d}' % lim).encode()))
        for v in ((1 << 64) - 1, 1 << 64, 10 ** 20):
            for k in ("since", "until"):
                out.append(self.case("int-ok" if v < (1 << 64) else "int-bad", ('{"%s":%d}' % (k, v)).encode()))
        for k in (65535, 65536, 10 ** 10):
            out.append(self.case("int-ok" if k <= 65535 else "int-bad", ('{"kinds":[1,%d]}' % k).encode()))
        # values spread over every wrap-around window of a 64-bit (and 16-bit) accumulator
        for j in range(60 if tier == "quick" else 2000):
            v = rng.choice([rng.randrange(1 << 64, 10 ** 20), rng.randrange(10 ** 20, 10 ** 21), (1 << 64) * rng.randrange(1, 6) + rng.getrandbits(64),
                            3 * 10 ** 19, 36893488147419103231, (1 << 64) - 1 - rng.randrange(10), rng.randrange(1 << 63, 1 << 64)])
            k = rng.choice(["since", "until", "limit"])
            out.append(self.case("int-ok" if v < (1 << 64) else "int-bad", ('{"%s":%d}' % (k, v)).encode()))
            kv = rng.choice([rng.randrange(65536, 1 << 32), (1 << 16) * rng.randrange(1, 70000) + rng.randrange(65536), (1 << 64) + rng.randrange(65536), rng.randrange(65536)])
            out.append(self.case("int-ok" if kv <= 65535 else "int-bad", ('{"kinds":[%d]}' % kv).encode()))
        return out

    def judge(self, gcls, line, model_out, impl_outs):
        toks = line.split(" ")
        text = bytes.fromhex(toks[1][2:])
        m = C.kv(model_out)
        first = None
        for prof, o in impl_outs.items():
            i = C.kv(o)
            if "r" not in i or o.endswith("impl=panic") or o.startswith("PROCESS"):
                return Verdict(oracle_ok=False, cls="parser-panics", detail="[%s] %s" % (prof, o[:80]), outcome="panic")
            rcls = i["r"].split(":")[0]
            if gcls in ("valid", "orders", "letter-pair", "int-ok") and rcls != "ok":
                return Verdict(oracle_ok=False, cls="valid-filter-rejected", detail="[%s] a valid filter text is rejected (%s): %s" % (prof, i["r"], text[:80]), outcome=rcls)
            if gcls == "int-bad" and rcls == "ok":
                return Verdict(oracle_ok=False, cls="out-of-range-accepted", detail="[%s] an integer that does not fit was accepted" % prof, outcome=rcls)
            if rcls == "ok":
                consumed = int(i["consumed"])
                obj = J.ref_parse(text[:consumed])
                if obj is not None:
                    rf = J.ref_filter(obj)
                    if rf is None:
                        return Verdict(oracle_ok=False, cls="accepted-non-filter", detail="[%s] accepted, but the independent parser finds no filter" % prof, outcome=rcls)
                    if i["acc"] != fl_tokens(rf):
                        return Verdict(oracle_ok=False, cls="accessors-differ-from-json", detail="[%s] accessors differ from the independent parser's values" % prof, outcome=rcls)
                elif gcls in ("valid", "orders", "letter-pair", "int-ok"):
                    return Verdict(corr_ok=False, cls="generator", detail="generated text does not parse with python json", outcome=rcls)
                # serialisation: valid JSON, same values, parses back byte-identically
                if not i["json"].startswith("ok "):
                    return Verdict(oracle_ok=False, cls="as-json-fails", detail="[%s] as_json failed: %s" % (prof, i["json"][:40]), outcome=rcls)
                js = bytes.fromhex(i["json"][3:])
                jobj = J.ref_parse(js)
                if jobj is None:
                    return Verdict(oracle_ok=False, cls="as-json-not-json", detail="[%s] as_json output is not valid JSON: %s" % (prof, js[:100]), outcome=rcls)
                if obj is not None and fl_tokens(J.ref_filter(jobj) or {"ids": [], "authors": [], "kinds": [], "tags": [], "since": 0, "until": 0, "limit": 0}) != fl_tokens(rf):
                    return Verdict(oracle_ok=False, cls="as-json-differs", detail="[%s] as_json output denotes a different filter" % prof, outcome=rcls)
                if i["reparse"] != "true":
                    return Verdict(oracle_ok=False, cls="reparse-differs", detail="[%s] parsing as_json's output does not give the same bytes (%s)" % (prof, i["reparse"]), outcome=rcls)
            mr = m.get("r", "?").split(":")[0]
            if mr != rcls:
                return Verdict(corr_ok=False, cls="fljson-outcome", detail="[%s] model %s impl %s" % (prof, m.get("r"), i["r"]), outcome=rcls)
            if rcls == "ok":
                for k in ("consumed", "fl", "acc", "tail", "json", "reparse"):
                    if m.get(k) != i.get(k):
                        return Verdict(corr_ok=False, cls="fljson-" + k, detail="[%s] %s differs from the model" % (prof, k), outcome=rcls)
            first = first or rcls
        return Verdict(outcome=first, nontrivial=(first == "ok"))
