"""C08 - event verification accepts exactly correctly hashed and signed events."""
import hashlib
import os
import re

import common as C
import jsongen as J
from engine import BaseEngine, Verdict


def fixtures():
    """the signed JSON events of the repository's own tests"""
    src = open("/repo/pocket-types/src/event.rs", "rb").read()
    return [m.group(1) for m in re.finditer(rb'let json = br#"(\{.*?\})"#;', src)]


class Engine(BaseEngine):
    prop = "C08"
    profiles = ("debug",)
    rule = ("events signed by OwnedEvent::sign_new with random keys, all kinds/times, tags with 0..5 strings (empty, nested-looking '[\"a\"]', "
            "quotes, backslashes, every control character, multi-byte characters) and content over every ASCII character incl. all 32 "
            "controls, DEL, 2/3/4-byte scalars (thorough: every scalar class boundary), multi-byte characters straddling the 16/32/48/64-byte marks of an escape-free run followed by a character that needs escaping; the id is compared with SHA-256 (python hashlib, "
            "independent) of the canonical serialisation computed by the extracted Coq model Codec.canon from the same parts; verify() must "
            "accept; every single-field mutation (bits of id/pubkey/sig, created_at+-1, kind+-1, each tag string edited, tag split/merged/"
            "swapped/added, content edited, '\\n' vs backslash-n) must be rejected. Plus the signed fixture events of the repository's tests, "
            "verbatim and with one content byte changed. non-trivial = distinct signed event with >= 1 tag or non-empty content")
    trusted = ["Coq theorems about Codec.canon (CanonProofs.v); SHA-256 = python hashlib; BIP-340 = the real secp256k1 library (a signature-bit "
               "mutation being rejected is a fact about BIP-340, observed not proved); collision-freeness of SHA-256 is an explicit hypothesis"]
    assumptions = ["SHA-256 collision resistance", "BIP-340 unforgeability", "strings are valid UTF-8"]

    def rand_parts(self, rng):
        specials = ['"', "\\", "/", "\n", "\r", "\t", "\b", "\f", "\x00", "\x1f", "\x7f", "é", "†", "𝄞", "[", "]", ",", '["a"]', "\\n", "\\u0041", " "]

        def txt(maxn):
            n = rng.choice([0, 1, 2, 5, maxn])
            return "".join(rng.choice(specials + [chr(rng.randrange(0, 0x80)), chr(rng.randrange(0x20, 0x7f)), "a", "b"]) for _ in range(n))
        tags = [[txt(6) for _ in range(rng.choice([0, 1, 2, 2, 3, 5]))] for _ in range(rng.choice([0, 0, 1, 2, 4]))]
        return {"kind": rng.choice([0, 1, 5, 30023, 65535, rng.randrange(65536)]),
                "created": rng.choice([0, 1, 1700000000, (1 << 64) - 1, rng.getrandbits(64)]),
                "tags": tags, "content": txt(rng.choice([0, 3, 40])), "sk": bytes([rng.randrange(1, 255)]) + bytes(rng.getrandbits(8) for _ in range(31))}

    def generate(self, rng, tier):
        out = []
        for _ in range(250 if tier == "quick" else 6000):
            p = self.rand_parts(rng)
            out.append(("signed", "sign %s %s %s %s %s" % (C.tn(p["kind"]), C.tn(p["created"]), C.ttags([[s.encode() for s in t] for t in p["tags"]]),
                                                         C.tb(p["content"].encode()), C.tb(p["sk"]))))
        # every ASCII character (and boundary scalars) as a one-character content and as a tag string
        chars = [chr(c) for c in range(0, 0x80)] + ["\x80", "߿", "ࠀ", "퟿", "", "￿", "\U00010000", "\U0010ffff"]
        if tier != "quick":
            chars += [chr(c) for c in range(0x80, 0x800, 7)] + [chr(c) for c in range(0x800, 0xD800, 251)] + [chr(c) for c in range(0xE000, 0x110000, 4099)]
        sk = bytes([7]) * 32
        for ch in chars:
            out.append(("char", "sign n:1 n:1000 %s %s %s" % (C.ttags([[b"t", ("x" + ch).encode()]]), C.tb(("a" + ch + "b").encode()), C.tb(sk))))
        # block boundaries: a multi-byte character straddling the 16/32/48/64-byte mark of an escape-free run, directly
        # followed by a character that must be escaped (a copy loop working in fixed blocks resumes mid-character)
        for pad in ([13, 14, 15, 16, 29, 30, 31, 47, 63] if tier == "quick" else list(range(0, 70))):
            for mb in ("é", "†", "𝄞"):
                for nxt in ('"', "\\", "\n", "\x01"):
                    nx = {'"': '"', "\\": "\\", "\n": "\n", "\x01": "\x01"}[nxt]
                    text = "a" * pad + mb + nx + "z"
                    out.append(("block-boundary", "sign n:1 n:1000 %s %s %s" % (C.ttags([[b"t", text.encode()]]), C.tb(("q" + text).encode()), C.tb(sk))))
        # contents (and a tag string) beyond every 16-bit length: the length field of the content is 32 bits wide
        for n in ([65535, 65536, 70001] if tier == "quick" else [65534, 65535, 65536, 65537, 70001, 131072, 200000]):
            out.append(("large-content", "sign n:1 n:1000 %s %s %s" % (C.ttags([[b"t", b"x"]]), C.tb(bytes([97 + n % 7]) * n), C.tb(sk))))
        out.append(("large-content", "sign n:1 n:1000 %s %s %s" % (C.ttags([[b"t", b"y" * 60000]]), C.tb(b"z" * 66000), C.tb(sk))))
        # multi-byte characters straddling every power-of-two block size a chunked serialiser could use (256 .. 65536 bytes):
        # the character starts 1, 2 or 3 bytes before the boundary, in the content and in a tag string
        for blk in ([4096, 16384, 65536] if tier == "quick" else [256, 1024, 4096, 8192, 16384, 32768, 65536]):
            for ch in ("\u00e9", "\u20ac", "\U0001f600"):
                enc = ch.encode()
                for back in range(1, len(enc)):
                    for mult in ((1,) if tier == "quick" else (1, 2, 3)):
                        text = b"a" * (blk * mult - back) + enc + b"b" * 20
                        out.append(("chunk-boundary", "sign n:1 n:1000 %s %s %s" % (C.ttags([[b"t", b"x"]]), C.tb(text), C.tb(sk))))
            text = b"a" * (blk - 1) + "\u00e9".encode() + b"b"
            out.append(("chunk-boundary", "sign n:1 n:1000 %s %s %s" % (C.ttags([[b"t", text]] if blk < 60000 else [[b"t", b"x"]]), C.tb(b"c"), C.tb(sk))))
        for js in fixtures():
            out.append(("fixture", "verifyjson " + C.tb(js)))
            i = js.find(b'"content":"') + 11
            out.append(("fixture-mutated", "verifyjson " + C.tb(js[:i] + b"X" + js[i + 1:])))
        return out

    def execute(self, cases):
        lines = [c[1] for c in cases]
        impl = {"debug": C.run_lines(C.harness_exe("debug"), lines)}
        # the model needs the public key the implementation derived
        mlines = []
        for (gcls, line), o in zip(cases, impl["debug"]):
            i = C.kv(o)
            if line.startswith("sign ") and "pk" in i:
                t = line.split(" ")
                # sign kind created tags... content sk  ->  canon pk created kind tags content
                mlines.append("canon b:%s %s %s %s" % (i["pk"], t[2], t[1], " ".join(t[3:-1])))
            elif line.startswith("verifyjson "):
                mlines.append("canonjson " + line.split(" ", 1)[1])
            else:
                mlines.append("noop")
        model_out = C.run_lines(os.path.join(C.RUNNER, "runner.exe"), mlines)
        return model_out, impl

    def judge(self, gcls, line, model_out, impl_outs):
        o = impl_outs["debug"]
        i = C.kv(o)
        m = C.kv(model_out)
        if o.endswith("impl=panic") or "r" not in i:
            return Verdict(oracle_ok=False, cls="panics", detail=o[:80], outcome="panic")
        if gcls in ("signed", "char", "block-boundary", "large-content", "chunk-boundary"):
            if i["r"] != "ok":
                return Verdict(oracle_ok=False, cls="sign-fails", detail="sign_new failed: %s" % i["r"], outcome="err")
            if i["verify"] != "true":
                return Verdict(oracle_ok=False, cls="signed-event-does-not-verify", detail="an event produced by sign_new does not verify", outcome="noverify")
            if i["acc"] != "true":
                return Verdict(oracle_ok=False, cls="signed-event-fields", detail="the signed event's accessors differ from the parts", outcome="acc")
            if i["accepted_mutations"] != "-":
                return Verdict(oracle_ok=False, cls="mutation-accepted", detail="verification still succeeds after: %s" % i["accepted_mutations"], outcome="mut")
            if i.get("rejected_after", "-") != "-":
                return Verdict(oracle_ok=False, cls="verify-depends-on-history",
                               detail="the valid event was rejected when verified right after the rejected mutation(s): %s" % i["rejected_after"], outcome="hist")
            if not m.get("r", "").startswith("ok "):
                return Verdict(corr_ok=False, cls="canon-model", detail="model canon: %s" % m.get("r"), outcome="ok")
            want = hashlib.sha256(bytes.fromhex(m["r"][3:])).hexdigest()
            if want != i["id"]:
                return Verdict(oracle_ok=False, cls="id-not-canonical-hash",
                               detail="id %s differs from SHA-256 of the independent canonical serialisation %s" % (i["id"][:16], want[:16]), outcome="id")
            nontriv = " L0 b: " not in line
            return Verdict(outcome="ok/%s-mutations" % i["nmut"], nontrivial=nontriv)
        # fixtures
        if gcls == "fixture":
            if i["r"] != "ok" or i["verify"] != "true":
                return Verdict(oracle_ok=False, cls="fixture-rejected", detail="a correctly signed fixture event is rejected: %s" % o[:80], outcome="rej")
            want = hashlib.sha256(bytes.fromhex(m["r"][3:])).hexdigest() if m.get("r", "").startswith("ok ") else None
            if want != i["id"]:
                return Verdict(corr_ok=False, cls="canon-model", detail="model canon hash differs from the fixture id", outcome="ok")
            return Verdict(outcome="fixture-ok")
        if i["r"] == "ok" and i["verify"] == "true":
            return Verdict(oracle_ok=False, cls="mutation-accepted", detail="a fixture with its content changed still verifies", outcome="mut")
        return Verdict(outcome="fixture-mutated-rejected")
