"""C09 - at most one event per replaceable address; newer wins, older refused."""
from dbengine import DbEngine


class Engine(DbEngine):
    prop = 'C09'
    profiles = ('debug',)
    weights = {'new': 2, 'addr': 10, 'resubmit': 2, 'delete': 1.5, 'remove': 1.5, 'query': 1, 'qown': 1, 'reopen': 0.2}
    aspects = {'addrs.find', 'query', 'ids.has', 'ids.hash', 'store.result', 'store.errclass', 'stats.main'}
    quick = (200, 35)
    thorough = (5000, 80)
    rule = "address-heavy histories: stores at the same and neighbouring addresses (other author / other kind / other d) in every timestamp order (older, newer, equal, resubmitted, after removal), boundary kinds 0,3,9999,10000,19999,20000,29999,30000,39999,40000, d values empty, 'x','x\\\\0','x\\\\0\\\\0', 181/182/183-byte values sharing a 182-byte prefix, 476/477 bytes, second d tags. oracle: store result and every id's/address's observation equal the abstract store (at most one holder per address by construction there). Also the exhaustive 65536-kind classification sweep. non-trivial = history with >= 2 stores"
    trusted = DbEngine.db_trusted
    assumptions = ['a parameterized kind without a d tag has no address (what the code does)']
