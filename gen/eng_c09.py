"""C09 - at most one event per replaceable address; newer wins, older refused."""
import random

import common as C
from dbengine import DbEngine
from dbgen import HistGen, AUTHORS
from engine import Verdict


class Engine(DbEngine):
    prop = 'C09'
    profiles = ('debug',)
    weights = {'new': 2, 'addr': 10, 'resubmit': 2, 'delete': 1.5, 'remove': 1.5, 'query': 1, 'qown': 1, 'reopen': 0.2}
    aspects = {'addrs.find', 'query', 'ids.has', 'ids.hash', 'store.result', 'store.errclass', 'stats.main'}
    quick = (200, 35)
    thorough = (5000, 80)
    rule = "address-heavy histories: stores at the same and neighbouring addresses (other author / other kind / other d) in every timestamp order (older, newer, equal, resubmitted, after removal), boundary kinds 0,3,9999,10000,19999,20000,29999,30000,39999,40000, d values empty, 'x','x\\\\0','x\\\\0\\\\0', 181/182/183-byte values sharing a 182-byte prefix, 476/477 bytes, second d tags. oracle: store result and every id's/address's observation equal the abstract store (at most one holder per address by construction there). Also the exhaustive 65536-kind classification sweep. non-trivial = history with >= 2 stores. Plus arrival orders that only exist with several submitters: 2-3 events of one address (distinct created_at, sometimes an older holder already stored) offered by 2-3 threads of one Store under the schedule controller; whatever the interleaving, when all have returned exactly the newest is retrievable"
    trusted = DbEngine.db_trusted
    assumptions = ['a parameterized kind without a d tag has no address (what the code does)']
    races = {'quick': 120, 'thorough': 2500}

    def make_race(self, rng):
        sub = random.Random(rng.getrandbits(64))
        g = HistGen(sub, {'new': 3, 'addr': 2}, sub.choice([0, 1, 3])).run()
        pk = bytes([0xC9]) * 32          # an author the setup history never uses: the address starts empty
        kind = sub.choice([0, 3, 10000, 10002, 19999, 30000, 30023, 39999])
        tags = [[b'd', sub.choice([b'', b'x', b'room'])]] if kind >= 30000 else []
        n = sub.choice([2, 2, 3])
        times = sub.sample([100, 150, 200, 250, 300], n + 1)
        evs = [g.new_event(kind=kind, pk=pk, created=t, tags=[list(t_) for t_ in tags]) for t in times]
        for i, e in enumerate(evs):
            e['content'] = b'v%d' % i
            e['id'] = __import__('dbgen').fake_id(e)
        setup = [g.render_op(op) for op in g.ops]
        contenders = evs[:n]
        if sub.random() < 0.6:
            setup.append('store ' + C.t_event(evs[n]))     # a holder already there (older or newer than the contenders)
            allev = evs
        else:
            allev = contenders
        progs = [['store ' + C.t_event(e)] for e in contenders]
        line = self.race_line(sub, g, setup, progs, [e['id'] for e in allev])
        newest = max(range(len(allev)), key=lambda i: allev[i]['created'])
        return ('address-race:%d' % n, line), {'newest': newest, 'n': len(allev)}

    def judge_race(self, meta, out):
        resp, flags = self.race_parse(out)
        if len(flags) < meta['n']:
            return Verdict(corr_ok=False, cls='unparsable-output', detail=out[:120], outcome='unparsable')
        have = [i for i in range(meta['n']) if flags[i].startswith('1')]
        if have != [meta['newest']]:
            return Verdict(oracle_ok=False, cls='address-holders-after-concurrent-stores',
                           detail='after all submitters returned the address is held by the events #%s of %d (by id lookup); it must be held by exactly the newest (#%d)' % (have, meta['n'], meta['newest']),
                           outcome='holders')
        return Verdict(outcome='race-ok', nontrivial=True)
