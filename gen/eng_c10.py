"""C10 - a deletion request can never remove another author's events."""
import random

import common as C
from dbengine import DbEngine
from dbgen import HistGen, AUTHORS
from engine import Verdict


class Engine(DbEngine):
    prop = 'C10'
    profiles = ('debug',)
    weights = {'new': 4, 'addr': 3, 'delete': 10, 'resubmit': 1.5, 'remove': 0.5, 'qown': 0.5, 'ghost': 0.3}
    aspects = {'addrs.find', 'noop-on-failure', 'stats.del', 'addrs.asof', 'store.result', 'ids.del', 'ids.hash', 'ids.has'}
    quick = (200, 30)
    thorough = (5000, 70)
    rule = "deletion-heavy histories: kind-5 requests with 1-5 tags mixing own / foreign / absent / malformed 'e' targets and own / foreign / malformed 'a' addresses in every position, arriving at any point. oracle: every id's has/deleted/bytes and every address's marker/holder equal the abstract store after every op; a refused request changes nothing. non-trivial = history with >= 2 stores. Plus the arrival order that only exists with two submitters: an event and another author's request naming its id offered by two threads of one Store under the schedule controller; whatever the interleaving, an event whose store succeeded is retrievable and unmarked when both have returned (either the request came first and the store was refused, or the request was refused)"
    trusted = DbEngine.db_trusted
    assumptions = ["an 'e' tag naming an id that is not retrievable is marked without an author check (code comment: 'we presume this is valid'); the property speaks of stored events"]
    races = {'quick': 120, 'thorough': 2500}

    def make_race(self, rng):
        sub = random.Random(rng.getrandbits(64))
        g = HistGen(sub, {'new': 3, 'addr': 2}, sub.choice([0, 1, 3])).run()
        a, b = sub.sample(AUTHORS, 2)
        victim = g.new_event(kind=sub.choice([1, 1, 7, 30023]), pk=a, created=300, tags=[[b'd', b'v']] if sub.random() < 0.3 else [])
        victim['content'] = b'victim'
        victim['id'] = __import__('dbgen').fake_id(victim)
        own = g.new_event(kind=1, pk=b, created=301, tags=[])
        setup = [g.render_op(op) for op in g.ops]
        dtags = [[b'e', victim['id'].hex().encode()]]
        if sub.random() < 0.5:
            setup.append('store ' + C.t_event(own))
            dtags.insert(sub.randrange(2), [b'e', own['id'].hex().encode()])
        dreq = g.new_event(kind=5, pk=b, created=400, tags=dtags)
        progs = [['store ' + C.t_event(victim)], ['store ' + C.t_event(dreq)]]
        sub.shuffle(progs)
        line = self.race_line(sub, g, setup, progs, [victim['id'], dreq['id']])
        vpos = [t for t, p in enumerate(progs) if p[0] == 'store ' + C.t_event(victim)][0]
        return ('foreign-deletion-race', line), {'victim_thread': vpos}

    def judge_race(self, meta, out):
        resp, flags = self.race_parse(out)
        if not flags:
            return Verdict(corr_ok=False, cls='unparsable-output', detail=out[:120], outcome='unparsable')
        stored = resp.get('%d.0' % meta['victim_thread'], '').startswith('ok')
        if stored and not flags[0].startswith('10'):
            return Verdict(oracle_ok=False, cls='foreign-request-removed-a-stored-event',
                           detail="the event's store succeeded, yet after another author's deletion request naming it the event observes as has/deleted = %s" % flags[0][:2],
                           outcome='removed')
        return Verdict(outcome='race-ok' if stored else 'race-refused', nontrivial=True)
