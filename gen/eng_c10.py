"""C10 - a deletion request can never remove another author's events."""
from dbengine import DbEngine


class Engine(DbEngine):
    prop = 'C10'
    profiles = ('debug',)
    weights = {'new': 4, 'addr': 3, 'delete': 10, 'resubmit': 1.5, 'remove': 0.5, 'qown': 0.5}
    aspects = {'addrs.find', 'noop-on-failure', 'stats.del', 'addrs.asof', 'store.result', 'ids.del', 'ids.hash', 'ids.has'}
    quick = (200, 30)
    thorough = (5000, 70)
    rule = "deletion-heavy histories: kind-5 requests with 1-5 tags mixing own / foreign / absent / malformed 'e' targets and own / foreign / malformed 'a' addresses in every position, arriving at any point. oracle: every id's has/deleted/bytes and every address's marker/holder equal the abstract store after every op; a refused request changes nothing. non-trivial = history with >= 2 stores"
    trusted = DbEngine.db_trusted
    assumptions = ["an 'e' tag naming an id that is not retrievable is marked without an author check (code comment: 'we presume this is valid'); the property speaks of stored events"]
