"""C10 - a deletion request can never remove another author's events."""
import random

import common as C
from dbengine import DbEngine
from dbgen import HistGen, AUTHORS
from engine import Verdict


class Engine(DbEngine):
    prop = 'C10'
    profiles = ('debug',)
    weights = {'new': 4, 'addr': 3, 'delete': 10, 'resubmit': 1.5, 'remove': 0.5, 'qown': 0.5, 'ghost': 0.3, 'expired': 0.6}
    aspects = {'addrs.find', 'noop-on-failure', 'stats.del', 'addrs.asof', 'store.result', 'ids.del', 'ids.hash', 'ids.has'}
    quick = (200, 30)
    thorough = (5000, 70)
    rule = "deletion-heavy histories: kind-5 requests with 1-5 tags mixing own / foreign / absent / malformed 'e' targets and own / foreign / malformed 'a' addresses in every position, arriving at any point. oracle: every id's has/deleted/bytes and every address's marker/holder equal the abstract store after every op; a refused request changes nothing. non-trivial = history with >= 2 stores. Plus the arrival order that only exists with two submitters: an event and another author's request naming its id offered by two threads of one Store under the schedule controller; whatever the interleaving, an event whose store succeeded is retrievable and unmarked when both have returned (either the request came first and the store was refused, or the request was refused). Class crowded-readers: the request arrives while 125 / 126 / as many read transactions as the reader table takes are open (lookups that open their own read transaction fail): implementation-only oracle, the victims stay retrievable and unmarked"
    trusted = DbEngine.db_trusted
    assumptions = ["an 'e' tag naming an id that is not retrievable is marked without an author check (code comment: 'we presume this is valid'); the property speaks of stored events"]
    races = {'quick': 120, 'thorough': 2500}

    def make_race(self, rng):
        sub = random.Random(rng.getrandbits(64))
        g = HistGen(sub, {'new': 3, 'addr': 2}, sub.choice([0, 1, 3])).run()
        a, b = sub.sample(AUTHORS, 2)
        victim = g.new_event(kind=sub.choice([1, 1, 7, 30023]), pk=a, created=300, tags=[[b'd', b'v']] if sub.random() < 0.3 else [])
        victim['content'] = b'victim'
        victim['id'] = __import__('dbgen').fake_id(victim)
        own = g.new_event(kind=1, pk=b, created=301, tags=[])
        setup = [g.render_op(op) for op in g.ops]
        dtags = [[b'e', victim['id'].hex().encode()]]
        if sub.random() < 0.5:
            setup.append('store ' + C.t_event(own))
            dtags.insert(sub.randrange(2), [b'e', own['id'].hex().encode()])
        dreq = g.new_event(kind=5, pk=b, created=400, tags=dtags)
        progs = [['store ' + C.t_event(victim)], ['store ' + C.t_event(dreq)]]
        sub.shuffle(progs)
        line = self.race_line(sub, g, setup, progs, [victim['id'], dreq['id']])
        vpos = [t for t, p in enumerate(progs) if p[0] == 'store ' + C.t_event(victim)][0]
        return ('foreign-deletion-race', line), {'victim_thread': vpos}

    def judge_race(self, meta, out):
        resp, flags = self.race_parse(out)
        if not flags:
            return Verdict(corr_ok=False, cls='unparsable-output', detail=out[:120], outcome='unparsable')
        stored = resp.get('%d.0' % meta['victim_thread'], '').startswith('ok')
        if stored and not flags[0].startswith('10'):
            return Verdict(oracle_ok=False, cls='foreign-request-removed-a-stored-event',
                           detail="the event's store succeeded, yet after another author's deletion request naming it the event observes as has/deleted = %s" % flags[0][:2],
                           outcome='removed')
        return Verdict(outcome='race-ok' if stored else 'race-refused', nontrivial=True)

    # ---- the reader table is full (every LMDB reader slot taken by an open read transaction - what a relay serving its
    # maximum number of concurrent queries looks like): lookups that open their own read transaction fail.  Whatever the
    # request returns then, another author's events must stay retrievable and unmarked.  Implementation only.
    def skip_model(self, gcls):
        return gcls == 'crowded-readers'

    def generate(self, rng, tier):
        from dbgen import fake_id
        out = super().generate(rng, tier)
        for i in range(12 if tier == 'quick' else 300):
            sub = random.Random(rng.getrandbits(64))
            g = HistGen(sub, {'new': 3, 'addr': 2}, sub.choice([0, 2, 4])).run()
            a, b = sub.sample(AUTHORS, 2)
            victims = []
            for j in range(sub.choice([1, 2, 3])):
                kind = sub.choice([1, 1, 7, 30023, 10002, 0])
                v = g.new_event(kind=kind, pk=a, created=300 + j, tags=[[b'd', b'v%d' % j]] if kind == 30023 else [])
                v['content'] = b'victim %d' % j
                v['id'] = fake_id(v)
                g.op_store(v)
                g.note_event(v)
                victims.append(v)
            ops = [g.render_op(op) for op in g.ops]
            obs = 'obs %s L0' % C.tl(C.tb(v['id']) for v in victims)
            ops.append(obs)
            for j in range(sub.choice([1, 2])):
                tags = []
                for v in sub.sample(victims, sub.choice([1, len(victims)])):
                    tags.append([b'e', v['id'].hex().encode()])
                    if v['kind'] in (30023, 10002, 0) and sub.random() < 0.5:
                        d = v['tags'][0][1] if v['tags'] else b''
                        tags.append([b'a', b'%d:%s:%s' % (v['kind'], v['pk'].hex().encode(), d)])
                if sub.random() < 0.3:
                    tags.insert(0, [b'e', b'00' * 32])
                req = g.new_event(kind=5, pk=b, created=400 + j, tags=tags)
                ops.append('crowded %s store %s' % (C.tn(sub.choice([0, 0, 0, 125, 126])), C.t_event(req)))
                ops.append(obs)
            line = 'dbhist ' + C.tl(C.tb(n_) for n_ in g.names) + ''.join(' ; ' + x for x in ops)
            out.append(('crowded-readers', line))
        return out

    def judge(self, gcls, line, model_out, impl_outs):
        if gcls != 'crowded-readers':
            return super().judge(gcls, line, model_out, impl_outs)
        from dbjudge import parse_obs
        o = impl_outs[self.profiles[0]]
        if not o.startswith('dbhist '):
            return Verdict(oracle_ok=False, cls='harness-died', detail=o[:100], outcome='died')
        segs = o[len('dbhist '):].split(' | ')
        kinds = [x.split(' ', 1)[0] for x in line.split(' ; ')[1:]]
        if len(segs) != len(kinds):
            return Verdict(oracle_ok=False, cls='store-died', detail='history stopped after op %d' % len(segs), outcome='died')
        full = 0
        base = None      # the victims as they observe before any request (a later victim may have replaced an earlier one)
        for n, (k, seg) in enumerate(zip(kinds, segs)):
            if seg == 'panic' or seg.endswith(' panic'):
                return Verdict(oracle_ok=False, cls='panic', detail='op %d (%s) panicked' % (n, k), outcome='panic')
            if k == 'crowded' and ' err' in seg:
                full += 1
            if k == 'obs':
                cur = parse_obs(seg)
                now = list(zip(cur.get('ids.has', []), cur.get('ids.del', []), cur.get('ids.hash', [])))
                if base is None:
                    base = now
                    continue
                for (has, dl, _h), was in zip(now, base):
                    # only an event that WAS retrievable is protected (a victim that a later victim replaced is not stored any
                    # more: an 'e' tag naming such an id is marked without an author check - the documented assumption)
                    if was[0] == '1' and (has, dl, _h) != was:
                        return Verdict(oracle_ok=False, cls='foreign-request-removed-a-stored-event',
                                       detail="op %d: after another author's deletion request arrived while the reader table was crowded, a victim observes as has/deleted = %s%s" % (n, has, dl),
                                       outcome='removed')
        return Verdict(outcome='crowded/%s' % ('request-failed' if full else 'request-answered'), nontrivial=True)
