"""C11 - accepted deletions are permanent; deletion times never move backwards."""
import os
import random
import re
import shutil

import common as C
from dbengine import DbEngine
from dbgen import HistGen, AUTHORS, addr_str
from engine import Verdict


class Engine(DbEngine):
    prop = 'C11'
    profiles = ('debug',)
    weights = {'new': 3, 'addr': 5, 'delete': 8, 'resubmit': 5, 'remove': 0.5, 'reopen': 0.5, 'rebuild': 0.5, 'qown': 0.5}
    aspects = {'addrs.find', 'stats.del', 'addrs.asof', 'store.result', 'store.errclass', 'ids.del', 'rebuild-preserves', 'reopen-preserves', 'ids.has'}
    quick = (200, 35)
    thorough = (5000, 80)
    rule = ('1-4 deletion requests per id/address in every arrival order relative to each other and to the events they cover (before, after, resubmission), '
            'continuations with reopen/rebuild. oracle: store results (deleted vs accepted) and markers with their times equal the abstract store, whose '
            'deletion times are monotone by theorem. non-trivial = history with >= 2 stores. Plus arrival orders that only exist with two submitters: '
            'the covered event and the deletion request are offered by two threads of one Store under the schedule controller (every verif point a pause '
            'point, seeded choice); whatever the interleaving, once the request has been accepted the covered event must be unretrievable at the end')
    trusted = DbEngine.db_trusted
    assumptions = []
    races = {'quick': 120, 'thorough': 2500}

    def make_race(self, rng):
        """one covered event and one deletion request by its author (by id, by address, or both), offered
        concurrently; sometimes a resubmission of the covered event by a third thread"""
        sub = random.Random(rng.getrandbits(64))
        g = HistGen(sub, {'new': 3, 'addr': 2}, sub.choice([0, 1, 3])).run()
        setup = [g.render_op(op) for op in g.ops]
        pk = sub.choice(AUTHORS)
        by_addr = sub.random() < 0.5
        if by_addr:
            kind = sub.choice([30000, 30023, 10000])
            d = sub.choice([b'', b'x', b'room'])
            tags = [[b'd', d]] if kind >= 30000 else []
            cov = g.new_event(kind=kind, pk=pk, created=500, tags=tags)
            dk = d if kind >= 30000 else b''
            dtags = [[b'a', addr_str(kind, pk, dk)]]
            if sub.random() < 0.3:
                dtags.append([b'e', cov['id'].hex().encode()])
            dreq = g.new_event(kind=5, pk=pk, created=sub.choice([500, 501, 900]), tags=dtags)
        else:
            cov = g.new_event(kind=1, pk=pk, created=500, tags=[])
            dreq = g.new_event(kind=5, pk=pk, created=sub.choice([400, 600]), tags=[[b'e', cov['id'].hex().encode()]])
        cov['content'] = b'covered'
        progs = [['store ' + C.t_event(cov)], ['store ' + C.t_event(dreq)]]
        if sub.random() < 0.3:
            progs.append(['store ' + C.t_event(cov)])
        sub.shuffle(progs)
        obs = 'obs %s L0' % C.tl([C.tb(cov['id']), C.tb(dreq['id'])])
        names = C.tl(C.tb(n) for n in g.names)
        line = 'conc %s %s %s ; S %s%s ; F ; %s' % (names, C.tn(sub.getrandbits(40)), C.tn(sub.choice([50, 150, 300, 600])),
                                                   ''.join(' ; ' + o for o in setup), ''.join(' ; T' + ''.join(' ; ' + o for o in p) for p in progs), obs)
        dpos = [t for t, p in enumerate(progs) if p[0] == 'store ' + C.t_event(dreq)][0]
        return ('deletion-race:' + ('addr' if by_addr else 'id'), line), {'dreq_thread': dpos}

    def judge_race(self, meta, out):
        if not out.startswith('conc sched='):
            return Verdict(oracle_ok=False, cls='concurrent-run-died', detail=out[:120], outcome='died')
        if re.search(r'sched=\S*(WATCHDOG|DEADLOCK)', out):
            return Verdict(corr_ok=False, cls='schedule-controller', detail='controller stuck', outcome='stuck')
        rs = re.search(r' resp=(.*?) final=', out)
        resp = {}
        for part in (rs.group(1).split(' ;; ') if rs and rs.group(1) else []):
            k, _, v = part.partition('=')
            resp[k] = v
        accepted = resp.get('%d.0' % meta['dreq_thread'], '').startswith('ok')
        fin = re.search(r' final=ids=(\S*)', out)
        flags = fin.group(1).split(',') if fin else []
        if not flags:
            return Verdict(corr_ok=False, cls='unparsable-output', detail=out[:120], outcome='unparsable')
        has_cov = flags[0].startswith('1')
        if accepted and has_cov:
            return Verdict(oracle_ok=False, cls='covered-event-retrievable-after-accepted-deletion',
                           detail='the deletion request was accepted (%s) and the event it covers is retrievable when all submitters have returned' % resp.get('%d.0' % meta['dreq_thread']),
                           outcome='retrievable')
        return Verdict(outcome='race-ok' if accepted else 'race-refused', nontrivial=True)

    def run(self, rng, tier, seed):
        res = super().run(rng, tier, seed)
        rundir = os.path.join(C.CACHE, 'run', 'C11c-%d' % os.getpid())
        os.makedirs(rundir, exist_ok=True)
        env = dict(C.ENV)
        env['VERIF_RUN_DIR'] = rundir
        try:
            cases = [self.make_race(rng) for _ in range(self.races['quick' if tier == 'quick' else 'thorough'])]
            outs = C.run_lines(C.harness_exe('debug'), [c[0][1] for c in cases], env=env, shards=8)
        finally:
            shutil.rmtree(rundir, ignore_errors=True)
        dist = res['stats']['distribution']
        scheds = set()
        for ((gcls, line), meta), o in zip(cases, outs):
            v = self.judge_race(meta, o)
            key = '%s/%s' % (gcls, v.outcome)
            dist[key] = dist.get(key, 0) + 1
            m = re.search(r'sched=(\S*)', o)
            scheds.add(m.group(1) if m else line)
            payload = {'kind': 'schedule', 'seed': seed, 'case': line, 'class': gcls, 'impl': o[:4000], 'dreq_thread': meta['dreq_thread']}
            if not v.oracle_ok:
                payload['oracle'] = v.detail
                res['failures'].append(('oracle', v.cls, payload))
            elif not v.corr_ok:
                payload['correspondence'] = v.detail
                res['failures'].append(('corr', v.cls, payload))
        res['stats']['evaluations'] += len(cases)
        res['stats']['distinct_nontrivial'] += len(scheds)
        res['stats'].setdefault('extra', {})['deletion_races'] = len(cases)
        res['failures'].sort(key=lambda f: (f[0] != 'oracle', len(f[2]['case'])))
        return res

    def replay(self, payload):
        if payload.get('kind') != 'schedule':
            return super().replay(payload)
        rundir = os.path.join(C.CACHE, 'run', 'C11r-%d' % os.getpid())
        os.makedirs(rundir, exist_ok=True)
        env = dict(C.ENV)
        env['VERIF_RUN_DIR'] = rundir
        C.build_harness(self.profiles)
        out = C.run_lines(C.harness_exe('debug'), [payload['case']], env=env)
        shutil.rmtree(rundir, ignore_errors=True)
        v = self.judge_race({'dreq_thread': payload.get('dreq_thread', 0)}, out[0])
        print('case: %s' % payload['case'][:1500])
        print('impl (this run; the schedule is re-derived from the same seed): %s' % out[0][:3000])
        print('oracle: %s %s' % ('ok' if v.oracle_ok else 'FAILS', v.detail))
        return 0 if (v.oracle_ok and v.corr_ok) else 1
