"""C11 - accepted deletions are permanent; deletion times never move backwards."""
from dbengine import DbEngine


class Engine(DbEngine):
    prop = 'C11'
    profiles = ('debug',)
    weights = {'new': 3, 'addr': 5, 'delete': 8, 'resubmit': 5, 'remove': 0.5, 'reopen': 0.5, 'rebuild': 0.5, 'qown': 0.5}
    aspects = {'addrs.find', 'stats.del', 'addrs.asof', 'store.result', 'store.errclass', 'ids.del', 'rebuild-preserves', 'reopen-preserves', 'ids.has'}
    quick = (200, 35)
    thorough = (5000, 80)
    rule = '1-4 deletion requests per id/address in every arrival order relative to each other and to the events they cover (before, after, resubmission), continuations with reopen/rebuild. oracle: store results (deleted vs accepted) and markers with their times equal the abstract store, whose deletion times are monotone by theorem. non-trivial = history with >= 2 stores'
    trusted = DbEngine.db_trusted
    assumptions = []
