"""C11 - accepted deletions are permanent; deletion times never move backwards."""
import random

import common as C
from dbengine import DbEngine
from dbgen import HistGen, AUTHORS, addr_str
from engine import Verdict


class Engine(DbEngine):
    prop = 'C11'
    profiles = ('debug',)
    weights = {'new': 3, 'addr': 5, 'delete': 8, 'resubmit': 5, 'remove': 0.5, 'reopen': 0.5, 'rebuild': 0.5, 'qown': 0.5}
    aspects = {'addrs.find', 'stats.del', 'addrs.asof', 'store.result', 'store.errclass', 'ids.del', 'rebuild-preserves', 'reopen-preserves', 'ids.has'}
    quick = (200, 35)
    thorough = (5000, 80)
    rule = ('1-4 deletion requests per id/address in every arrival order relative to each other and to the events they cover (before, after, resubmission), '
            'continuations with reopen/rebuild. oracle: store results (deleted vs accepted) and markers with their times equal the abstract store, whose '
            'deletion times are monotone by theorem. non-trivial = history with >= 2 stores. Plus arrival orders that only exist with two submitters: '
            'the covered event and the deletion request are offered by two threads of one Store under the schedule controller (every verif point a pause '
            'point, seeded choice); whatever the interleaving, once the request has been accepted the covered event must be unretrievable at the end')
    trusted = DbEngine.db_trusted
    assumptions = []
    races = {'quick': 120, 'thorough': 2500}

    def make_race(self, rng):
        """one covered event and one deletion request by its author (by id, by address, or both), offered
        concurrently; sometimes a resubmission of the covered event by a third thread"""
        sub = random.Random(rng.getrandbits(64))
        g = HistGen(sub, {'new': 3, 'addr': 2}, sub.choice([0, 1, 3])).run()
        setup = [g.render_op(op) for op in g.ops]
        pk = sub.choice(AUTHORS)
        by_addr = sub.random() < 0.5
        if by_addr:
            kind = sub.choice([30000, 30023, 10000])
            d = sub.choice([b'', b'x', b'room'])
            tags = [[b'd', d]] if kind >= 30000 else []
            cov = g.new_event(kind=kind, pk=pk, created=500, tags=tags)
            dk = d if kind >= 30000 else b''
            dtags = [[b'a', addr_str(kind, pk, dk)]]
            if sub.random() < 0.3:
                dtags.append([b'e', cov['id'].hex().encode()])
            dreq = g.new_event(kind=5, pk=pk, created=sub.choice([500, 501, 900]), tags=dtags)
        else:
            cov = g.new_event(kind=1, pk=pk, created=500, tags=[])
            dreq = g.new_event(kind=5, pk=pk, created=sub.choice([400, 600]), tags=[[b'e', cov['id'].hex().encode()]])
        cov['content'] = b'covered'
        progs = [['store ' + C.t_event(cov)], ['store ' + C.t_event(dreq)]]
        if sub.random() < 0.3:
            progs.append(['store ' + C.t_event(cov)])
        sub.shuffle(progs)
        line = self.race_line(sub, g, setup, progs, [cov['id'], dreq['id']])
        dpos = [t for t, p in enumerate(progs) if p[0] == 'store ' + C.t_event(dreq)][0]
        return ('deletion-race:' + ('addr' if by_addr else 'id'), line), {'dreq_thread': dpos}

    def judge_race(self, meta, out):
        resp, flags = self.race_parse(out)
        if not flags:
            return Verdict(corr_ok=False, cls='unparsable-output', detail=out[:120], outcome='unparsable')
        accepted = resp.get('%d.0' % meta['dreq_thread'], '').startswith('ok')
        if accepted and flags[0].startswith('1'):
            return Verdict(oracle_ok=False, cls='covered-event-retrievable-after-accepted-deletion',
                           detail='the deletion request was accepted (%s) and the event it covers is retrievable when all submitters have returned' % resp.get('%d.0' % meta['dreq_thread']),
                           outcome='retrievable')
        return Verdict(outcome='race-ok' if accepted else 'race-refused', nontrivial=True)

    # identifiers that contain colons: the address in an a tag is kind:author:identifier, and only the first two colons
    # separate; neighbours whose identifier is a prefix up to a colon must stay untouched
    def generate(self, rng, tier):
        from dbgen import addr_str, fake_id, AUTHORS
        out = super().generate(rng, tier)
        for i in range(10 if tier == 'quick' else 200):
            sub = random.Random(rng.getrandbits(64))
            g = HistGen(sub, {'new': 2, 'addr': 1}, sub.choice([0, 2])).run()
            a = sub.choice(AUTHORS)
            kind = sub.choice([30023, 30000, 39999])
            full = sub.choice([b'chat:general', b'a:b:c', b':', b'x:', b':x', b'30023:' + a.hex().encode() + b':x', b'chat::'])
            cut = full.split(b':')[0]
            longer = full + sub.choice([b':more', b'x'])
            evs = []
            for d, t in ((full, 100), (cut, 101), (longer, 102)):
                e = g.new_event(kind=kind, pk=a, created=t, tags=[[b'd', d]])
                e['content'] = b'at ' + d
                e['id'] = fake_id(e)
                g.op_store(e)
                g.note_addr(kind, a, d)
                evs.append(e)
            req = g.new_event(kind=5, pk=a, created=200, tags=[[b'a', addr_str(kind, a, full)]])
            g.op_store(req)
            # afterwards: an older event at the deleted address is refused, at the neighbours accepted
            for d, t in ((full, 150), (cut, 150), (longer, 150), (full, 250)):
                e = g.new_event(kind=kind, pk=a, created=t, tags=[[b'd', d]])
                e['content'] = b'later at ' + d
                e['id'] = fake_id(e)
                g.op_store(e)
            if sub.random() < 0.4:
                g.ops.append((sub.choice(['reopen', 'rebuild']),))
            out.append(('colon-identifier', g.render()))
        # deletion requests whose own time is the largest a u64 holds (and the one below): the marker time sits at the end of
        # the range, where `time + 1` and `time - 1` are not what they are elsewhere; later stores at the address, at every
        # corner of the time range, must all be refused, on the neighbour address accepted
        for i in range(8 if tier == 'quick' else 100):
            sub = random.Random(rng.getrandbits(64))
            g = HistGen(sub, {'new': 2, 'addr': 1}, sub.choice([0, 2])).run()
            a = sub.choice(AUTHORS)
            kind = sub.choice([30023, 10002, 0, 3, 39999])
            d = b'' if kind < 30000 else sub.choice([b'x', b'', b'L' * 182])
            other = b'other'
            tmax = sub.choice([C.U64, C.U64, C.U64 - 1])
            tg = [[b'd', d]] if kind >= 30000 else []
            first = g.new_event(kind=kind, pk=a, created=sub.choice([100, tmax, C.U64 - 1]), tags=tg)
            g.op_store(first)
            g.note_addr(kind, a, d)
            tags = [[b'a', addr_str(kind, a, d)]]
            if sub.random() < 0.5:
                tags.append([b'e', first['id'].hex().encode()])
            req = g.new_event(kind=5, pk=a, created=tmax, tags=tags)
            g.op_store(req)
            for t in sub.sample([0, 1, 100, C.U64 - 2, C.U64 - 1, C.U64], 4):
                e = g.new_event(kind=kind, pk=a, created=t, tags=tg)
                e['content'] = b'after the marker at %d' % t
                e['id'] = fake_id(e)
                g.op_store(e)
            if kind >= 30000:
                e = g.new_event(kind=kind, pk=a, created=sub.choice([0, 100, C.U64]), tags=[[b'd', other]])
                g.op_store(e)
                g.note_addr(kind, a, other)
            g.op_store(first)                    # the covered event offered again
            if sub.random() < 0.4:
                g.ops.append((sub.choice(['reopen', 'rebuild']),))
                e = g.new_event(kind=kind, pk=a, created=sub.choice([0, C.U64 - 1, C.U64]), tags=tg)
                g.op_store(e)
            out.append(('marker-at-max', g.render()))
        return out
