"""C12 - a store call that fails changes nothing observable."""
from dbengine import DbEngine


class Engine(DbEngine):
    prop = "C12"
    weights = {"new": 3, "addr": 4, "resubmit": 4, "delete": 5, "remove": 1, "giftwrap": 0.2, "query": 0.5, "qown": 0.5, "xput": 0.3}
    aspects = {"store.result", "noop-on-failure", "ids.has", "ids.del", "ids.hash", "addrs.asof", "addrs.find",
               "stats.main", "stats.tags", "stats.del", "extra", "query"}
    rule = ("operation histories over 4 authors, 15 boundary kinds, a 10-value timestamp pool (+0, 1, 2^64-1), adversarial d/tag values "
            "(NUL-suffixed, 181/182/183/476/477 bytes); >= 50% of ops are stores designed to fail (duplicate, deleted by id/address, "
            "replaced, invalid delete at tag k of n, oversize address key); after every op a full observation dump (every id, every "
            "address, entry counters, extra tables). oracle: dump identical before/after each failing store; results equal the abstract store. "
            "non-trivial = distinct history with >= 2 stores")
    trusted = DbEngine.db_trusted
    assumptions = ["event-map bytes (stats.event_bytes) may grow on a failed store: explicitly outside the property"]

    def generate(self, rng, tier):
        import random
        import common as C
        from dbgen import HistGen, AUTHORS, fake_id
        out = super().generate(rng, tier)
        # one request with MANY effective targets and one target that makes it fail: whatever batching the
        # implementation applies while it works through the tags, a failed request must leave nothing behind
        for i in range(3 if tier == "quick" else 40):
            sub = random.Random(rng.getrandbits(64))
            g = HistGen(sub, {"new": 1}, 0).run()
            me, other = AUTHORS[0], AUTHORS[1]
            n = sub.choice([127, 128, 129, 200]) if tier == "quick" else sub.choice([64, 127, 128, 129, 255, 256, 257, 300])
            own = []
            for j in range(n):
                e = g.new_event(kind=sub.choice([1, 1, 7]), pk=me, created=1000 + j, tags=[])
                e["content"] = b"n%d" % j
                e["id"] = fake_id(e)
                g.op_store(e)
                g.note_event(e)
                own.append(e)
            foreign = g.new_event(kind=1, pk=other, created=50, tags=[])
            g.op_store(foreign)
            tags = [[b"e", e["id"].hex().encode()] for e in own]
            bad = [b"e", foreign["id"].hex().encode()]
            pos = sub.choice([len(tags), len(tags), len(tags) - 1, 130 if n > 130 else len(tags)])
            tags.insert(pos, bad)
            g.op_store(g.new_event(kind=5, pk=me, created=5000, tags=tags))
            if sub.random() < 0.5:
                g.op_store(own[0])           # a resubmission: still a duplicate, not "deleted"
            # observe right before and right after the request (and at the very end)
            obs = "obs %s %s" % (C.tl(C.tb(i_) for i_ in g.ids), C.tl("%s %s %s" % (C.tn(k_), C.tb(a_), C.tb(d_)) for k_, a_, d_ in g.addrs))
            parts = ["dbhist " + C.tl(C.tb(n_) for n_ in g.names), "; " + obs]
            for n_, op in enumerate(g.ops):
                parts.append("; " + g.render_op(op))
                if n_ >= n:
                    parts.append("; " + obs)
            out.append(("big-failing-request", " ".join(parts)))
        return out
