"""C12 - a store call that fails changes nothing observable."""
from dbengine import DbEngine


class Engine(DbEngine):
    prop = "C12"
    weights = {"new": 3, "addr": 4, "resubmit": 4, "delete": 5, "remove": 1, "giftwrap": 0.2, "query": 0.5, "qown": 0.5, "xput": 0.3}
    aspects = {"store.result", "noop-on-failure", "ids.has", "ids.del", "ids.hash", "addrs.asof", "addrs.find",
               "stats.main", "stats.tags", "stats.del", "extra", "query"}
    rule = ("operation histories over 4 authors, 15 boundary kinds, a 10-value timestamp pool (+0, 1, 2^64-1), adversarial d/tag values "
            "(NUL-suffixed, 181/182/183/476/477 bytes); >= 50% of ops are stores designed to fail (duplicate, deleted by id/address, "
            "replaced, invalid delete at tag k of n, oversize address key); after every op a full observation dump (every id, every "
            "address, entry counters, extra tables). oracle: dump identical before/after each failing store; results equal the abstract store. "
            "non-trivial = distinct history with >= 2 stores")
    trusted = DbEngine.db_trusted
    assumptions = ["event-map bytes (stats.event_bytes) may grow on a failed store: explicitly outside the property"]
