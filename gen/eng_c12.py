"""C12 - a store call that fails changes nothing observable."""
from dbengine import DbEngine


class Engine(DbEngine):
    prop = "C12"
    weights = {"new": 3, "addr": 4, "resubmit": 4, "delete": 5, "remove": 1, "giftwrap": 0.2, "query": 0.5, "qown": 0.5, "xput": 0.3}
    aspects = {"store.result", "noop-on-failure", "ids.has", "ids.del", "ids.hash", "addrs.asof", "addrs.find",
               "stats.main", "stats.tags", "stats.del", "extra", "query"}
    rule = ("operation histories over 4 authors, 15 boundary kinds, a 10-value timestamp pool (+0, 1, 2^64-1), adversarial d/tag values "
            "(NUL-suffixed, 181/182/183/476/477 bytes); >= 50% of ops are stores designed to fail (duplicate, deleted by id/address, "
            "replaced, invalid delete at tag k of n, oversize address key); after every op a full observation dump (every id, every "
            "address, entry counters, extra tables). oracle: dump identical before/after each failing store; results equal the abstract store. "
            "Plus failures the environment causes: under a soft RLIMIT_FSIZE no file may grow, stores that need room fail with an I/O error at whatever step extends a file; the dump before and after each failed store must be identical (implementation only). "
            "non-trivial = distinct history with >= 2 stores")
    trusted = DbEngine.db_trusted
    assumptions = ["event-map bytes (stats.event_bytes) may grow on a failed store: explicitly outside the property"]

    def generate(self, rng, tier):
        import random
        import common as C
        from dbgen import HistGen, AUTHORS, fake_id
        out = super().generate(rng, tier)
        # one request with MANY effective targets and one target that makes it fail: whatever batching the
        # implementation applies while it works through the tags, a failed request must leave nothing behind
        for i in range(3 if tier == "quick" else 40):
            sub = random.Random(rng.getrandbits(64))
            g = HistGen(sub, {"new": 1}, 0).run()
            me, other = AUTHORS[0], AUTHORS[1]
            n = sub.choice([127, 128, 129, 200]) if tier == "quick" else sub.choice([64, 127, 128, 129, 255, 256, 257, 300])
            own = []
            for j in range(n):
                e = g.new_event(kind=sub.choice([1, 1, 7]), pk=me, created=1000 + j, tags=[])
                e["content"] = b"n%d" % j
                e["id"] = fake_id(e)
                g.op_store(e)
                g.note_event(e)
                own.append(e)
            foreign = g.new_event(kind=1, pk=other, created=50, tags=[])
            g.op_store(foreign)
            tags = [[b"e", e["id"].hex().encode()] for e in own]
            bad = [b"e", foreign["id"].hex().encode()]
            pos = sub.choice([len(tags), len(tags), len(tags) - 1, 130 if n > 130 else len(tags)])
            tags.insert(pos, bad)
            g.op_store(g.new_event(kind=5, pk=me, created=5000, tags=tags))
            if sub.random() < 0.5:
                g.op_store(own[0])           # a resubmission: still a duplicate, not "deleted"
            # observe right before and right after the request (and at the very end)
            obs = "obs %s %s" % (C.tl(C.tb(i_) for i_ in g.ids), C.tl("%s %s %s" % (C.tn(k_), C.tb(a_), C.tb(d_)) for k_, a_, d_ in g.addrs))
            parts = ["dbhist " + C.tl(C.tb(n_) for n_ in g.names), "; " + obs]
            for n_, op in enumerate(g.ops):
                parts.append("; " + g.render_op(op))
                if n_ >= n:
                    parts.append("; " + obs)
            out.append(("big-failing-request", " ".join(parts)))
        return out + self.io_cases(rng, tier)

    # ---- failures the environment causes: no file may grow (soft RLIMIT_FSIZE), so a store that needs room fails with an
    # I/O error at whichever step tries to extend a file. Judged on the implementation alone: whatever a FAILED store did
    # before failing, the observation dump before and after it must be identical.
    def skip_model(self, gcls):
        return gcls == "io-failure"

    def io_cases(self, rng, tier):
        import random
        import common as C
        from dbgen import HistGen, AUTHORS, fake_id
        out = []
        for i in range(12 if tier == "quick" else 300):
            sub = random.Random(rng.getrandbits(64))
            g = HistGen(sub, {"new": 3, "addr": 1}, sub.choice([0, 2, 5])).run()
            obs = lambda: "obs %s %s" % (C.tl(C.tb(i_) for i_ in g.ids), C.tl("%s %s %s" % (C.tn(k_), C.tb(a_), C.tb(d_)) for k_, a_, d_ in g.addrs))
            pre = [g.render_op(op) for op in g.ops]
            post = []
            me, other = AUTHORS[0], AUTHORS[1]
            # a large event map first: the limit then leaves LMDB's data file (much smaller) room to commit, while the
            # event map itself cannot grow by another chunk
            for j in range(sub.choice([5, 6, 8])):
                big = g.new_event(kind=1, pk=other, tags=[])
                big["content"] = b"B" * sub.choice([40000, 50000, 60000])
                big["id"] = fake_id(big)
                pre.append("store " + C.t_event(big))
            target = g.new_event(kind=1, pk=me, created=100, tags=[])
            pre.append("store " + C.t_event(target))
            post.append("fsizelimit " + C.tn(sub.choice([0, 0, 300, 700, 1500, 4000])))
            for j in range(sub.choice([10, 14, 18])):
                k = sub.random()
                if k < 0.4:
                    e = g.new_event(kind=sub.choice([1, 7, 30023]), pk=sub.choice(AUTHORS), tags=[[b"d", b"io"]])
                    e["content"] = b"i" * sub.choice([10, 100, 200, 300, 900, 2500])
                    e["id"] = fake_id(e)
                elif k < 0.7:
                    e = g.new_event(kind=5, pk=me, created=5000 + j, tags=[[b"e", target["id"].hex().encode()]])
                else:
                    e = g.new_event(kind=1, pk=other, tags=[[b"t", b"x"]])
                    e["content"] = b"s" * sub.choice([0, 50, 400])
                    e["id"] = fake_id(e)
                post.append("store " + C.t_event(e))
            post.append("fsizeunlimit")
            post.append("store " + C.t_event(g.new_event(kind=1, pk=other, tags=[])))
            o = obs()
            line = "dbhist " + C.tl(C.tb(n_) for n_ in g.names) + "".join(" ; " + x for x in pre) + " ; " + o + "".join(" ; " + x + " ; " + o for x in post)
            out.append(("io-failure", line))
        return out

    def judge(self, gcls, line, model_out, impl_outs):
        if gcls != "io-failure":
            return super().judge(gcls, line, model_out, impl_outs)
        import re
        from engine import Verdict
        from dbjudge import parse_obs
        o = impl_outs[self.profiles[0]]
        if not o.startswith("dbhist "):
            return Verdict(oracle_ok=False, cls="process-died", detail=o[:100], outcome="died")
        segs = o[len("dbhist "):].split(" | ")
        ops = [x.split(" ", 1)[0] for x in line.split(" ; ")[1:]]
        if len(segs) != len(ops):
            return Verdict(corr_ok=False, cls="unparsable-output", detail="%d segments for %d ops" % (len(segs), len(ops)), outcome="unparsable")
        last_obs, nfail = None, 0
        for j, (op, seg) in enumerate(zip(ops, segs)):
            if seg == "panic":
                return Verdict(oracle_ok=False, cls="panics", detail="op %d (%s) panicked" % (j, op), outcome="panic")
            if op == "obs":
                cur = parse_obs(seg)
                cur.pop("stats.bytes", None)
                cur.pop("offs", None)
                if last_obs is not None and pending_fail and cur != last_obs:
                    diff = [k for k in cur if cur.get(k) != last_obs.get(k)]
                    return Verdict(oracle_ok=False, cls="failed-store-changed-state",
                                   detail="a store that returned %s (no file may grow) changed %s" % (pending_fail, ",".join(diff)), outcome="changed")
                last_obs, pending_fail = cur, None
            elif op == "store":
                pending_fail = seg if seg.startswith("err") else None
                nfail += 1 if pending_fail else 0
            else:
                pending_fail = None
        return Verdict(outcome="io-ok/%s" % ("some-failed" if nfail else "none-failed"), nontrivial=True)
