"""C13 - killing the process at any instant leaves a consistent, reopenable store."""
import os
import random
import re
import shutil

import common as C
from dbgen import HistGen, AUTHORS
from dbjudge import parse_obs
from engine import BaseEngine, Verdict

STORE_RE = re.compile(
    r"^store:before-txn store:txn( store:checked( store:preremoved( append:padded)?( append:half-copied)?( append:set-len append:resized( append:half-copied)?)*"
    r"( append:returned store:appended store:indexed( store:before-commit store:committed)?)?)?)?$")
REMOVE_RE = re.compile(r"^remove:before-txn remove:txn remove:before-commit remove:committed$")
CREATE = ["new:dir", "new:lmdbdir", "es:opened", "es:sized", "es:mapped", "new:events", "new:indexes"]


class Engine(BaseEngine):
    prop = "C13"
    kind = "crash"
    profiles = ("debug",)
    rule = ("for operation histories from the db engine (stores incl. replacements, deletion requests, file growth every few stores in the "
            "debug profile; removals; vanishes) a first run records every named point hit (verif feature) and checks the step list of each op "
            "(append before commit, checks inside the write transaction); then for EVERY occurrence of EVERY point inside the last operation - and "
            "inside store creation - a child process re-executes the history and _exit()s at that occurrence (no destructors, no flush); the parent "
            "reopens the directory, dumps every id/address/counter, stores a fresh event, queries, reopens again. oracle: reopen succeeds and "
            "the whole post-crash observation + continuation equals that of one of the states Crash.v allows (before / padded / appended-uncommitted "
            "/ after; prefixes of removals for vanish; the empty store for creation). non-trivial = distinct (history, kill point) pair")
    trusted = ["theorems C13_* (CrashProofs.v) on the persistent-step model; hooks: cargo feature verif of pocket-db"]
    assumptions = ["LMDB's commit atomicity and its stale-reader / robust-mutex recovery after a kill (assumed, observed)",
                   "the kernel keeps dirty shared pages of a killed process (page cache); a power cut is out of scope",
                   "an aligned 8-byte end-marker store is not torn"]
    weights = {"new": 6, "addr": 4, "delete": 2, "remove": 1, "resubmit": 0.5, "giftwrap": 0.5}

    def histories(self, rng, tier):
        n = 40 if tier == "quick" else 1200
        out = []
        for i in range(n):
            sub = random.Random(rng.getrandbits(64))
            g = HistGen(sub, self.weights, sub.choice([1, 3, 6, 12])).run()
            last = sub.choice(["store", "store", "store", "delete", "addr", "remove", "vanish", "big"])
            if last == "store":
                g.g_store_new()
            elif last == "delete":
                g.g_delete()
            elif last == "addr":
                g.g_store_addr()
            elif last == "remove":
                g.g_remove()
            elif last == "vanish":
                g.g_vanish()
            else:
                e = g.new_event(kind=1)
                e["content"] = b"G" * sub.choice([2100, 4300])     # forces file growth steps in the debug profile
                g.op_store(e)
            out.append(g)
        return out

    def cont_ops(self, g, rng):
        fresh = g.new_event(kind=1, pk=AUTHORS[0], created=777, tags=[[b"t", b"after-crash"]])
        fresh["content"] = b"fresh"
        obs = "obs %s %s" % (C.tl(C.tb(i) for i in g.ids), C.tl("%s %s %s" % (C.tn(k), C.tb(a), C.tb(d)) for k, a, d in g.addrs))
        q = "query L0 L0 L0 L0 none none none L0 n:1 n:0 n:0 n:%d" % g.now
        return " ; ".join([obs, "store " + C.t_event(fresh), q, "reopen", obs])

    def run(self, rng, tier, seed):
        rundir = os.path.join(C.CACHE, "run", "C13-%d" % os.getpid())
        os.makedirs(rundir, exist_ok=True)
        env = dict(C.ENV)
        env["VERIF_RUN_DIR"] = rundir
        failures, dist, samples = [], {}, []
        try:
            gens = self.histories(rng, tier)
            names = C.tl(C.tb(n) for n in gens[0].names)
            tlines = ["crashtrace %s %s" % (names, " ".join("; " + g.render_op(op) for op in g.ops)) for g in gens]
            touts = C.run_lines(C.harness_exe("debug"), tlines, env=env)
            crash_cases = []
            for g, tl_, to in zip(gens, tlines, touts):
                m = re.match(r"crashtrace trace=(\S*) segs=", to)
                if not m:
                    failures.append(("oracle", "trace-run-failed", {"kind": "crash", "case": tl_, "impl": to[:300], "oracle": "the uninterrupted run failed"}))
                    continue
                trace = [x.split(":", 1) for x in m.group(1).split(",") if x]
                # step-list conformance per op
                per = {}
                for o, name in trace:
                    per.setdefault(int(o), []).append(name)
                for o, pts in per.items():
                    seq = " ".join(pts)
                    if o == -1:
                        ok = pts == CREATE
                    elif g.ops[o][0] == "store":
                        inner = [p for p in pts if not p.startswith(("remove:", "query:"))]
                        ok = bool(STORE_RE.match(" ".join(inner)))
                    elif g.ops[o][0] == "remove":
                        ok = bool(REMOVE_RE.match(seq)) or seq == "remove:before-txn remove:txn"
                    else:
                        ok = True
                    dist["steps/%s/%s" % (g.ops[o][0] if o >= 0 else "create", "ok" if ok else "DIFF")] = dist.get("steps/%s/%s" % (g.ops[o][0] if o >= 0 else "create", "ok" if ok else "DIFF"), 0) + 1
                    if not ok:
                        failures.append(("corr", "step-list", {"kind": "crash", "case": tl_, "correspondence": "step list of op %d (%s) is not the model's: %s" % (o, g.ops[o][0] if o >= 0 else "create", seq)}))
                last = len(g.ops) - 1
                hist = " ".join("; " + g.render_op(op) for op in g.ops)
                cont = self.cont_ops(g, rng)
                ks = [k for k, (o, _) in enumerate(trace) if int(o) == last]
                for k in ks:
                    crash_cases.append(("kill:%s:%s" % (g.ops[last][0], trace[k][1]), "crash %s %s %s ;; %s" % (names, C.tn(k), hist, cont)))
            # creation kills: empty history
            g0 = HistGen(random.Random(rng.getrandbits(64)), self.weights, 0).run()
            cont0 = self.cont_ops(g0, rng)
            for k, name in enumerate(CREATE):
                crash_cases.append(("kill:create:%s" % name, "crash %s %s ;; %s" % (names, C.tn(k), cont0)))
            lines = [c[1] for c in crash_cases]
            model_out = C.run_lines(os.path.join(C.RUNNER, "runner.exe"), lines)
            impl_out = C.run_lines(C.harness_exe("debug"), lines, env=env, shards=8)
            seen = set()
            for (gcls, line), mo, io in zip(crash_cases, model_out, impl_out):
                v = self.judge(gcls, line, mo, {"debug": io})
                key = "%s/%s" % (gcls, v.outcome)
                dist[key] = dist.get(key, 0) + 1
                seen.add(line)
                if len(samples) < 6 and len(dist) % 3 == 0:
                    samples.append({"class": gcls, "case": line[:500], "impl": io[:300], "model": mo[:300]})
                if not v.oracle_ok:
                    failures.append(("oracle", v.cls, {"kind": "crash", "seed": seed, "case": line, "class": gcls, "impl": io, "model": mo, "oracle": v.detail}))
                elif not v.corr_ok:
                    failures.append(("corr", v.cls, {"kind": "crash", "seed": seed, "case": line, "class": gcls, "impl": io, "model": mo, "correspondence": v.detail}))
        finally:
            shutil.rmtree(rundir, ignore_errors=True)
        failures.sort(key=lambda f: len(f[2].get("case", "")))
        if not samples and crash_cases:
            samples.append({"class": crash_cases[0][0], "case": crash_cases[0][1][:500]})
        stats = {"evaluations": len(crash_cases) + len(tlines), "distinct_nontrivial": len(seen), "samples": samples, "distribution": dist, "rule": self.rule,
                 "extra": {"kills": len(crash_cases), "histories": len(tlines)}}
        return {"stats": stats, "failures": failures}

    def search(self, rng, tier, seed, failures):
        return []

    def execute(self, cases):
        rundir = os.path.join(C.CACHE, "run", "C13r-%d" % os.getpid())
        os.makedirs(rundir, exist_ok=True)
        env = dict(C.ENV)
        env["VERIF_RUN_DIR"] = rundir
        try:
            lines = [c[1] for c in cases]
            return C.run_lines(os.path.join(C.RUNNER, "runner.exe"), lines), {"debug": C.run_lines(C.harness_exe("debug"), lines, env=env)}
        finally:
            shutil.rmtree(rundir, ignore_errors=True)

    def judge(self, gcls, line, model_out, impl_outs):
        io = impl_outs["debug"]
        m = re.match(r"crash child=(\S+) file=(\S+) reopen=(\S+)(?: \| (.*))?$", io)
        if not m:
            return Verdict(oracle_ok=False, cls="crash-harness", detail="unexpected harness output %s" % io[:120], outcome="harness")
        how, fdig, reopen, segs = m.group(1), m.group(2), m.group(3), m.group(4) or ""
        if how not in ("killed", "completed"):
            return Verdict(oracle_ok=False, cls="child-failed", detail="child ended with %s" % how, outcome=how)
        if reopen != "ok":
            return Verdict(oracle_ok=False, cls="reopen-fails-after-kill", detail="reopening after the kill failed: %s" % reopen, outcome="reopen")
        if "panic" in segs.split(" | "):
            return Verdict(oracle_ok=False, cls="panic-after-kill", detail="an operation panicked on the recovered store", outcome="panic")
        # every retrievable event reads back intact (independent of the model)
        first = parse_obs(segs.split(" | ")[0])
        for has, h in zip(first.get("ids.has", []), first.get("ids.hash", [])):
            if has == "1" and h in ("-", "E"):
                return Verdict(oracle_ok=False, cls="index-leads-to-missing-bytes", detail="an id is indexed but its event cannot be read", outcome="dangling")
        if len(set(first.get("stats.main", ["0"]))) != 1:
            return Verdict(oracle_ok=False, cls="indexes-inconsistent-after-kill", detail="id/ci/ac/akc counts differ: %s" % first.get("stats.main"), outcome="counts")
        if not model_out.startswith("crashmodel"):
            return Verdict(corr_ok=False, cls="runner-output", detail=model_out[:100], outcome="runner")
        cands = model_out.split(" ## ")[1:]
        # byte level: the file the killed process left is one of the files LogBytes.crash_files lists for this call
        # (theorem crash_files_recover is about exactly that list), and THE file of the hook point where one is known
        mf = re.match(r"crashmodel cands=\d+ files=(\S+)", model_out)
        files = mf.group(1).split(",") if mf else []
        point = gcls.split(":", 2)[2] if gcls.count(":") >= 2 else ""
        if fdig not in files:
            return Verdict(corr_ok=False, cls="torn-file-not-modelled",
                           detail="killed at %s: event.map is %s, the byte-level model allows %s" % (point, fdig[:60], [f[:40] for f in files]), outcome="file")
        if gcls.startswith("kill:store:") and len(files) >= 5:
            want = {"append:half-copied": files[-3], "append:returned": files[-1], "append:padded": files[1],
                    "store:before-txn": files[0], "store:txn": files[0]}.get(point)
            if want is not None and fdig != want:
                return Verdict(corr_ok=False, cls="torn-file-at-point",
                               detail="killed at %s: event.map is %s, the byte-level model has %s there" % (point, fdig[:60], want[:60]), outcome="file")
        if segs in cands:
            return Verdict(outcome="%s/cand%d-of-%d" % (how, cands.index(segs), len(cands)), nontrivial=True)
        return Verdict(oracle_ok=False, cls="recovered-state-not-atomic",
                       detail="the recovered store (observation + continuation) matches none of the %d states the model allows" % len(cands), outcome="nomatch")
