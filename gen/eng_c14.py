"""C14 - concurrent stores serialize; concurrent queries see only whole committed states."""
import os
import random
import re
import shutil

import common as C
from dbgen import HistGen, AUTHORS
from engine import BaseEngine, Verdict


class Engine(BaseEngine):
    prop = "C14"
    kind = "schedule"
    profiles = ("debug", "release")
    rule = ("2-4 real threads share one Store; each issues 1-3 operations (stores - the same event from several threads, events competing for "
            "one replaceable address, distinct events; removals; queries that match them). A schedule controller built on the verif points parks "
            "every thread at every point and releases one at a time (seeded choice, switch probability 5%..60%), never releasing a thread into the "
            "LMDB write lock while the model says another holds it; the recorded schedule gives each operation its linearization point (commit "
            "point for writers, snapshot point for queries); the operations are then executed sequentially in that order on the extracted Coq model "
            "and every concurrent response, and the final observation dump, must equal the sequential one. Plus free-running multi-core runs "
            "(no controller) judged by invariants: of N submissions of one event exactly one succeeds, one holder per address, no torn reads. "
            "non-trivial = distinct schedule")
    trusted = ["theorem C14_linearizable (ConcProofs.v) on the two-step interleaving model; hooks as pause points; the schedule controller"]
    assumptions = ["the Rust/hardware memory model (no data race between an appending writer and a reader below the end marker: argued, not proved)",
                   "LMDB's reader table and NO_TLS behaviour", "schedules stay below one file-growth step (the remap hazard is C15's known finding)"]
    weights = {"new": 5, "addr": 3}

    def make_growth_case(self, rng, probe=False):
        """two writers that both have to grow the event map (one of them ephemeral: not indexed), every
        interleaving of their growth steps; the final dump re-reads every indexed event"""
        sub = random.Random(rng.getrandbits(64))
        g = HistGen(sub, {"new": 1}, sub.choice([1, 2, 4])).run()
        for op in g.ops:
            op[1]["kind"] = 1
            op[1]["content"] = b"s" * sub.choice([200, 900, 1500])
        setup = [g.render_op(op) for op in g.ops]
        big = []
        for kind, n in ((sub.choice([20000, 29999, 1]), sub.choice([2100, 1800])), (1, sub.choice([4300, 6500, 2100])), (1, 2500)):
            e = g.new_event(kind=kind, tags=[])
            e["content"] = b"G" * n
            big.append(e)
        ff = {"ids": [big[1]["id"], big[2]["id"]] + [op[1]["id"] for op in g.ops][:2], "authors": [], "kinds": [], "tags": [], "since": None, "until": None, "limit": None}
        q = "query %s L0 n:1 n:0 n:0 %s" % (C.t_filter(ff), C.tn(g.now))
        progs = [["store " + C.t_event(big[0])], ["store " + C.t_event(big[1]), "store " + C.t_event(big[2])], [q, q, q, q]]
        obs = "obs %s %s" % (C.tl(C.tb(i) for i in g.ids), C.tl("%s %s %s" % (C.tn(k), C.tb(a), C.tb(d)) for k, a, d in g.addrs))
        names = C.tl(C.tb(n) for n in g.names)
        line = "conc %s %s %s ; S %s%s ; F ; %s" % (names, C.tn(sub.getrandbits(40)), C.tn(sub.choice([300, 600, 800]) + (10000 if probe else 0)), "".join(" ; " + o for o in setup),
                                                   "".join(" ; T" + "".join(" ; " + o for o in p) for p in progs), obs)
        return ("growth-race", line), {"setup": setup, "progs": progs, "obs": obs, "names": names, "shared": big[1]}

    def make_case(self, rng, free=False):
        sub = random.Random(rng.getrandbits(64))
        g = HistGen(sub, self.weights, sub.choice([0, 2, 4])).run()
        setup = [g.render_op(op) for op in g.ops]
        nthreads = sub.choice([2, 2, 3, 4]) if not free else sub.choice([4, 8, 16])
        shared = g.new_event(kind=sub.choice([1, 1, 10000, 30000, 20001]))
        shared["content"] = b"shared"
        pool = [shared]
        rep = g.new_event(kind=10000, pk=AUTHORS[1], created=500, tags=[])
        rep2 = g.new_event(kind=10000, pk=AUTHORS[1], created=600, tags=[])
        pool += [rep, rep2]
        # a victim event and a foreign deletion request naming it (and an own target first)
        victim = g.new_event(kind=1, pk=AUTHORS[2], created=300, tags=[])
        victim["content"] = b"victim"
        own = g.new_event(kind=1, pk=AUTHORS[3], created=301, tags=[])
        foreign_del = g.new_event(kind=5, pk=AUTHORS[3], created=400,
                                  tags=[[b"e", own["id"].hex().encode()], [b"e", victim["id"].hex().encode()]])
        race = sub.random() < 0.35
        # simultaneous submissions of an event the store must REFUSE (an older version of a held address, or an id the
        # setup deleted): every submitter must get the refusal a sequential store gives, none of them "duplicate"
        twin = None
        if sub.random() < 0.3:
            if sub.random() < 0.6:
                setup.append("store " + C.t_event(rep2))
                twin = rep
            else:
                gone = g.new_event(kind=1, pk=AUTHORS[0], created=250, tags=[])
                gone["content"] = b"gone"
                setup.append("store " + C.t_event(g.new_event(kind=5, pk=AUTHORS[0], created=260, tags=[[b"e", gone["id"].hex().encode()]])))
                twin = gone
        progs = []
        for t in range(nthreads):
            ops = []
            for _ in range(sub.choice([1, 1, 2, 3]) if not free else sub.choice([3, 6])):
                k = sub.random()
                if k < 0.55:
                    e = sub.choice(pool) if sub.random() < 0.7 else g.new_event()
                    if e not in pool:
                        e["content"] = e["content"][:200]
                    ops.append("store " + C.t_event(e))
                elif k < 0.7:
                    ops.append("remove " + C.tb(sub.choice(pool)["id"]))
                else:
                    f = sub.choice([{"authors": [AUTHORS[1]], "kinds": [10000]}, {"ids": [shared["id"], rep["id"], rep2["id"]]},
                                    {"authors": [shared["pk"]]}, {"kinds": [shared["kind"]]}])
                    ff = {"ids": [], "authors": [], "kinds": [], "tags": [], "since": None, "until": None, "limit": None}
                    ff.update(f)
                    ops.append("query %s L0 n:1 n:0 n:0 %s" % (C.t_filter(ff), C.tn(g.now)))
            if twin is not None and t < 3:
                ops.insert(sub.randrange(len(ops) + 1), "store " + C.t_event(twin))
            if race and t == 0:
                ops.insert(sub.randrange(len(ops) + 1), "store " + C.t_event(victim))
            if race and t == 1:
                ops.insert(sub.randrange(len(ops) + 1), "store " + C.t_event(foreign_del))
            progs.append(ops)
        obs = "obs %s %s" % (C.tl(C.tb(i) for i in g.ids), C.tl("%s %s %s" % (C.tn(k), C.tb(a), C.tb(d)) for k, a, d in g.addrs))
        seed = sub.getrandbits(40)
        switch = 9999 if free else sub.choice([50, 150, 300, 600])
        names = C.tl(C.tb(n) for n in g.names)
        line = "conc %s %s %s ; S %s%s ; F ; %s" % (names, C.tn(seed), C.tn(switch), "".join(" ; " + o for o in setup),
                                                   "".join(" ; T" + "".join(" ; " + o for o in p) for p in progs), obs)
        return ("free" if free else "sched-%dt" % nthreads, line), {"setup": setup, "progs": progs, "obs": obs, "names": names, "shared": shared}

    def run(self, rng, tier, seed):
        rundir = os.path.join(C.CACHE, "run", "C14-%d" % os.getpid())
        os.makedirs(rundir, exist_ok=True)
        env = dict(C.ENV)
        env["VERIF_RUN_DIR"] = rundir
        n = 250 if tier == "quick" else 8000
        nfree = 20 if tier == "quick" else 400
        failures, dist, samples, seen = [], {}, [], set()
        try:
            cases = ([self.make_case(rng) for _ in range(n)] + [self.make_growth_case(rng, probe=(i % 3 == 0)) for i in range(n // 4)]
                     + [self.make_case(rng, free=True) for _ in range(nfree)])
            lines = [c[0][1] for c in cases]
            outs = C.run_lines(C.harness_exe("debug"), lines, env=env, shards=8)
            # the free-running cases once more in the release profile: 4 MiB growth chunks, so no growth step
            # (and no remap) happens during these runs - a death there has nothing to do with the remap hazard
            free_lines = [l for (g, l), _m in cases if g == "free"]
            free_rel = C.run_lines(C.harness_exe("release"), free_lines, env=env, shards=8)
            rel_of = dict(zip(free_lines, free_rel))
            # sequential replays on the model, in linearization order
            mlines, metas = [], []
            for ((gcls, line), meta), o in zip(cases, outs):
                lin = self.linearize(meta, o) if gcls != "free" else None
                metas.append(lin)
                if lin is None or isinstance(lin, str):
                    mlines.append("noop")
                else:
                    mlines.append("dbhist %s %s ; %s" % (meta["names"], "".join("; " + o_ + " " for o_ in meta["setup"] + [meta["progs"][t][k] for t, k in lin]).strip(), meta["obs"]))
            mouts = C.run_lines(os.path.join(C.RUNNER, "runner.exe"), mlines)
            for ((gcls, line), meta), o, lin, mo in zip(cases, outs, metas, mouts):
                v = self.judge_case(gcls, meta, o, lin, mo)
                if gcls == "free":
                    if not o.startswith("conc sched=") and re.match(r"PROCESS-DIED rc=-(11|7)\b", o):
                        # died with SIGSEGV/SIGBUS in the debug profile (2 KiB chunks: the map grows and may be remapped
                        # many times during the run) while readers scan it: the recorded remap hazard
                        v = Verdict(oracle_ok=False, cls="free-run-died-during-growth",
                                    detail="free-running debug-profile run died (%s) while the event map was growing under concurrent readers" % o[:24], outcome="died-growth")
                    elif v.oracle_ok and v.corr_ok:
                        v2 = self.judge_case(gcls, meta, rel_of[line], None, "noop")
                        if not (v2.oracle_ok and v2.corr_ok):
                            v2.detail = "[release] " + v2.detail
                            v = v2
                key = "%s/%s" % (gcls, v.outcome)
                dist[key] = dist.get(key, 0) + 1
                sched = re.search(r"sched=(\S*)", o)
                seen.add(sched.group(1) if sched else line)
                if len(samples) < 5:
                    samples.append({"class": gcls, "case": line[:400], "impl": o[:400]})
                payload = {"kind": "schedule", "seed": seed, "case": line, "class": gcls, "impl": o, "model": mo[:2000]}
                if not v.oracle_ok:
                    payload["oracle"] = v.detail
                    failures.append(("oracle", v.cls, payload))
                elif not v.corr_ok:
                    payload["correspondence"] = v.detail
                    failures.append(("corr", v.cls, payload))
        finally:
            shutil.rmtree(rundir, ignore_errors=True)
        failures.sort(key=lambda f: len(f[2]["case"]))
        stats = {"evaluations": len(cases), "distinct_nontrivial": len(seen), "samples": samples, "distribution": dist, "rule": self.rule,
                 "extra": {"controlled_schedules": n, "free_running": nfree}}
        return {"stats": stats, "failures": failures}

    def search(self, rng, tier, seed, failures):
        return []

    def linearize(self, meta, out):
        m = re.match(r"conc sched=(\S*) refcheck=\S* resp=", out)
        if not m:
            return "bad-output"
        trace = [x.split(":", 1) for x in m.group(1).split(",") if x]
        if any(t[1] in ("WATCHDOG", "DEADLOCK") for t in trace):
            return "controller-stuck"
        if any(t[1] == "UNBLOCKED-WHILE-LOCK-HELD" for t in trace):
            return "unblocked"
        trace = [t for t in trace if not t[1].startswith("UNBLOCKED")]
        # per thread: split the trace into ops by op:begin/op:end
        opidx = {}
        pts = []      # (global index, tid, opnum, name)
        for gi, (tid, name) in enumerate(trace):
            tid = int(tid)
            if name == "op:begin":
                opidx[tid] = opidx.get(tid, -1) + 1
            pts.append((gi, tid, opidx.get(tid, 0), name))
        # an effect located between two points happens when the thread is RELEASED from the first
        # (the trace records releases): commit <- release of *:before-commit; a store that fails
        # before committing reads the state under the lock it acquired after store:before-txn;
        # a query's snapshot (read_txn) is taken right after op:begin
        lin = {}
        begun = {}
        for gi, tid, k, name in pts:
            key = (tid, k)
            if name == "op:begin":
                begun[key] = gi
            op = meta["progs"][tid][k].split(" ", 1)[0]
            if op == "store":
                # these occur in this order within one store: the last one present wins (a store that
                # fails before committing reads the state right after acquiring the lock)
                if name in ("store:before-txn", "store:txn", "store:before-commit"):
                    lin[key] = gi
            elif op == "remove":
                if name in ("remove:before-txn", "remove:txn", "remove:before-commit"):
                    lin[key] = gi
            else:
                if name == "op:begin":
                    lin[key] = gi
        # an operation that returned without reaching any of its points (no code path of the unchanged tree does)
        # still has to be answered like some sequential execution: it is placed where it began
        for key, gi in begun.items():
            lin.setdefault(key, gi)
        return [k for k, _ in sorted(lin.items(), key=lambda kv: kv[1])]

    def judge_case(self, gcls, meta, out, lin, mo):
        if not out.startswith("conc sched="):
            return Verdict(oracle_ok=False, cls="concurrent-run-died", detail=out[:120], outcome="died")
        resp = {}
        rs = re.search(r" resp=(.*?) final=", out)
        for part in (rs.group(1).split(" ;; ") if rs and rs.group(1) else []):
            k, _, v = part.partition("=")
            t, n = k.split(".")
            resp[(int(t), int(n))] = v
        if any(v == "panic" for v in resp.values()):
            return Verdict(oracle_ok=False, cls="panic-under-concurrency", detail="an operation panicked", outcome="panic")
        rc = re.search(r" refcheck=(\d+),(\d+) ", out)
        if rc and int(rc.group(2)) > 0:
            return Verdict(oracle_ok=False, cls="stored-bytes-changed", detail="%s of %s events stored during the run no longer read back (by the offset their store returned) as the bytes submitted" % (rc.group(2), rc.group(1)), outcome="changed")
        if any("TORN" in v for v in resp.values()):
            return Verdict(oracle_ok=False, cls="torn-read", detail="a query returned an event that is not whole", outcome="torn")
        # N submissions of the same (non-ephemeral) event and no removal of it: exactly one succeeds
        sid = C.tb(meta["shared"]["id"])
        subs = [(t, k) for t, p in enumerate(meta["progs"]) for k, o in enumerate(p) if o.startswith("store ") and o.split(" ")[1] == sid]
        removed = any(o == "remove " + sid for p in meta["progs"] for o in p)
        in_setup = any(o.startswith("store ") and o.split(" ")[1] == sid for o in meta["setup"])
        oks = [x for x in subs if resp.get(x, "").startswith("ok")]
        # a deletion request naming the event anywhere in the run makes "refused as deleted" a legitimate answer
        hexid = meta["shared"]["id"].hex()
        del_named = any(o.startswith("store ") and hexid.encode().hex() in o for p in list(meta["progs"]) + [meta["setup"]] for o in p)
        if subs and not removed and not in_setup and not del_named and meta["shared"]["kind"] == 1 and len(oks) != 1:
            return Verdict(oracle_ok=False, cls="not-exactly-one-winner", detail="%d of %d simultaneous submissions of one event succeeded" % (len(oks), len(subs)), outcome="winners")
        final = out.split(" final=", 1)[1] if " final=" in out else ""
        fo = re.search(r"stats=(\d+),(\d+),(\d+),(\d+),(\d+)", final)
        if fo and len({fo.group(1), fo.group(2), fo.group(4), fo.group(5)}) != 1:
            return Verdict(oracle_ok=False, cls="indexes-inconsistent", detail="id/ci/ac/akc counts differ after the concurrent run: %s" % fo.group(0), outcome="counts")
        if gcls == "free":
            return Verdict(outcome="free-ok", nontrivial=True)
        if lin == "unblocked":
            return Verdict(oracle_ok=False, cls="writer-not-serialized",
                           detail="a store/remove entered its write path while another thread held the write transaction (it did not block)", outcome="unblocked")
        if isinstance(lin, str) or lin is None:
            return Verdict(corr_ok=False, cls="schedule-controller", detail="controller: %s" % lin, outcome=str(lin))
        if not mo.startswith("dbhist "):
            return Verdict(corr_ok=False, cls="runner-output", detail=mo[:100], outcome="runner")
        segs = mo[len("dbhist "):].split(" ## ")[0].split(" | ")
        ns = len(meta["setup"])
        for j, key in enumerate(lin):
            want = segs[ns + j]
            got = resp.get(key, "?")
            w = re.sub(r" h=\w+", "", want)
            if got != w:
                return Verdict(oracle_ok=False, cls="not-linearizable",
                               detail="thread %d op %d answered %r, but executing the operations one at a time in commit/snapshot order gives %r" % (key[0], key[1], got[:80], w[:80]),
                               outcome="nonlin")
        # final observation (offs are not tracked by the concurrent harness)
        strip = lambda s_: re.sub(r" offs=\S*", "", s_)
        if strip(final) != strip(segs[-1]):
            return Verdict(oracle_ok=False, cls="final-state-not-sequential", detail="the final observation differs from the sequential execution's", outcome="final")
        return Verdict(outcome="linearizable", nontrivial=True)

    def execute(self, cases):
        raise NotImplementedError

    def replay(self, payload):
        import subprocess
        rundir = os.path.join(C.CACHE, "run", "C14r-%d" % os.getpid())
        os.makedirs(rundir, exist_ok=True)
        env = dict(C.ENV)
        env["VERIF_RUN_DIR"] = rundir
        C.build_harness(self.profiles)
        out = C.run_lines(C.harness_exe("debug"), [payload["case"]], env=env)
        print("case: %s" % payload["case"][:1500])
        print("impl (this run; the schedule is re-derived from the same seed): %s" % out[0][:3000])
        print("recorded oracle: %s" % payload.get("oracle", payload.get("correspondence")))
        shutil.rmtree(rundir, ignore_errors=True)
        return 1
