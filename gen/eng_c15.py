"""C15 - event references stay valid and unchanged while the store lives."""
import random
import re

import common as C
from dbengine import DbEngine
from dbgen import HistGen
from engine import Verdict


class Engine(DbEngine):
    prop = "C15"
    kind = "history"
    profiles = ("debug", "release")
    rule = ("histories of 5..80 stores with event sizes straddling the growth chunk (debug: 2 KiB chunks, several growth steps per history; release: "
            "4 MiB chunks with large events); a reference is taken to every stored event (by offset; the by-id path must lead to the same address); "
            "after every further store - sequentially, and with the later stores issued from 2-4 other threads - the ADDRESS of a fresh lookup is "
            "compared with the recorded one (a stale reference is never dereferenced) and, when equal, the bytes. classes: moved after a growth step "
            "(known finding), moved without growth, bytes changed, by-id path at another address. non-trivial = history with >= 1 reference check")
    trusted = ["theorems C15_* (Refs.v): the address half is an observation of the OS (mremap may_move); the logical half is the append-only log"]
    assumptions = ["address stability is decided by the kernel's mremap(MAYMOVE) choice: observed, not modelled beyond the oracle flag"]

    # a request that is refused AFTER its bytes were appended (a deletion request naming another author's event) races a
    # store from another thread; afterwards more events are stored.  Whatever the interleaving, every event stored during
    # the run must still read back, by the offset its store returned, as the bytes submitted (re-read after the last store)
    races = {"quick": 150, "thorough": 3000}

    def make_race(self, rng):
        from dbgen import AUTHORS, fake_id
        sub = random.Random(rng.getrandbits(64))
        g = HistGen(sub, {"new": 3, "addr": 1}, sub.choice([0, 1, 3])).run()
        foreign = g.new_event(kind=1, pk=AUTHORS[1], created=50, tags=[])
        foreign["content"] = b"theirs"
        foreign["id"] = fake_id(foreign)
        g.op_store(foreign)
        setup = [g.render_op(op) for op in g.ops]
        me = bytes([0xC5]) * 32
        reqs = []
        for j in range(sub.choice([1, 1, 2])):
            r = g.new_event(kind=5, pk=me, created=60 + j, tags=[[b"e", foreign["id"].hex().encode()]] + ([[b"e", b"00" * 32]] if sub.random() < 0.3 else []))
            r["content"] = b"x" * sub.choice([0, 10, 300])
            r["id"] = fake_id(r)
            reqs.append(r)
        mine = []
        for j in range(sub.choice([1, 2, 3])):
            e = g.new_event(kind=1, pk=bytes([0xC6]) * 32, created=70 + j, tags=[])
            e["content"] = b"m" * sub.choice([1, 40, 200, 1900])
            e["id"] = fake_id(e)
            mine.append(e)
        later = []
        for j in range(sub.choice([1, 2, 3])):
            e = g.new_event(kind=1, pk=bytes([0xC7]) * 32, created=80 + j, tags=[])
            e["content"] = b"l" * sub.choice([1, 40, 200, 1900])
            e["id"] = fake_id(e)
            later.append(e)
        progs = [["store " + C.t_event(r) for r in reqs], ["store " + C.t_event(e) for e in mine]]
        sub.shuffle(progs)
        line = self.race_line(sub, g, setup, progs, [e["id"] for e in mine + later], after=["store " + C.t_event(e) for e in later])
        return ("refused-request-race", line), {"n": len(mine) + len(later)}

    def judge_race(self, meta, out):
        rc = re.search(r" refcheck=(\d+),(\d+) ", out)
        if rc and int(rc.group(2)) > 0:
            return Verdict(oracle_ok=False, cls="referenced-bytes-changed",
                           detail="%s of %s events stored while a refused request raced them no longer read back, by the offset their store returned, as the bytes submitted" % (rc.group(2), rc.group(1)), outcome="changed")
        parsed = self.race_parse(out)
        if not parsed or len(parsed[1]) < meta.get("n", 0):
            return Verdict(corr_ok=False, cls="unparsable-output", detail=out[:120], outcome="unparsable")
        bad = [f for f in parsed[1] if not f.startswith("10")]
        if bad:
            return Verdict(oracle_ok=False, cls="stored-event-lost",
                           detail="an event whose store succeeded observes as has/deleted = %s after the run" % bad[0][:2], outcome="lost")
        return Verdict(outcome="race-ok", nontrivial=True)

    def generate(self, rng, tier):
        out = []
        n = 60 if tier == "quick" else 1500
        for i in range(n):
            sub = random.Random(rng.getrandbits(64))
            g = HistGen(sub, {"new": 1}, sub.choice([5, 10, 30, 80])).run()
            for op in g.ops:
                if sub.random() < 0.3:
                    op[1]["content"] = b"R" * sub.choice([1900, 2048, 5000, 9000])
                    op[1]["kind"] = 1
            threads = sub.choice([1, 1, 1, 2, 4])
            out.append(("refs-t%d" % threads, "refs %s %s %s" % (C.tl(C.tb(x) for x in g.names), C.tn(threads), " ".join("; " + g.render_op(op) for op in g.ops))))
        # controlled schedules over the growth steps of two writers (one of them storing an event that is not indexed) and a reader:
        # every event stored during the run is re-read afterwards by the offset its store returned
        import eng_c14
        e14 = eng_c14.Engine()
        for i in range(150 if tier == "quick" else 3000):
            (gcls, line), _meta = e14.make_growth_case(rng, probe=True)
            out.append(("refs-growth-race", line))
        # a growth that failed part-way, then either the same Store keeps being used (mapping, file and remembered length must
        # still agree) or the store is reopened while its file has whole spare chunks beyond the end marker: events stored afterwards, across the next growth steps, must
        # keep reading back, by the offset their store returned, as the bytes submitted
        import eng_c04
        out += eng_c04.failed_growth_cases(rng, tier, cls="spare-chunks", reopen_after_failure=0.5, n=(10 if tier == "quick" else 200))
        # a store created over an event.map that exists already, zero-filled and several chunks long: the file length the store
        # remembers and the length of the file and of the mapping must agree from the start, or the first growth step after
        # the preallocated space is used up cuts the file; events are stored until well beyond that point, every offset
        # returned so far re-read after every store
        from dbgen import AUTHORS, fake_id
        for i in range(6 if tier == "quick" else 100):
            sub = random.Random(rng.getrandbits(64))
            g = HistGen(sub, {"new": 1}, 0).run()
            obs = "obs %s L0" % C.tl(C.tb(i_) for i_ in g.ids)
            chunks = sub.choice([1, 2, 3, 5, 8])
            size = 2048 * chunks + sub.choice([0, 0, 8, 1000])
            ops = ["prealloc " + C.tn(size)]
            total = 0
            while total < size + 3 * 2048:
                n = sub.choice([100, 300, 900, 1500])
                e = g.new_event(kind=1, pk=sub.choice(AUTHORS), tags=[])
                e["content"] = b"p" * n
                e["id"] = fake_id(e)
                ops.append("store " + C.t_event(e))
                total += n + 150
            if sub.random() < 0.5:
                ops.append("reopen")
            line = "dbhist " + C.tl(C.tb(n_) for n_ in g.names) + " ; " + obs + "".join(" ; " + x + " ; " + obs for x in ops)
            out.append(("preallocated-map", line))
        return out

    def skip_model(self, gcls):
        return True

    def shrink(self, line, still):
        return line

    def judge(self, gcls, line, model_out, impl_outs):
        if gcls in ("spare-chunks", "preallocated-map"):
            import eng_c04
            v = eng_c04.judge_failed_growth(("debug",), line, impl_outs)
            if not v.oracle_ok and v.cls == "readback-differs":
                v.cls = "referenced-bytes-changed"
            return v
        first = None
        for prof, o in impl_outs.items():
            if gcls == "refs-growth-race" or line.startswith("conc "):
                if not o.startswith("conc sched="):
                    return Verdict(oracle_ok=False, cls="reference-unreadable", detail="[%s] the process died while events stored earlier were re-read: %s" % (prof, o[:80]), outcome="died")
                rc = re.search(r" refcheck=(\d+),(\d+) ", o)
                if rc and int(rc.group(2)) > 0:
                    return Verdict(oracle_ok=False, cls="referenced-bytes-changed",
                                   detail="[%s] %s of %s events stored while two writers grew the file no longer read back as the bytes submitted" % (prof, rc.group(2), rc.group(1)), outcome="changed")
                first = first or "race-stable"
                continue
            if not o.startswith("refs "):
                return Verdict(oracle_ok=False, cls="refs-run-failed", detail="[%s] %s" % (prof, o[:100]), outcome="failed")
            i = C.kv(o)
            if int(i["bytes_changed"]) > 0:
                return Verdict(oracle_ok=False, cls="referenced-bytes-changed", detail="[%s] bytes of a stored event changed or became unreadable" % prof, outcome="changed")
            if int(i["moved_without_growth"]) > 0:
                return Verdict(oracle_ok=False, cls="moved-without-growth", detail="[%s] a reference's address changed although the file did not grow" % prof, outcome="moved")
            if int(i["byid_other_address"]) > 0:
                return Verdict(oracle_ok=False, cls="byid-other-address", detail="[%s] lookup by id and by offset denote different addresses" % prof, outcome="byid")
            if int(i["moved_after_growth"]) > 0:
                return Verdict(oracle_ok=False, cls="remap-moves-mapping",
                               detail="[%s] after a growth step (%s so far) %s references taken earlier no longer denote the mapped address" % (prof, i["growths"], i["moved_after_growth"]),
                               outcome="moved-after-growth")
            first = first or ("stable/growths=%s" % ("0" if i["growths"] == "0" else "some"))
        return Verdict(outcome=first, nontrivial=True)
