"""C16 - reopen and rebuild preserve everything observable."""
from dbengine import DbEngine


class Engine(DbEngine):
    prop = 'C16'
    profiles = ('debug',)
    weights = {'new': 5, 'addr': 3, 'delete': 3, 'remove': 1.5, 'resubmit': 1, 'reopen': 2, 'rebuild': 2.5, 'xput': 2, 'query': 1, 'qown': 1, 'giftwrap': 0.3}
    aspects = {'addrs.find', 'query', 'stats.del', 'rebuild', 'rebuild-compact', 'stats.main', 'ids.hash', 'stats.tags', 'addrs.asof', 'reopen', 'extra', 'ids.del', 'rebuild-preserves', 'offs', 'reopen-preserves', 'ids.has', 'map.bytes'}
    with_map = True
    quick = (120, 30)
    thorough = (2000, 70)
    rule = "histories with removed/replaced/deleted/ephemeral/failed-store leftovers, address markers with empty/long(183..476)/binary d values, extra tables with rows; reopen and rebuild inserted at random positions (several per history). oracle: the full observation dump (every id, address, counter, extra table, query battery) is identical before and after; after rebuild the event space equals the retrievable events' aligned sizes exactly and the backup files exist. non-trivial = history with >= 2 stores"
    trusted = DbEngine.db_trusted
    assumptions = ["rebuild's chown branch (root rebuilding files of another owner) is not exercised; the refusal branch (a caller who is neither root nor the owner) is: class refused-rebuild"]

    def generate(self, rng, tier):
        import random
        from dbgen import HistGen, AUTHORS, fake_id
        out = super().generate(rng, tier)
        # the event map filled to its very last byte (end marker == file length; debug profile: 2048-byte chunks), then
        # reopened / rebuilt without anything appended in between
        for i in range(16 if tier == "quick" else 300):
            sub = random.Random(rng.getrandbits(64))
            g = HistGen(sub, {"new": 1}, 0).run()
            end = 8
            n = sub.choice([0, 1, 3, 6])
            for j in range(n + 1):
                e = g.new_event(kind=1, pk=sub.choice(AUTHORS), tags=[])
                base = end if end % 8 == 0 else end + 8 - end % 8
                if j == n:
                    target = ((base + 152) // 2048 + sub.choice([1, 1, 2])) * 2048
                    e["content"] = b"F" * (target - base - 152 - sub.choice([0, 0, 0, 8]))
                else:
                    e["content"] = b"c" * sub.choice([0, 7, 100, 1900, 2048])
                e["id"] = fake_id(e)
                g.op_store(e)
                g.note_event(e)
                end = base + 152 + len(e["content"])
            for _ in range(sub.choice([1, 2])):
                g.ops.append((sub.choice(["reopen", "rebuild", "rebuild"]),))
            g.g_store_new()
            out.append(("exact-fill", g.render()))
        # a rebuild the library REFUSES (the caller is neither root nor the owner of the files, but may write to the directory):
        # whatever it did before refusing, the store reopened afterwards must observe exactly as before. Implementation only.
        import common as C
        for i in range(8 if tier == "quick" else 120):
            sub = random.Random(rng.getrandbits(64))
            g = HistGen(sub, {"new": 4, "addr": 2, "delete": 2, "remove": 1, "xput": 1}, sub.choice([3, 6, 12])).run()
            obs = "obs %s %s" % (C.tl(C.tb(i_) for i_ in g.ids), C.tl("%s %s %s" % (C.tn(k_), C.tb(a_), C.tb(d_)) for k_, a_, d_ in g.addrs))
            ops = [g.render_op(op) for op in g.ops]
            if sub.random() < 0.4:
                ops.append("rebuild")          # a previous backup exists
            tail = [obs, "rebuildas " + C.tn(sub.choice([65534, 1000, 12345])), obs]
            e = g.new_event(kind=1, pk=sub.choice(AUTHORS), tags=[])
            tail += ["store " + C.t_event(e), obs]
            line = "dbhist " + C.tl(C.tb(n_) for n_ in g.names) + "".join(" ; " + x for x in ops + tail)
            out.append(("refused-rebuild", line))
        return out

    def skip_model(self, gcls):
        return gcls == "refused-rebuild"

    def judge(self, gcls, line, model_out, impl_outs):
        if gcls != "refused-rebuild":
            return super().judge(gcls, line, model_out, impl_outs)
        from engine import Verdict
        from dbjudge import parse_obs
        o = impl_outs[self.profiles[0]]
        if not o.startswith("dbhist "):
            return Verdict(oracle_ok=False, cls="harness-died", detail=o[:100], outcome="died")
        segs = o[len("dbhist "):].split(" | ")
        kinds = [x.split(" ", 1)[0] for x in line.split(" ; ")[1:]]
        if len(segs) != len(kinds):
            return Verdict(oracle_ok=False, cls="store-died", detail="history stopped after op %d: %s" % (len(segs), segs[-1][:80]), outcome="died")
        k = kinds.index("rebuildas")
        res = segs[k]
        if "panic" in segs[k:]:
            return Verdict(oracle_ok=False, cls="panic", detail="panicked at or after the refused rebuild", outcome="panic")
        if "reopen-err" in res:
            return Verdict(oracle_ok=False, cls="refused-rebuild-lost-the-store", detail="after the refused rebuild the directory cannot be opened: %s" % res, outcome="reopen")
        before, after = parse_obs(segs[k - 1]), parse_obs(segs[k + 1])
        keys = ["ids.has", "ids.del", "ids.hash", "addrs.asof", "addrs.find", "stats.main", "stats.tags", "stats.del", "extra"]
        if res.startswith("refused"):
            keys += ["offs", "stats.bytes"]
        for ck in keys:
            if before.get(ck) != after.get(ck):
                return Verdict(oracle_ok=False, cls="refused-rebuild-changed-state",
                               detail="%s changed across a rebuild that answered %s (before %s, after %s)" % (ck, res, str(before.get(ck))[:60], str(after.get(ck))[:60]), outcome="changed")
        return Verdict(outcome="refused-rebuild/%s" % res.split(":")[0], nontrivial=True)
