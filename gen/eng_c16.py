"""C16 - reopen and rebuild preserve everything observable."""
from dbengine import DbEngine


class Engine(DbEngine):
    prop = 'C16'
    profiles = ('debug',)
    weights = {'new': 5, 'addr': 3, 'delete': 3, 'remove': 1.5, 'resubmit': 1, 'reopen': 2, 'rebuild': 2.5, 'xput': 2, 'query': 1, 'qown': 1, 'giftwrap': 0.3}
    aspects = {'addrs.find', 'query', 'stats.del', 'rebuild', 'rebuild-compact', 'stats.main', 'ids.hash', 'stats.tags', 'addrs.asof', 'reopen', 'extra', 'ids.del', 'rebuild-preserves', 'offs', 'reopen-preserves', 'ids.has'}
    quick = (120, 30)
    thorough = (2000, 70)
    rule = "histories with removed/replaced/deleted/ephemeral/failed-store leftovers, address markers with empty/long(183..476)/binary d values, extra tables with rows; reopen and rebuild inserted at random positions (several per history). oracle: the full observation dump (every id, address, counter, extra table, query battery) is identical before and after; after rebuild the event space equals the retrievable events' aligned sizes exactly and the backup files exist. non-trivial = history with >= 2 stores"
    trusted = DbEngine.db_trusted
    assumptions = ["rebuild's chown branch is not exercised"]
