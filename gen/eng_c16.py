"""C16 - reopen and rebuild preserve everything observable."""
from dbengine import DbEngine


class Engine(DbEngine):
    prop = 'C16'
    profiles = ('debug',)
    weights = {'new': 5, 'addr': 3, 'delete': 3, 'remove': 1.5, 'resubmit': 1, 'reopen': 2, 'rebuild': 2.5, 'xput': 2, 'query': 1, 'qown': 1, 'giftwrap': 0.3}
    aspects = {'addrs.find', 'query', 'stats.del', 'rebuild', 'rebuild-compact', 'stats.main', 'ids.hash', 'stats.tags', 'addrs.asof', 'reopen', 'extra', 'ids.del', 'rebuild-preserves', 'offs', 'reopen-preserves', 'ids.has', 'map.bytes'}
    with_map = True
    quick = (120, 30)
    thorough = (2000, 70)
    rule = "histories with removed/replaced/deleted/ephemeral/failed-store leftovers, address markers with empty/long(183..476)/binary d values, extra tables with rows; reopen and rebuild inserted at random positions (several per history). oracle: the full observation dump (every id, address, counter, extra table, query battery) is identical before and after; after rebuild the event space equals the retrievable events' aligned sizes exactly and the backup files exist. non-trivial = history with >= 2 stores"
    trusted = DbEngine.db_trusted
    assumptions = ["rebuild's chown branch is not exercised"]

    def generate(self, rng, tier):
        import random
        from dbgen import HistGen, AUTHORS, fake_id
        out = super().generate(rng, tier)
        # the event map filled to its very last byte (end marker == file length; debug profile: 2048-byte chunks), then
        # reopened / rebuilt without anything appended in between
        for i in range(16 if tier == "quick" else 300):
            sub = random.Random(rng.getrandbits(64))
            g = HistGen(sub, {"new": 1}, 0).run()
            end = 8
            n = sub.choice([0, 1, 3, 6])
            for j in range(n + 1):
                e = g.new_event(kind=1, pk=sub.choice(AUTHORS), tags=[])
                base = end if end % 8 == 0 else end + 8 - end % 8
                if j == n:
                    target = ((base + 152) // 2048 + sub.choice([1, 1, 2])) * 2048
                    e["content"] = b"F" * (target - base - 152 - sub.choice([0, 0, 0, 8]))
                else:
                    e["content"] = b"c" * sub.choice([0, 7, 100, 1900, 2048])
                e["id"] = fake_id(e)
                g.op_store(e)
                g.note_event(e)
                end = base + 152 + len(e["content"])
            for _ in range(sub.choice([1, 2])):
                g.ops.append((sub.choice(["reopen", "rebuild", "rebuild"]),))
            g.g_store_new()
            out.append(("exact-fill", g.render()))
        return out
