"""C17 - every access path agrees and index accounting never leaks."""
from dbengine import DbEngine


class Engine(DbEngine):
    prop = 'C17'
    profiles = ('debug',)
    weights = {'new': 6, 'addr': 3, 'delete': 2, 'remove': 2, 'vanish': 0.6, 'giftwrap': 0.5, 'resubmit': 1, 'qown': 8, 'query': 1, 'ghost': 0.4}
    ghost_sweep = True
    aspects = {'query', 'stats.del', 'stats.tags', 'ids.has', 'store.result', 'stats.main'}
    quick = (200, 35)
    thorough = (5000, 80)
    rule = 'histories of stores, replacements, deletions, removals and vanishes over events with repeated, >182-byte, empty and multi-string tags; after every op the entry counters must equal the number of retrievable events (id/ci/ac/akc) and the number of distinct (letter, padded value) pairs (tc/atc/ktc); own-field filter shapes of stored events (id; author; author+kind; each single-letter tag value alone / with author / with kind; time window) are queried and judged against the abstract store. non-trivial = history with >= 2 stores'
    trusted = DbEngine.db_trusted
    assumptions = []
