"""C17 - every access path agrees and index accounting never leaks."""
from dbengine import DbEngine


class Engine(DbEngine):
    prop = 'C17'
    profiles = ('debug',)
    weights = {'new': 6, 'addr': 3, 'delete': 2, 'remove': 2, 'vanish': 0.6, 'giftwrap': 0.5, 'resubmit': 1, 'qown': 8, 'query': 1, 'ghost': 0.4}
    ghost_sweep = True
    aspects = {'query', 'stats.del', 'stats.tags', 'ids.has', 'store.result', 'stats.main'}
    quick = (200, 35)
    thorough = (5000, 80)
    rule = 'histories of stores, replacements, deletions, removals and vanishes over events with repeated, >182-byte, empty and multi-string tags; after every op the entry counters must equal the number of retrievable events (id/ci/ac/akc) and the number of distinct (letter, padded value) pairs (tc/atc/ktc); own-field filter shapes of stored events (id; author; author+kind; each single-letter tag value alone / with author / with kind; time window) are queried and judged against the abstract store. non-trivial = history with >= 2 stores'
    trusted = DbEngine.db_trusted
    assumptions = []

    # events that differ only in the SECOND half of their id (the store does not verify ids) and share their timestamp:
    # every access path must return all of them (an ordering or a set that looks at a prefix of the id loses one)
    def generate(self, rng, tier):
        import random
        from dbgen import HistGen, AUTHORS
        out = super().generate(rng, tier)
        for i in range(12 if tier == 'quick' else 250):
            sub = random.Random(rng.getrandbits(64))
            g = HistGen(sub, {'new': 2}, sub.choice([0, 2])).run()
            a = sub.choice(AUTHORS)
            kind = sub.choice([1, 7, 1059])
            t = sub.choice([1000, 2000, 0])
            val = sub.choice([b'twin', b'x'])
            head = bytes(sub.getrandbits(8) for _ in range(sub.choice([16, 16, 24, 31])))
            twins = []
            for j in range(sub.choice([2, 2, 3])):
                e = g.new_event(kind=kind, pk=a, created=t, tags=[[b't', val]])
                e['content'] = b'twin %d' % j
                e['id'] = head + bytes([j + 1]) * (32 - len(head))
                g.note_event(e)
                g.op_store(e)
                twins.append(e)
            base = {'ids': [], 'authors': [], 'kinds': [], 'tags': [], 'since': None, 'until': None, 'limit': None}
            for sh in ({'authors': [a]}, {'authors': [a], 'kinds': [kind]}, {'tags': [[b't', val]]}, {'tags': [[b't', val]], 'authors': [a]},
                       {'tags': [[b't', val]], 'kinds': [kind]}, {'since': t, 'until': t}, {'ids': [e['id'] for e in twins]}):
                f = dict(base)
                f.update(sh)
                g.ops.append(('query', f, [], 1, 0, 0, g.now))
            if sub.random() < 0.5:
                g.ops.append(('vanish', a))
                f = dict(base)
                f.update({'authors': [a]})
                g.ops.append(('query', f, [], 1, 0, 0, g.now))
            out.append(('id-prefix-twins', g.render()))
        return out
