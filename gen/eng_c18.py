"""C18 - explicit removal and vanish remove exactly their targets."""
import random

import common as C
from dbengine import DbEngine
from dbgen import HistGen, AUTHORS
from engine import Verdict


class Engine(DbEngine):
    prop = 'C18'
    profiles = ('debug',)
    weights = {'new': 6, 'addr': 2, 'delete': 1, 'remove': 5, 'vanish': 2.5, 'giftwrap': 3, 'resubmit': 3, 'qown': 1, 'ghost': 0.5}
    aspects = {'addrs.find', 'stats.del', 'vanish', 'addrs.asof', 'store.result', 'stats.main', 'ids.del', 'ids.hash', 'remove', 'extra', 'ids.has', 'query'}
    ghost_sweep = True
    quick = (200, 35)
    thorough = (5000, 80)
    rule = 'removal/vanish-heavy histories: targets present / absent / already removed; authors with 0..many events across all kind classes; gift wraps (kind 1059) naming the author in the first p tag, a second p tag, as a non-first value, in upper-case hex, and kind-1 look-alikes; resubmission after removal; ephemeral kinds 20000/29999. oracle: exactly the targets disappear (ids/markers/extra equal the abstract store), removed events are accepted again, ephemeral events are never retrievable BY ID OR BY QUERY (every query of a history is judged: returned events are retrievable, matching, newest first, complete up to the limit); class ghost-sweep: every awkward tag shape (empty / nameless / valueless / repeated / long-named tag before an indexed one) x every way of taking an event out (remove, deletion request, replacement, vanish), then a query through every access path. non-trivial = history with >= 2 stores. Plus the arrival order that only exists with two callers: an event is stored by one thread while another removes it (by id, or by vanishing its author) under the schedule controller; when both have returned the event is resubmitted: whatever the interleaving it must then be retrievable and unmarked (removal leaves nothing behind that could refuse it)'
    trusted = DbEngine.db_trusted
    assumptions = []
    races = {'quick': 120, 'thorough': 2500}

    def make_race(self, rng):
        sub = random.Random(rng.getrandbits(64))
        g = HistGen(sub, {'new': 3, 'addr': 2}, sub.choice([0, 1, 3])).run()
        pk = bytes([0xC8]) * 32           # an author the setup history never uses
        ev = g.new_event(kind=sub.choice([1, 1, 7, 30023, 10000]), pk=pk, created=300, tags=[[b'd', b'r']] if sub.random() < 0.3 else [])
        ev['content'] = b'racer'
        ev['id'] = __import__('dbgen').fake_id(ev)
        setup = [g.render_op(op) for op in g.ops]
        rm = 'remove ' + C.tb(ev['id']) if sub.random() < 0.6 else 'vanish ' + C.tb(pk)
        progs = [['store ' + C.t_event(ev)], [rm] * sub.choice([1, 1, 2])]
        sub.shuffle(progs)
        line = self.race_line(sub, g, setup, progs, [ev['id']], after=['store ' + C.t_event(ev)])
        return ('removal-race:' + rm.split(' ')[0], line), {}

    def judge_race(self, meta, out):
        resp, flags = self.race_parse(out)
        if not flags:
            return Verdict(corr_ok=False, cls='unparsable-output', detail=out[:120], outcome='unparsable')
        if not flags[0].startswith('10'):
            return Verdict(oracle_ok=False, cls='removed-event-not-accepted-again',
                           detail='after a store racing with a removal, the event was resubmitted; it now observes as has/deleted = %s (must be retrievable and unmarked: removal leaves nothing that could refuse it)' % flags[0][:2],
                           outcome='refused')
        return Verdict(outcome='race-ok', nontrivial=True)

    def generate(self, rng, tier):
        import random
        from dbgen import HistGen, AUTHORS, fake_id
        out = super().generate(rng, tier)
        # a prolific key: several hundred events (and gift wraps naming it), many sharing a created_at second, then vanish:
        # whatever paging or batching the removal uses, nothing of the key may survive and bystanders must
        for i in range(3 if tier == "quick" else 40):
            sub = random.Random(rng.getrandbits(64))
            g = HistGen(sub, {"new": 1}, 0).run()
            me, other = AUTHORS[0], AUTHORS[1]
            n = sub.choice([257, 300, 513]) if tier != "quick" else sub.choice([257, 290])
            per = sub.choice([2, 3, 7])
            for j in range(n):
                e = g.new_event(kind=sub.choice([1, 1, 1, 7]), pk=me, created=100000 + j // per, tags=[])
                e["content"] = b"p%d" % j
                e["id"] = fake_id(e)
                g.op_store(e)
                g.note_event(e)
            for j in range(sub.choice([0, 5, 260 if tier != "quick" else 5])):
                e = g.new_event(kind=1059, pk=other, created=200000 + j // per, tags=[[b"p", me.hex().encode()]])
                e["content"] = b"g%d" % j
                e["id"] = fake_id(e)
                g.op_store(e)
                g.note_event(e)
            for j in range(4):
                e = g.new_event(kind=1, pk=other, created=100000 + j, tags=[])
                g.op_store(e)
            g.ops.append(("vanish", me))
            out.append(("prolific-vanish", g.render(obs_every=400)))
        return out

