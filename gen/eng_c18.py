"""C18 - explicit removal and vanish remove exactly their targets."""
from dbengine import DbEngine


class Engine(DbEngine):
    prop = 'C18'
    profiles = ('debug',)
    weights = {'new': 6, 'addr': 2, 'delete': 1, 'remove': 5, 'vanish': 2.5, 'giftwrap': 3, 'resubmit': 3, 'qown': 1, 'ghost': 0.5}
    aspects = {'addrs.find', 'stats.del', 'vanish', 'addrs.asof', 'store.result', 'stats.main', 'ids.del', 'ids.hash', 'remove', 'extra', 'ids.has'}
    quick = (200, 35)
    thorough = (5000, 80)
    rule = 'removal/vanish-heavy histories: targets present / absent / already removed; authors with 0..many events across all kind classes; gift wraps (kind 1059) naming the author in the first p tag, a second p tag, as a non-first value, in upper-case hex, and kind-1 look-alikes; resubmission after removal; ephemeral kinds 20000/29999. oracle: exactly the targets disappear (ids/markers/extra equal the abstract store), removed events are accepted again, ephemeral events are never retrievable. non-trivial = history with >= 2 stores'
    trusted = DbEngine.db_trusted
    assumptions = []

    def generate(self, rng, tier):
        import random
        from dbgen import HistGen, AUTHORS, fake_id
        out = super().generate(rng, tier)
        # a prolific key: several hundred events (and gift wraps naming it), many sharing a created_at second, then vanish:
        # whatever paging or batching the removal uses, nothing of the key may survive and bystanders must
        for i in range(3 if tier == "quick" else 40):
            sub = random.Random(rng.getrandbits(64))
            g = HistGen(sub, {"new": 1}, 0).run()
            me, other = AUTHORS[0], AUTHORS[1]
            n = sub.choice([257, 300, 513]) if tier != "quick" else sub.choice([257, 290])
            per = sub.choice([2, 3, 7])
            for j in range(n):
                e = g.new_event(kind=sub.choice([1, 1, 1, 7]), pk=me, created=100000 + j // per, tags=[])
                e["content"] = b"p%d" % j
                e["id"] = fake_id(e)
                g.op_store(e)
                g.note_event(e)
            for j in range(sub.choice([0, 5, 260 if tier != "quick" else 5])):
                e = g.new_event(kind=1059, pk=other, created=200000 + j // per, tags=[[b"p", me.hex().encode()]])
                e["content"] = b"g%d" % j
                e["id"] = fake_id(e)
                g.op_store(e)
                g.note_event(e)
            for j in range(4):
                e = g.new_event(kind=1, pk=other, created=100000 + j, tags=[])
                g.op_store(e)
            g.ops.append(("vanish", me))
            out.append(("prolific-vanish", g.render(obs_every=400)))
        return out

