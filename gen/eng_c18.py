"""C18 - explicit removal and vanish remove exactly their targets."""
from dbengine import DbEngine


class Engine(DbEngine):
    prop = 'C18'
    profiles = ('debug',)
    weights = {'new': 6, 'addr': 2, 'delete': 1, 'remove': 5, 'vanish': 2.5, 'giftwrap': 3, 'resubmit': 3, 'qown': 1}
    aspects = {'addrs.find', 'stats.del', 'vanish', 'addrs.asof', 'store.result', 'stats.main', 'ids.del', 'ids.hash', 'remove', 'extra', 'ids.has'}
    quick = (200, 35)
    thorough = (5000, 80)
    rule = 'removal/vanish-heavy histories: targets present / absent / already removed; authors with 0..many events across all kind classes; gift wraps (kind 1059) naming the author in the first p tag, a second p tag, as a non-first value, in upper-case hex, and kind-1 look-alikes; resubmission after removal; ephemeral kinds 20000/29999. oracle: exactly the targets disappear (ids/markers/extra equal the abstract store), removed events are accepted again, ephemeral events are never retrievable. non-trivial = history with >= 2 stores'
    trusted = DbEngine.db_trusted
    assumptions = []
