"""C19 - constructors yield faithful well-formed values or an error, never truncation."""
import common as C
from engine import BaseEngine, Verdict
from pools import *


def tags_size(ts):
    return 4 + 2 * len(ts) + sum(2 + sum(2 + len(s) for s in t) for t in ts)


def ev_size(e):
    return 144 + tags_size(e["tags"]) + 4 + len(e["content"])


def fl_size(f):
    return 32 + 32 * len(f["ids"]) + 32 * len(f["authors"]) + 2 * len(f["kinds"]) + tags_size(f["tags"])


def outlens(rng, size, tier):
    base = [size, size, size + 1, size + 7, size - 1, size - 2, 0, max(0, size - 20), size + 4096]
    if tier != "quick":
        base += list(range(max(0, size - 20), size + 3))
    return [x for x in base if x >= 0]


class Engine(BaseEngine):
    prop = "C19"
    rule = ("Tags/Event/Filter::from_parts into guarded caller buffers (64 guard bytes each side, prior fill 0x00/0xAA/0xFF) and "
            "Owned*::new, for part lists with 0..many tags of 0..many strings of 0..70000 bytes, totals on both sides of 65535, "
            "16382/16383 empty tags, 32764/32765 empty strings, 65535/65536 kinds (and ids in thorough), output lengths 0, size-20..size+2, "
            "size+4096. oracle (python, independent of the model): accessors/iterators/get_string reproduce the parts, bytes beyond the "
            "value untouched, guards intact, oversize refused, small buffer -> error. non-trivial = distinct case with at least one tag or list entry")
    trusted = ["theorems C19_* (CtorProofs.v) are about Ctor.*_from_parts, which write Layout.enc_* at the front of the buffer; "
               "the accessor half rests on AccessProofs.v. This run compares buffers byte-for-byte with the model."]
    assumptions = ["tag strings are valid UTF-8 (from_parts takes &str)",
                   "the u32 boundary (4 GiB) is exercised on the model/theorems only, never on the implementation",
                   "JSON constructors are covered under C01/C03/C07; sign_new under C08"]

    def big_tags(self, rng, tier):
        out = []
        for n in (65525, 65526, 65524, 70000, 65535 - 10):
            out.append([[b"a" * n]])
        out.append([[b"t", b"b" * 32000, b"c" * 33000]])          # sum just under
        out.append([[b"t", b"b" * 33000, b"c" * 33000]])          # sum over
        out.append([[] for _ in range(16382)])
        out.append([[] for _ in range(16383)])
        out.append([[b""] * 32764])
        out.append([[b""] * 32765])
        out.append([[b"x"] * 200 for _ in range(100)])
        return out

    def generate(self, rng, tier):
        out = []
        fills = [0, 0xAA, 0xFF]
        n = 300 if tier == "quick" else 5000
        for _ in range(n):
            ts = rand_tags(rng, maxn=6)
            size = tags_size(ts)
            for ol in rng.sample(outlens(rng, size, tier), 3):
                out.append(("tags", "ctor_tags %s %s %s" % (C.ttags(ts), C.tn(ol), C.tn(rng.choice(fills)))))
        for ts in self.big_tags(rng, tier):
            size = tags_size(ts)
            for ol in (size, size + 3, 65535, 70010):
                out.append(("tags-big", "ctor_tags %s %s %s" % (C.ttags(ts), C.tn(ol), C.tn(rng.choice(fills)))))
        for _ in range(n):
            e = rand_event(rng)
            if rng.random() < 0.1:
                e["content"] = bytes(rng.getrandbits(8) for _ in range(rng.choice([0, 1, 70000])))
            size = ev_size(e)
            for ol in rng.sample(outlens(rng, size, tier), 3):
                out.append(("event", "ctor_event %s %s %s" % (C.t_event(e), C.tn(ol), C.tn(rng.choice(fills)))))
        e = rand_event(rng)
        e["tags"] = [[b"a" * 65520]]
        out.append(("event-big", "ctor_event %s %s n:0" % (C.t_event(e), C.tn(ev_size(e)))))
        for _ in range(n):
            f = {"ids": rand_sub(rng, IDS, 5), "authors": rand_sub(rng, AUTHORS, 5), "kinds": rand_sub(rng, KINDS, 5),
                 "tags": rand_tags(rng), "since": rng.choice([None] + TIMES), "until": rng.choice([None] + TIMES),
                 "limit": rng.choice([None, 0, 1, C.U32 - 1, C.U32])}
            size = fl_size(f)
            for ol in rng.sample(outlens(rng, size, tier), 3):
                out.append(("filter", "ctor_filter %s %s %s" % (C.t_filter(f), C.tn(ol), C.tn(rng.choice(fills)))))
        # the JSON constructors on tag arrays whose binary section straddles 65535 bytes in different ways: one long string,
        # the LAST tag crossing the limit while it starts below it, several strings each below 65536, many small tags
        def jtags(ts):
            return (b"[" + b",".join(b"[" + b",".join(b'"' + x + b'"' for x in t) + b"]" for t in ts) + b"]")
        shapes = [[[b"r", b"a" * 65536]], [[b"r", b"a" * 65523]], [[b"r", b"a" * 65522]], [[b"r", b"a" * 65524]],
                  [[b"a", b"x" * 40000], [b"b", b"y" * 30000]], [[b"a", b"x" * 40000], [b"b", b"y" * 25000]],
                  [[b"a", b"x" * 65000], [b"b", b"y" * 600]], [[b"a", b"x" * 65000], [b"b", b"y" * 400]],
                  [[b"k", b"v" * 50] for _ in range(1100)], [[b"k", b"v" * 50] for _ in range(1000)],
                  [[b"a", b"x" * 30000, b"y" * 30000, b"z" * 6000]], [[b"a", b"x" * 30000, b"y" * 30000, b"z" * 5000]],
                  # the limit crossed only by what FOLLOWS the last string: trailing empty tags, value-less tags, empty strings
                  [[b"r", b"a" * 65522], []], [[b"r", b"a" * 65521], []], [[b"r", b"a" * 65518], [], []], [[b"r", b"a" * 65517], [], []],
                  [[b"r", b"a" * 65520], [b""]], [[b"r", b"a" * 65519], [b""]], [[b"r", b"a" * 65514], [], [b"x"], []],
                  [[b"r", b"a" * 65521, b""]], [[b"r", b"a" * 65520, b""]], [[], [b"r", b"a" * 65522]], [[], [b"r", b"a" * 65521], []]]
        for ts in shapes:
            cls = "json-fits" if tags_size(ts) <= 65535 else "json-oversize"
            if len(ts) > 100:
                cls += "+"          # many small tags: implementation and oracle only (the list-based model needs minutes)
            t = jtags(ts)
            out.append((cls, "tagsjson %s n:80000 n:%d" % (C.tb(t), rng.choice(fills))))
            ev = (b'{"id":"' + b"11" * 32 + b'","pubkey":"' + b"22" * 32 + b'","created_at":1,"kind":1,"tags":' + t
                  + b',"content":"c","sig":"' + b"33" * 64 + b'"}')
            out.append((cls, "evjson %s n:80000 n:%d" % (C.tb(ev), rng.choice(fills))))
        # Event::from_json into buffers around the size needed, for several member orders (content before / after the tags:
        # the parser has a separate path for each) and plain / escaped / non-ASCII contents: too small -> error, never a panic
        members = {"id": b'"id":"' + b"11" * 32 + b'"', "pubkey": b'"pubkey":"' + b"22" * 32 + b'"', "created_at": b'"created_at":1',
                   "kind": b'"kind":1', "sig": b'"sig":"' + b"33" * 64 + b'"'}
        orders = [["id", "pubkey", "created_at", "kind", "tags", "content", "sig"], ["content", "id", "pubkey", "created_at", "kind", "tags", "sig"],
                  ["id", "content", "sig", "tags", "pubkey", "created_at", "kind"], ["tags", "content", "id", "pubkey", "created_at", "kind", "sig"]]
        for content, clen in ((b"", 0), (b"hello world, plain ascii content", 32), (b"tab\\there \\\"q\\\"", 12), ("é†𝄞 ok".encode(), 12)):
            for ts in ([], [[b"t", b"x"]], [[b"e", b"ab"], [], [b"p"]]):
                m2 = dict(members)
                m2["tags"] = b'"tags":' + jtags(ts)
                m2["content"] = b'"content":"' + content + b'"'
                need = 144 + tags_size(ts) + 4 + clen
                for order in (orders if tier != "quick" else rng.sample(orders, 2) + [orders[1]]):
                    text = b"{" + b",".join(m2[k] for k in order) + b"}"
                    for ol in sorted(set([need - clen - 5, need - clen - 4, need - clen - 1, need - clen, need - clen + 1, need - 2, need - 1, need, need + 1, need + 7]
                                         + ([need - j for j in range(0, clen + 9)] if tier != "quick" else []))):
                        if ol < 0:
                            continue
                        cls = "json-small" if ol < need else "json-room"
                        out.append((cls, "evjson %s n:%d n:%d" % (C.tb(text), ol, rng.choice(fills))))
        # Event::from_json with kind / created_at values far outside their fields (every wrap-around window of a 16/32/64-bit
        # accumulator): an error, never a panic, never a truncated value
        for j in range(40 if tier == "quick" else 1500):
            kind = rng.choice([rng.randrange(65536, 1 << 32), rng.randrange(1 << 32, 1 << 34), (1 << 32) * rng.randrange(1, 9) + rng.randrange(65536),
                               (1 << 32) + 1, (1 << 32) + 65535, 10 ** 10, 10 ** 19, 65535, 65536])
            created = rng.choice([1, (1 << 64) - 1, 1 << 64, 3 * 10 ** 19, rng.randrange(1 << 64, 10 ** 21)]) if j % 2 else 1
            ev = (b'{"id":"' + b"11" * 32 + b'","pubkey":"' + b"22" * 32 + b'","created_at":%d,"kind":%d,"tags":[],"content":"c","sig":"' % (created, kind)
                  + b"33" * 64 + b'"}')
            cls = "json-room" if kind <= 65535 and created < (1 << 64) else "json-range"
            out.append((cls, "evjson %s n:400 n:%d" % (C.tb(ev), rng.choice(fills))))
        for nk in (65535, 65536):
            f = {"ids": [], "authors": [], "kinds": [7] * nk, "tags": [], "since": None, "until": None, "limit": None}
            out.append(("filter-big", "ctor_filter %s %s n:170" % (C.t_filter(f), C.tn(fl_size(f) + 1))))
        if tier != "quick":
            for which in ("ids", "authors"):
                for nk in (65535, 65536):
                    f = {"ids": [], "authors": [], "kinds": [], "tags": [], "since": None, "until": None, "limit": None}
                    f[which] = [IDS[0]] * nk
                    out.append(("filter-big", "ctor_filter %s %s n:170" % (C.t_filter(f), C.tn(fl_size(f)))))
        return out

    def skip_model(self, gcls):
        return gcls.endswith("+")

    def judge(self, gcls, line, model_out, impl_outs):
        o = impl_outs["debug"]
        i = C.kv(o)
        m = C.kv(model_out)
        toks = line.split(" ")
        cmd = toks[0]
        if gcls.startswith("json-"):
            if o.startswith("PROCESS") or o.endswith("impl=panic") or "r" not in i:
                return Verdict(oracle_ok=False, cls="ctor-panics", detail="%s panicked or died: %s" % (cmd, o[:60]), outcome="panic")
            if i.get("guard") == "false":
                return Verdict(oracle_ok=False, cls="write-outside-buffer", detail="guard bytes modified", outcome="guard")
            rcls = i["r"].split(" ")[0].split(":")[0]
            if gcls.startswith("json-oversize") and rcls == "ok":
                return Verdict(oracle_ok=False, cls="oversize-not-refused", detail="%s accepted a tag section larger than 65535 bytes" % cmd, outcome=rcls)
            if gcls == "json-range" and rcls == "ok":
                return Verdict(oracle_ok=False, cls="out-of-range-accepted", detail="%s accepted a kind / created_at outside its field" % cmd, outcome=rcls)
            if gcls == "json-small" and rcls == "ok":
                return Verdict(oracle_ok=False, cls="small-buffer-not-error", detail="%s accepted a buffer smaller than the event needs" % cmd, outcome=rcls)
            if gcls == "json-room" and rcls != "ok":
                return Verdict(oracle_ok=False, cls="ctor-refuses-valid", detail="%s refused although the buffer is large enough: %s" % (cmd, i["r"][:40]), outcome=rcls)
            if gcls.startswith("json-fits") and rcls != "ok":
                return Verdict(oracle_ok=False, cls="ctor-refuses-valid", detail="%s refused a tag section that fits: %s" % (cmd, i["r"][:40]), outcome=rcls)
            if rcls == "ok" and (i.get("acc") == "panic" or i.get("json") == "panic"):
                return Verdict(oracle_ok=False, cls="accessor-unfaithful", detail="accessors panic on the accepted value", outcome="acc")
            if model_out == "noop":
                return Verdict(outcome="%s/%s" % (rcls, gcls), nontrivial=True)
            mr = m.get("r", "?").split(" ")[0].split(":")[0]
            if mr != rcls:
                return Verdict(corr_ok=False, cls="ctor-outcome", detail="model %s impl %s" % (m.get("r", "?")[:30], i["r"][:30]), outcome=rcls)
            for k in ("ev", "tags", "consumed"):
                if rcls == "ok" and k in i and k in m and i[k] != m[k]:
                    return Verdict(corr_ok=False, cls="ctor-bytes", detail="%s differs from the model" % k, outcome=rcls)
            return Verdict(outcome="%s/%s" % (rcls, gcls), nontrivial=True)
        outlen, fill = int(toks[-2][2:]), int(toks[-1][2:])
        body = " ".join(toks[1:-2])
        if o.endswith("impl=panic") or "r" not in i:
            return Verdict(oracle_ok=False, cls="ctor-panics", detail="%s panicked" % cmd, outcome="panic")
        if i.get("guard") != "true":
            return Verdict(oracle_ok=False, cls="write-outside-buffer", detail="guard bytes modified", outcome="guard")
        # independent size / fits computation from the token line
        parts = parse_parts(cmd, toks[1:-2])
        size, fits = parts["size"], parts["fits"]
        rcls = i["r"].split(" ")[0].split(":")[0]
        buf = i["buf"]
        if not fits:
            if rcls != "err":
                return Verdict(oracle_ok=False, cls="oversize-not-refused", detail="parts exceed the length fields but r=%s" % i["r"][:40], outcome=rcls)
            if not i["owned"].startswith("err"):
                return Verdict(oracle_ok=False, cls="oversize-not-refused", detail="Owned::new accepted oversize parts", outcome=rcls)
        elif outlen < size:
            if rcls != "err":
                return Verdict(oracle_ok=False, cls="small-buffer-not-error", detail="buffer %d < %d but r=%s" % (outlen, size, i["r"][:40]), outcome=rcls)
        else:
            if rcls != "ok":
                return Verdict(oracle_ok=False, cls="ctor-refuses-valid", detail="fits and buffer large enough but r=%s" % i["r"][:60], outcome=rcls)
            acc = i["acc"]
            if cmd == "ctor_tags":
                if i.get("getstr") != "true":
                    return Verdict(oracle_ok=False, cls="accessor-unfaithful", detail="get_string differs from parts", outcome="acc")
            if acc.strip() != parts["canon"]:
                return Verdict(oracle_ok=False, cls="accessor-unfaithful", detail="accessors do not reproduce the parts", outcome="acc")
            if buf[2 * size:] != ("%02x" % fill) * (outlen - size):
                return Verdict(oracle_ok=False, cls="writes-beyond-value", detail="bytes beyond the value were modified", outcome="tail")
            if i["owned"] != "ok " + buf[:2 * size]:
                return Verdict(oracle_ok=False, cls="owned-differs", detail="Owned::new bytes differ from from_parts bytes", outcome="owned")
        # correspondence with the model
        mcls = m["r"].split(" ")[0].split(":")[0]
        if mcls != rcls:
            return Verdict(corr_ok=False, cls="ctor-outcome", detail="model %s impl %s" % (m["r"][:30], i["r"][:30]), outcome=rcls)
        if rcls == "ok" and m["r"][3:] != buf:
            return Verdict(corr_ok=False, cls="ctor-bytes", detail="buffer differs from the model", outcome=rcls)
        if (m["fits"] == "true") != fits:
            return Verdict(corr_ok=False, cls="fits-spec", detail="Coq fits predicate disagrees with the python oracle", outcome=rcls)
        return Verdict(outcome="%s/%s" % (rcls, "fits" if fits else "oversize"), nontrivial=" L0" != body[:3] or "L1" in body)


def parse_parts(cmd, toks):
    """re-parse the token list (independent of the model) -> size, fits, canonical accessor string"""
    pos = [0]

    def nxt():
        t = toks[pos[0]]
        pos[0] += 1
        return t

    def p_b():
        return bytes.fromhex(nxt()[2:])

    def p_n():
        return int(nxt()[2:])

    def p_list(f):
        k = int(nxt()[1:])
        return [f() for _ in range(k)]

    def p_opt():
        if toks[pos[0]] == "none":
            pos[0] += 1
            return None
        return p_n()

    def p_tags():
        return p_list(lambda: p_list(p_b))

    if cmd == "ctor_tags":
        ts = p_tags()
        size = tags_size(ts)
        return {"size": size, "fits": size <= 65535, "canon": C.ttags(ts)}
    if cmd == "ctor_event":
        e = {"id": p_b(), "pk": p_b(), "sig": p_b(), "kind": p_n(), "created": p_n(), "tags": p_tags(), "content": p_b()}
        size = ev_size(e)
        return {"size": size, "fits": tags_size(e["tags"]) <= 65535 and size <= C.U32, "canon": C.t_event(e)}
    f = {"ids": p_list(p_b), "authors": p_list(p_b), "kinds": p_list(p_n), "tags": p_tags(), "since": p_opt(), "until": p_opt(), "limit": p_opt()}
    size = fl_size(f)
    fits = (len(f["ids"]) <= 65535 and len(f["authors"]) <= 65535 and len(f["kinds"]) <= 65535
            and tags_size(f["tags"]) <= 65535 and size <= C.U32)
    canon = " ".join([C.tl(C.tb(x) for x in f["ids"]), C.tl(C.tb(x) for x in f["authors"]), C.tl(C.tn(k) for k in f["kinds"]),
                      C.ttags(f["tags"]), C.tn(f["since"] if f["since"] is not None else 0),
                      C.tn(f["until"] if f["until"] is not None else C.U64), C.tn(f["limit"] if f["limit"] is not None else C.U32)])
    return {"size": size, "fits": fits, "canon": canon}
