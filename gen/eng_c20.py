"""C20 - HyperLogLog sketches merge like sets and estimate without failing."""
import common as C
from engine import BaseEngine, Verdict


def rand_el(rng):
    r = rng.random()
    b = bytearray(rng.getrandbits(8) for _ in range(32))
    if r < 0.15:
        k = rng.randrange(0, 32)          # a run of zero bytes: large rho
        for i in range(k, 32):
            b[i] = 0
    elif r < 0.25:
        k = rng.randrange(0, 31)
        for i in range(k, min(32, k + rng.randrange(1, 12))):
            b[i] = 0
    elif r < 0.3:
        b = bytearray(32)
    elif r < 0.35:
        b = bytearray([rng.choice([0, 1, 0x80, 0xff])] * 32)
    return bytes(b)


class Engine(BaseEngine):
    prop = "C20"
    profiles = ("debug", "release")
    rule = ("hll_add: two random element lists A,B (random / zero-run / all-zero inputs, offsets 0..23 valid and 24..40 rejected): "
            "registers of sketch(A), sketch(B), sketch(A++B), sketch(B++A), A+=B, B+=A, A+=A, associativity, hex round trip, estimate; "
            "hll_hex: hex import of every single-register extreme 0..255, random full register states, upper-case, wrong length, "
            "non-hex and non-ASCII characters; hll_env: seeded random cardinalities (statistical test, oracle only). "
            "both build profiles. non-trivial = distinct case with at least one accepted element or an accepted import")
    trusted = ["theorems: merge_comm/assoc/idem, upd/add idempotent+commutative, sketch_union, sketch_perm, hex_roundtrip, "
               "from_hex_total, rho_fits_u8 (HllProofs.v); the float part of estimate_count is not modelled: 'never panics', "
               "'empty = 0' and the 40% envelope are checked on the implementation only (labelled test, not proof)"]
    assumptions = ["f64 arithmetic, ln/log2/round of libm (not modelled)", "the error envelope is a statistical statement checked by seeded trials"]

    def generate(self, rng, tier):
        out = []
        n = 400 if tier == "quick" else 6000
        for _ in range(n):
            def lst():
                k = rng.choice([0, 1, 2, 5, 20, 60])
                return [(rand_el(rng), rng.choice(list(range(24)) * 3 + list(range(24, 41)))) for _ in range(k)]
            a, b = lst(), lst()
            if rng.random() < 0.3 and a:
                b = b + [rng.choice(a)]          # shared elements
            f = lambda l: C.tl("%s %s" % (C.tb(i), C.tn(o)) for (i, o) in l)
            out.append(("add", "hll_add %s %s" % (f(a), f(b))))
        # the longest zero runs a tail can hold: same bucket, tails 00..00, 00..01, 00..02, 00..80, 00..0100, in both orders and
        # split over the two lists (a register already at the tail's capacity, then an element that exceeds it)
        for off in range(0, 32):
            bucket = bytes([rng.getrandbits(8)])
            def el(tail_end):
                t = bytes(32 - off - 1)
                t = t[:len(t) - len(tail_end)] + tail_end if len(tail_end) <= len(t) else t
                return bytes(off) + bucket + t
            variants = [el(b""), el(b"\x01"), el(b"\x02"), el(b"\x80"), el(b"\x01\x00")]
            f = lambda l: C.tl("%s %s" % (C.tb(i), C.tn(o)) for (i, o) in l)
            for x in variants[1:]:
                out.append(("add-ceiling", "hll_add %s %s" % (f([(x, off)]), f([(variants[0], off)]))))
                out.append(("add-ceiling", "hll_add %s %s" % (f([(x, off), (variants[0], off)]), f([(variants[0], off), (x, off)]))))
        # a known number of distinct elements none of which falls into one chosen bucket: the sketch keeps an empty register at a
        # cardinality where linear counting no longer applies; the estimate must stay inside the envelope of the true count
        for n_el in ((2600, 3000, 4000) if tier == "quick" else (2000, 2400, 2600, 2800, 3000, 3500, 4000, 6000, 10000)):
            off = rng.choice([0, 7, 16, 23])
            empty = rng.getrandbits(8)
            els = set()
            while len(els) < n_el:
                e = bytes(rng.getrandbits(8) for _ in range(32))
                if e[off] != empty:
                    els.add(e)
            f = lambda l: C.tl("%s %s" % (C.tb(i), C.tn(o)) for (i, o) in l)
            out.append(("one-empty-bucket:%d" % n_el, "hll_add %s L0" % f([(e, off) for e in sorted(els)])))
        # all offsets with the all-zero element (register extreme through add_element)
        for off in range(0, 41):
            out.append(("add-zero", "hll_add %s L0" % C.tl(["%s %s" % (C.tb(bytes(32)), C.tn(off))])))
        # hex import
        hexs = lambda regs: bytes(regs).hex().encode()
        for v in range(256):
            regs = bytearray(256)
            regs[rng.randrange(256)] = v
            out.append(("hex-extreme", "hll_hex " + C.tb(hexs(regs))))
            regs = bytearray([v] * 256)
            out.append(("hex-uniform", "hll_hex " + C.tb(hexs(regs))))
        out.append(("hex-empty", "hll_hex " + C.tb(hexs(bytes(256)))))
        # dense states: no empty register, all registers small (the small-range correction has nothing to count)
        for hi in (1, 2, 3, 5, 8):
            for _ in range(4 if tier == "quick" else 40):
                regs = bytes(rng.randrange(1, hi + 1) for _ in range(256))
                out.append(("hex-dense", "hll_hex " + C.tb(hexs(regs))))
        for _ in range(100 if tier == "quick" else 3000):
            regs = bytes(rng.choice([rng.randrange(0, 12), rng.randrange(256), 0]) for _ in range(256))
            s = hexs(regs)
            r = rng.random()
            if r < 0.15:
                s = s.upper()
            elif r < 0.25:
                s = s[:rng.randrange(0, 512)]
            elif r < 0.35:
                k = rng.randrange(0, 511)
                s = s[:k] + rng.choice(["é", "g", " ", "ÿ", "G", "\x7f", "€"]).encode() + s[k + 1:]
            elif r < 0.4:
                k = rng.randrange(0, 510)
                ch = rng.choice(["é", "ÿ"]).encode()
                s = s[:k] + ch + s[k + 2:]      # same byte length, bytes >= 0x80
            out.append(("hex-random", "hll_hex " + C.tb(s)))
        trials = 6 if tier == "quick" else 40
        for card in (100, 300, 1000, 3000, 10000) + ((100000,) if tier != "quick" else ()):
            for tr in range(trials):
                out.append(("envelope", "hll_env %s %s" % (C.tn(card), C.tn(rng.getrandbits(62)))))
        # very large cardinalities (beyond 2^32/30, where a 32-bit large-range correction would kick in); release build only
        for card in ((200000000,) if tier == "quick" else (150000000, 200000000, 1000000000, 2600000000)):
            out.append(("envelope-large", "hll_env %s %s" % (C.tn(card), C.tn(rng.getrandbits(62)))))
        return out

    def judge(self, gcls, line, model_out, impl_outs):
        cmd = line.split(" ", 1)[0]
        first = None
        for prof, o in impl_outs.items():
            i = C.kv(o)
            if cmd == "hll_env":
                card = int(line.split(" ")[1][2:])
                if i.get("est") == "skipped-in-debug-build":
                    continue
                if i.get("est") in (None, "panic"):
                    return Verdict(oracle_ok=False, cls="estimate-panics", detail="[%s] estimate_count panicked" % prof, outcome="panic")
                est = int(i["est"])
                if abs(est - card) > 0.4 * card:
                    return Verdict(oracle_ok=False, cls="estimate-outside-envelope",
                                   detail="[%s] cardinality %d estimated %d" % (prof, card, est), outcome="off")
                continue
            m = C.kv(model_out)
            if cmd == "hll_add":
                if "ra" not in i:
                    return Verdict(oracle_ok=False, cls="add-panics", detail="[%s] %s" % (prof, o[:100]), outcome="panic")
                offs = [int(x[2:]) for x in line.split(" ") if x.startswith("n:")]
                if i["est"] == "panic" or i["esta"] == "panic":
                    return Verdict(oracle_ok=False, cls="estimate-panics",
                                   detail="[%s] estimate_count panicked on registers %s" % (prof, i["rab"][:64]), outcome="est-panic")
                laws = [("merge-commutative", i["mab"] == i["mba"]), ("merge-idempotent", i["maa"] == i["ra"]),
                        ("merge-associative", i["assoc"] == "true"), ("add-order-independent", i["rab"] == i["rba"]),
                        ("union-is-merge", i["rab"] == i["mab"]), ("hex-roundtrip", i["rt"] == "true")]
                for name, okk in laws:
                    if not okk:
                        return Verdict(oracle_ok=False, cls=name, detail="[%s] law %s fails" % (prof, name), outcome=name)
                # every offset < 24 accepted, >= 24 rejected (A, B, A, B, B, A are added in this order by the harness)
                nA = int(line.split(" ")[1][1:])
                exp_a = "".join("o" if x < 24 else "e" for x in offs[:nA])
                exp_b = "".join("o" if x < 24 else "e" for x in offs[nA:])
                if i["errs"] != exp_a + exp_b + exp_a + exp_b + exp_b + exp_a:
                    return Verdict(oracle_ok=False, cls="offset-range", detail="[%s] accepted/rejected offsets %s" % (prof, i["errs"]), outcome="errs")
                if (m["ra"], m["rb"], m["rab"], m["mab"]) != (i["ra"], i["rb"], i["rab"], i["mab"]):
                    return Verdict(corr_ok=False, cls="hll-registers", detail="[%s] registers differ from the model" % prof, outcome="regs")
                if m["errs"] != exp_a + exp_b + exp_a + exp_b:
                    return Verdict(corr_ok=False, cls="hll-errs", detail="model errs %s" % m["errs"], outcome="errs")
                if gcls.startswith("one-empty-bucket:"):
                    card = int(gcls.split(":")[1])
                    if abs(int(i["esta"]) - card) > 0.4 * card:
                        return Verdict(oracle_ok=False, cls="estimate-outside-envelope",
                                       detail="[%s] %d distinct elements (one register empty by construction) estimated %s" % (prof, card, i["esta"]), outcome="off")
                first = "ok"
            elif cmd == "hll_hex":
                if "imp" not in i or i["imp"] == "panic" or o.endswith("impl=panic"):
                    return Verdict(oracle_ok=False, cls="hex-import-panics", detail="[%s] from_hex_string panicked" % prof, outcome="panic")
                if i["imp"] == "ok":
                    if i["est"] == "panic":
                        return Verdict(oracle_ok=False, cls="estimate-panics",
                                       detail="[%s] estimate_count panicked on imported registers" % prof, outcome="est-panic")
                    inp = bytes.fromhex(line.split(" ")[1][2:]).decode()
                    if i["regs"] != inp.lower():
                        return Verdict(oracle_ok=False, cls="hex-roundtrip", detail="[%s] export != lowercase(import)" % prof, outcome="rt")
                    # a mathematical upper bound of every HyperLogLog estimate of 256 registers: the raw estimate is at most
                    # alpha*m*2^max(register), linear counting at most m*ln(m); anything beyond is not a finite count of this state
                    regs_b = bytes.fromhex(inp)
                    mx = max(regs_b)
                    if mx <= 40 and int(i["est"]) > 1.1 * max(1420, 0.72 * 256 * (1 << mx)):
                        return Verdict(oracle_ok=False, cls="estimate-not-finite",
                                       detail="[%s] registers with maximum %d estimated as %s" % (prof, mx, i["est"]), outcome="est-huge")
                    if i["zeros"] == "256" and i["est"] != "0":
                        return Verdict(oracle_ok=False, cls="empty-not-zero", detail="[%s] empty sketch estimates %s" % (prof, i["est"]), outcome="empty")
                mi = m["imp"].split(":")[0].replace("ok ", "ok").strip()
                ii = i["imp"].split(":")[0]
                if mi != ii:
                    return Verdict(corr_ok=False, cls="hex-import", detail="[%s] model %s impl %s" % (prof, m["imp"], i["imp"]), outcome=ii)
                if ii == "ok" and m["regs"] != i["regs"]:
                    return Verdict(corr_ok=False, cls="hex-import-regs", detail="registers differ", outcome=ii)
                first = ii
        nontriv = not (cmd == "hll_add" and " L0 L0" in line)
        return Verdict(outcome=first or "ok", nontrivial=nontriv)
