"""Base class of the per-property engines: generate -> run model + implementation -> judge."""
import hashlib
import os
import random

import common as C


class Verdict:
    __slots__ = ("corr_ok", "oracle_ok", "cls", "detail", "outcome", "nontrivial")

    def __init__(self, corr_ok=True, oracle_ok=True, cls="", detail="", outcome="", nontrivial=True):
        self.corr_ok, self.oracle_ok, self.cls, self.detail = corr_ok, oracle_ok, cls, detail
        self.outcome, self.nontrivial = outcome, nontrivial


class BaseEngine:
    prop = "C00"
    profiles = ("debug",)
    rule = ""
    trusted = []
    assumptions = []
    kind = "input"

    # -- to override
    def generate(self, rng, tier):
        """-> list of (generator-class, case-line)"""
        raise NotImplementedError

    def judge(self, gcls, line, model_out, impl_outs):
        """impl_outs: {profile: line} -> Verdict"""
        raise NotImplementedError

    def model_lines(self, lines, profile):
        """lines fed to the runner for a given harness profile (default: identical)"""
        return lines

    # -- machinery
    def skip_model(self, gcls):
        """classes judged by the oracle only (the model would be too slow on them)"""
        return False

    def execute(self, cases):
        lines = [c[1] for c in cases]
        mlines = ["noop" if self.skip_model(c[0]) else c[1] for c in cases]
        model_out = C.run_lines(os.path.join(C.RUNNER, "runner.exe"), mlines)
        impl = {}
        for prof in self.profiles:
            impl[prof] = C.run_lines(C.harness_exe(prof), lines)
        return model_out, impl

    def run_cases(self, cases, seed):
        model_out, impl = self.execute(cases)
        failures, dist, seen = [], {}, set()
        samples = []
        nontriv = 0
        for i, (gcls, line) in enumerate(cases):
            impl_i = {p: impl[p][i] for p in self.profiles}
            try:
                v = self.judge(gcls, line, model_out[i], impl_i)
            except Exception as ex:  # malformed output is a correspondence failure, never a crash
                v = Verdict(corr_ok=False, cls="unparsable-output", detail=repr(ex), outcome="unparsable")
            key = "%s/%s" % (gcls, v.outcome)
            dist[key] = dist.get(key, 0) + 1
            h = hashlib.sha1(line.encode()).digest()[:8]
            if h not in seen:
                seen.add(h)
                if v.nontrivial:
                    nontriv += 1
            if len(samples) < 8 and (i % max(1, len(cases) // 8) == 0):
                samples.append({"class": gcls, "case": line[:600], "model": (model_out[i] or "")[:300],
                                "impl": {p: (impl_i[p] or "")[:300] for p in impl_i}})
            if not v.oracle_ok:
                failures.append(("oracle", v.cls, {"kind": self.kind, "seed": seed, "case": line, "class": gcls,
                                                   "impl": impl_i, "model": model_out[i], "oracle": v.detail}))
            elif not v.corr_ok:
                failures.append(("corr", v.cls or "correspondence", {"kind": self.kind, "seed": seed, "case": line, "class": gcls,
                                                                     "impl": impl_i, "model": model_out[i],
                                                                     "correspondence": v.detail}))
        # smallest failing case first
        failures.sort(key=lambda f: len(f[2]["case"]))
        return failures, dist, nontriv, samples

    def corpus(self):
        d = os.path.join(C.VERIF, "corpus", self.prop)
        out = []
        if os.path.isdir(d):
            for fn in sorted(os.listdir(d)):
                for ln in open(os.path.join(d, fn)):
                    ln = ln.rstrip("\n")
                    if ln and not ln.startswith("#"):
                        out.append(("corpus:" + fn, ln))
        return out

    def run(self, rng, tier, seed):
        cases = self.corpus() + self.generate(rng, tier)
        failures, dist, nontriv, samples = self.run_cases(cases, seed)
        stats = {"evaluations": len(cases), "distinct_nontrivial": nontriv, "samples": samples,
                 "distribution": dist, "rule": self.rule}
        stats.update(self.extra_stats())
        return {"stats": stats, "failures": failures}

    def extra_stats(self):
        return {}

    def search(self, rng, tier, seed, failures):
        """correspondence broke but the oracle found nothing: generate further neighbourhoods (other
        seeds, same generator classes) and look for an input on which the *property* fails on the
        implementation; bounded so that the check still ends in minutes"""
        import time as _t
        out = []
        t0 = _t.time()
        for k in range(4):
            if _t.time() - t0 > 90:
                break
            cases = self.generate(random.Random("%s/search/%d/%d" % (self.prop, seed, k)), tier)
            fs, _, _, _ = self.run_cases(cases[:60000], seed)
            orc = [f for f in fs if f[0] == "oracle"]
            if orc:
                out.extend(orc[:3])
                break
        return out

    def replay(self, payload):
        line = payload.get("case")
        if not isinstance(line, str) or payload.get("kind") == "obligation":
            print("replay: obligation/correspondence failure, no input to run: %s" % line)
            return 1
        C.build_runner()
        C.build_harness(self.profiles)
        cases = [(payload.get("class", "replay"), line)]
        model_out, impl = self.execute(cases)
        impl_i = {p: impl[p][0] for p in self.profiles}
        v = self.judge(cases[0][0], line, model_out[0], impl_i)
        print("case : %s" % line[:2000])
        print("model: %s" % model_out[0][:2000])
        for p in impl_i:
            print("impl[%s]: %s" % (p, impl_i[p][:2000]))
        print("oracle: %s  correspondence: %s  %s" % ("ok" if v.oracle_ok else "FAILS", "ok" if v.corr_ok else "DIFFERS", v.detail))
        return 0 if (v.oracle_ok and v.corr_ok) else 1
