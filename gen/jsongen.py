"""Generation of JSON texts for events and filters from the abstract syntax the C01/C07 theorems
quantify over: member order, whitespace runs, string spellings, hex case, unknown members.
Plus the independent reference reading of a text with python's json module."""
import json

WS = ["", "", "", " ", "\n", "\t", "\r\n", "  \t ", " " * 17]
SHORT = {8: "\\b", 12: "\\f", 10: "\\n", 13: "\\r", 9: "\\t", 34: '\\"', 92: "\\\\", 47: "\\/"}


def ws(rng):
    return rng.choice(WS)


def spell_char(rng, ch):
    c = ord(ch)
    opts = []
    if c >= 0x20 and c not in (34, 92):
        opts.append(ch)
        opts.append(ch)
        opts.append(ch)
    if c in SHORT:
        opts.append(SHORT[c])
        opts.append(SHORT[c])
    if c < 0x10000 and not (0xD800 <= c <= 0xDFFF):
        h = "%04x" % c
        opts.append("\\u" + rng.choice([h, h.upper(), h[:2].upper() + h[2:]]))
    return rng.choice(opts)


def spell_string(rng, s, plain=False):
    if plain:
        return '"' + "".join(SHORT[ord(ch)] if ord(ch) in (34, 92) else ("\\u%04x" % ord(ch) if ord(ch) < 0x20 else ch) for ch in s) + '"'
    return '"' + "".join(spell_char(rng, ch) for ch in s) + '"'


CHARS = (["a", "b", "z", " ", "0", "/", "\\", '"', "\n", "\t", "\r", "\b", "\f", "\x00", "\x01", "\x1f", "\x7f", "é", "ÿ", "\u0080",
          "߿", "ࠀ", "†", "퟿", "", "￿", "\U00010000", "\U0001d11e", "\U0010ffff", "]", "}", ",", ":", "[", "{"])


def rand_text(rng, maxlen=12):
    n = rng.choice([0, 1, 2, 5, maxlen])
    if rng.random() < 0.3:
        return "".join(chr(rng.choice([rng.randrange(0x20, 0x7f), rng.randrange(0, 0x20), rng.randrange(0xA0, 0xD800),
                                       rng.randrange(0xE000, 0x10000), rng.randrange(0x10000, 0x110000)])) for _ in range(n))
    return "".join(rng.choice(CHARS) for _ in range(n))


def rand_json_value(rng, depth=0):
    r = rng.random()
    if depth > 3 or r < 0.45:
        return rng.choice(["0", "1", "-1", "12.5", "1e9", "-0.5E-3", "1e+3", "2.5E+3", "-6.02e+23", "0.0", "1E5", "true", "false", "null", '""', '"x"', '"a\\"b"', '"\\\\"', '"]}"',
                           '"\\u00e9"', '"id"', "65536", "18446744073709551616"])
    if r < 0.7:
        items = [rand_json_value(rng, depth + 1) for _ in range(rng.choice([0, 1, 2, 3]))]
        return "[" + ws(rng) + ("," + ws(rng)).join(items) + ws(rng) + "]"
    keys = ["id", "kind", "content", "tags", "x", "", "pubkey", "a b"]
    items = ['"%s"%s:%s%s' % (k, ws(rng), ws(rng), rand_json_value(rng, depth + 1)) for k in rng.sample(keys, rng.choice([0, 1, 2]))]
    return "{" + ws(rng) + ("," + ws(rng)).join(items) + ws(rng) + "}"


UNKNOWN_KEYS = ["ids", "kinds", "contentx", "i", "", "idx", "tag", "x", "created", "sig2", "relay", "a\\\"q", "kin", "#e", "pubke", "seen_on"]


def hexs(rng, b, mixed=True):
    h = b.hex()
    if not mixed:
        return h
    m = rng.choice([0, 0, 1, 2])
    if m == 1:
        return h.upper()
    if m == 2:
        return "".join(ch.upper() if rng.random() < 0.5 else ch for ch in h)
    return h


def render_tags(rng, tags, plain=False):
    w = (lambda: "") if plain else (lambda: ws(rng))
    out = "[" + w()
    parts = []
    for t in tags:
        parts.append("[" + w() + ("," + w()).join(spell_string(rng, s, plain) + w() for s in t) + "]")
    out += ("," + w()).join(p + w() for p in parts)
    return out + "]"


def render_event(rng, e, order=None, plain=False, unknown=None, trailing=""):
    """e: dict with id/pk/sig bytes, kind, created, tags (list of list of str), content (str)"""
    w = (lambda: "") if plain else (lambda: ws(rng))
    members = {
        "id": '"%s"' % hexs(rng, e["id"], not plain), "pubkey": '"%s"' % hexs(rng, e["pk"], not plain),
        "sig": '"%s"' % hexs(rng, e["sig"], not plain), "kind": str(e["kind"]), "created_at": str(e["created"]),
        "tags": render_tags(rng, e["tags"], plain), "content": spell_string(rng, e["content"], plain)}
    names = order or list(members)
    items = [(n, members[n]) for n in names]
    if unknown is None:
        unknown = [] if plain else [(rng.choice(UNKNOWN_KEYS) + str(i), rand_json_value(rng)) for i in range(rng.choice([0, 0, 1, 2, 3]))]
    for (k, v) in unknown:
        items.insert(rng.randrange(len(items) + 1), (k, v))
    body = ("," + w()).join('"%s"%s:%s%s%s' % (k, w(), w(), v, w()) for k, v in items)
    return w() + "{" + w() + body + "}" + trailing


def render_filter(rng, f, order=None, plain=False, unknown=None):
    """f: dict ids/authors (bytes lists), kinds, tags (list of [letter str, values str...]), since/until/limit optional"""
    w = (lambda: "") if plain else (lambda: ws(rng))
    members = []
    if f.get("ids") is not None:
        members.append(("ids", "[" + w() + ("," + w()).join('"%s"%s' % (hexs(rng, i, not plain), w()) for i in f["ids"]) + "]"))
    if f.get("authors") is not None:
        members.append(("authors", "[" + w() + ("," + w()).join('"%s"%s' % (hexs(rng, i, not plain), w()) for i in f["authors"]) + "]"))
    if f.get("kinds") is not None:
        members.append(("kinds", "[" + w() + ("," + w()).join("%d%s" % (k, w()) for k in f["kinds"]) + "]"))
    for t in f.get("tags", []):
        members.append(("#" + t[0], "[" + w() + ("," + w()).join(spell_string(rng, v, plain) + w() for v in t[1:]) + "]"))
    for k in ("since", "until", "limit"):
        if f.get(k) is not None:
            members.append((k, str(f[k])))
    if order is not None:
        members = [members[i] for i in order]
    elif not plain:
        rng.shuffle(members)
    if unknown is None:
        unknown = [] if plain else [(rng.choice(["search", "x", "idsx", "limits", "", "#ee", "#", "#1", "kind"]) + str(i), rand_json_value(rng))
                                    for i in range(rng.choice([0, 0, 1, 2]))]
    for (k, v) in unknown:
        members.insert(rng.randrange(len(members) + 1), (k, v))
    return w() + "{" + w() + ("," + w()).join('"%s"%s:%s%s%s' % (k, w(), w(), v, w()) for k, v in members) + "}"


# ------------------------------------------------------------------ independent reading (python json)
class Dup(Exception):
    pass


def _pairs(pairs):
    d = {}
    for k, v in pairs:
        if k in d:
            raise Dup(k)
        d[k] = v
    return d


def ref_parse(text_bytes):
    """strict JSON object or None; duplicate member names -> None (the reading is then ambiguous)"""
    try:
        s = text_bytes.decode("utf-8")
        v = json.loads(s, object_pairs_hook=_pairs, parse_constant=lambda c: (_ for _ in ()).throw(ValueError(c)))
    except (ValueError, Dup, UnicodeDecodeError, RecursionError):
        return None
    return v if isinstance(v, dict) else None


def _hexbytes(s, n):
    if not isinstance(s, str) or len(s) != 2 * n:
        return None
    try:
        return bytes.fromhex(s)
    except ValueError:
        return None


def _uint(v, bound):
    return v if isinstance(v, int) and not isinstance(v, bool) and 0 <= v <= bound else None


def ref_event(obj):
    """the seven NIP-01 values of a parsed object, or None if it does not denote an event"""
    try:
        idb, pk, sig = _hexbytes(obj["id"], 32), _hexbytes(obj["pubkey"], 32), _hexbytes(obj["sig"], 64)
        kind, created = _uint(obj["kind"], 65535), _uint(obj["created_at"], (1 << 64) - 1)
        tags, content = obj["tags"], obj["content"]
    except (KeyError, TypeError):
        return None
    if None in (idb, pk, sig, kind, created) or not isinstance(content, str) or not isinstance(tags, list):
        return None
    for t in tags:
        if not isinstance(t, list) or any(not isinstance(s, str) for s in t):
            return None
    try:
        return {"id": idb, "pk": pk, "sig": sig, "kind": kind, "created": created,
                "tags": [[s.encode("utf-8") for s in t] for t in tags], "content": content.encode("utf-8")}
    except UnicodeEncodeError:      # lone surrogates from \uD800-style escapes
        return None


def ref_filter(obj):
    f = {"ids": [], "authors": [], "kinds": [], "tags": [], "since": 0, "until": (1 << 64) - 1, "limit": (1 << 32) - 1}
    try:
        for k, v in obj.items():
            if k == "ids" or k == "authors":
                lst = [_hexbytes(x, 32) for x in v]
                if None in lst:
                    return None
                f[k] = lst
            elif k == "kinds":
                lst = [_uint(x, 65535) for x in v]
                if None in lst:
                    return None
                f[k] = lst
            elif k in ("since", "until"):
                u = _uint(v, (1 << 64) - 1)
                if u is None:
                    return None
                f[k] = u
            elif k == "limit":
                u = _uint(v, 1 << 200)
                if u is None:
                    return None
                f[k] = min(u, (1 << 32) - 1)
            elif len(k) == 2 and k[0] == "#" and k[1].isascii() and k[1].isalpha():
                if not isinstance(v, list) or any(not isinstance(s, str) for s in v):
                    return None
                f["tags"].append([k[1].encode()] + [s.encode("utf-8") for s in v])
    except (TypeError, UnicodeEncodeError):
        return None
    return f
