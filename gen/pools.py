"""Small adversarial universes shared by the generators."""
import random


def b32(x):
    return bytes([x]) * 32


IDS = [b32(0x11), b32(0x22), b32(0x33), bytes(32), b"\xff" * 32, bytes(range(32))]
AUTHORS = [b32(0xA1), b32(0xA2), b32(0xA3), bytes(31) + b"\x01"]
SIG = bytes([5]) * 64
KINDS = [0, 1, 3, 5, 7, 1059, 9999, 10000, 19999, 20000, 29999, 30000, 39999, 40000, 65535]
TIMES = [0, 1, 2, 10, 100, 1000, 1001, 1 << 32, (1 << 63), (1 << 64) - 2, (1 << 64) - 1]
LETTERS = [b"e", b"p", b"t", b"d", b"a", b"E"]
NAMES = LETTERS + [b"ee", b"", b"expiration"]
VALUES = [b"", b"x", b"x\x00", b"xy", b"y", "é".encode(), "𝄞".encode(), b"a" * 64, b"x" * 181, b"x" * 182, b"x" * 183]


def rand_tag(rng, names=NAMES, values=VALUES):
    k = rng.choice([0, 1, 2, 2, 2, 3, 4])
    if k == 0:
        return []
    t = [rng.choice(names)]
    for _ in range(k - 1):
        t.append(rng.choice(values))
    return t


def rand_tags(rng, maxn=4, **kw):
    return [rand_tag(rng, **kw) for _ in range(rng.choice([0, 1, 1, 2, 3, maxn]))]


def rand_event(rng, ids=IDS, authors=AUTHORS, kinds=KINDS, times=TIMES):
    return {"id": rng.choice(ids), "pk": rng.choice(authors), "sig": SIG, "kind": rng.choice(kinds),
            "created": rng.choice(times), "tags": rand_tags(rng),
            "content": rng.choice([b"", b"hi", b"\x00\x01", "ünï".encode(), b"z" * 300])}


def rand_sub(rng, pool, maxn=3):
    k = rng.choice([0, 0, 1, 1, 2, maxn])
    return [rng.choice(pool) for _ in range(k)]
