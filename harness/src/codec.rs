//! Pure pocket-types commands: match, constructors, accessors.
use crate::tok::*;
use pocket_types::{Event, Filter, Id, Kind, OwnedEvent, OwnedFilter, OwnedTags, Pubkey, Sig, Tags, Time};

pub struct EvParts {
    pub id: Vec<u8>,
    pub pk: Vec<u8>,
    pub sig: Vec<u8>,
    pub kind: u128,
    pub created: u128,
    pub tags: Vec<Vec<Vec<u8>>>,
    pub content: Vec<u8>,
}
pub struct FlParts {
    pub ids: Vec<Vec<u8>>,
    pub authors: Vec<Vec<u8>>,
    pub kinds: Vec<u128>,
    pub tags: Vec<Vec<Vec<u8>>>,
    pub since: Option<u128>,
    pub until: Option<u128>,
    pub limit: Option<u128>,
}

pub fn p_event(t: &mut Toks) -> EvParts {
    EvParts { id: t.b(), pk: t.b(), sig: t.b(), kind: t.n(), created: t.n(), tags: t.tags(), content: t.b() }
}
pub fn p_filter(t: &mut Toks) -> FlParts {
    FlParts {
        ids: t.list(&mut |t| t.b()),
        authors: t.list(&mut |t| t.b()),
        kinds: t.list(&mut |t| t.n()),
        tags: t.tags(),
        since: t.opt_n(),
        until: t.opt_n(),
        limit: t.opt_n(),
    }
}

pub fn tag_strings(parts: &[Vec<Vec<u8>>]) -> Option<Vec<Vec<String>>> {
    let mut out = Vec::new();
    for t in parts {
        let mut v = Vec::new();
        for s in t {
            v.push(String::from_utf8(s.clone()).ok()?);
        }
        out.push(v);
    }
    Some(out)
}

pub fn arr32(b: &[u8]) -> [u8; 32] {
    let mut a = [0u8; 32];
    a.copy_from_slice(&b[..32]);
    a
}
pub fn arr64(b: &[u8]) -> [u8; 64] {
    let mut a = [0u8; 64];
    a.copy_from_slice(&b[..64]);
    a
}

pub fn build_tags(parts: &[Vec<Vec<u8>>]) -> Result<OwnedTags, String> {
    let ss = tag_strings(parts).ok_or("nonutf8")?;
    OwnedTags::new(&ss).map_err(|e| format!("err:{}", crate::err_class(&e)))
}

pub fn build_event(p: &EvParts) -> Result<OwnedEvent, String> {
    let tags = build_tags(&p.tags)?;
    OwnedEvent::new(
        Id::from_bytes(arr32(&p.id)),
        Kind::from_u16(p.kind as u16),
        Pubkey::from_bytes(arr32(&p.pk)),
        Sig::from_bytes(arr64(&p.sig)),
        &tags,
        Time::from_u64(p.created as u64),
        &p.content,
    )
    .map_err(|e| format!("err:{}", crate::err_class(&e)))
}

pub fn build_filter(p: &FlParts) -> Result<OwnedFilter, String> {
    let tags = build_tags(&p.tags)?;
    let ids: Vec<Id> = p.ids.iter().map(|b| Id::from_bytes(arr32(b))).collect();
    let authors: Vec<Pubkey> = p.authors.iter().map(|b| Pubkey::from_bytes(arr32(b))).collect();
    let kinds: Vec<Kind> = p.kinds.iter().map(|k| Kind::from_u16(*k as u16)).collect();
    OwnedFilter::new(
        &ids,
        &authors,
        &kinds,
        &tags,
        p.since.map(|s| Time::from_u64(s as u64)),
        p.until.map(|s| Time::from_u64(s as u64)),
        p.limit.map(|s| s as u32),
    )
    .map_err(|e| format!("err:{}", crate::err_class(&e)))
}

pub fn cmd_match(t: &mut Toks) -> String {
    let f = p_filter(t);
    let e = p_event(t);
    let fo = match build_filter(&f) {
        Ok(x) => x,
        Err(s) => return format!("match ctor-filter={s}"),
    };
    let eo = match build_event(&e) {
        Ok(x) => x,
        Err(s) => return format!("match ctor-event={s}"),
    };
    let r = match fo.event_matches(&eo) {
        Ok(b) => format!("ok {b}"),
        Err(e) => format!("err:{}", crate::err_class(&e)),
    };
    format!("match impl={} fenc={} eenc={}", r, hex(fo.as_bytes()), hex(eo.as_bytes()))
}

pub fn cmd_matchraw(t: &mut Toks) -> String {
    let fb = t.b();
    let eb = t.b();
    // SAFETY: delineate only wraps the bytes; the harness passes well-formed encodings
    let f: &Filter = match unsafe { Filter::delineate(&fb) } {
        Ok(f) => f,
        Err(_) => return "matchraw impl=delineate-filter-err".to_string(),
    };
    let e: &Event = match unsafe { Event::delineate(&eb) } {
        Ok(e) => e,
        Err(_) => return "matchraw impl=delineate-event-err".to_string(),
    };
    let r = match f.event_matches(e) {
        Ok(b) => format!("ok {b}"),
        Err(e) => format!("err:{}", crate::err_class(&e)),
    };
    format!("matchraw impl={r}")
}

#[allow(dead_code)]
pub fn tags_to_parts(tags: &Tags) -> Vec<Vec<Vec<u8>>> {
    tags.iter().map(|t| t.map(|s| s.to_vec()).collect()).collect()
}
