//! Pure pocket-types commands: match, constructors, accessors.
use crate::tok::{self, *};
use pocket_types::{Event, Filter, Id, Kind, OwnedEvent, OwnedFilter, OwnedTags, Pubkey, Sig, Tags, Time};

pub struct EvParts {
    pub id: Vec<u8>,
    pub pk: Vec<u8>,
    pub sig: Vec<u8>,
    pub kind: u128,
    pub created: u128,
    pub tags: Vec<Vec<Vec<u8>>>,
    pub content: Vec<u8>,
}
pub struct FlParts {
    pub ids: Vec<Vec<u8>>,
    pub authors: Vec<Vec<u8>>,
    pub kinds: Vec<u128>,
    pub tags: Vec<Vec<Vec<u8>>>,
    pub since: Option<u128>,
    pub until: Option<u128>,
    pub limit: Option<u128>,
}

pub fn p_event(t: &mut Toks) -> EvParts {
    EvParts { id: t.b(), pk: t.b(), sig: t.b(), kind: t.n(), created: t.n(), tags: t.tags(), content: t.b() }
}
pub fn p_filter(t: &mut Toks) -> FlParts {
    FlParts {
        ids: t.list(&mut |t| t.b()),
        authors: t.list(&mut |t| t.b()),
        kinds: t.list(&mut |t| t.n()),
        tags: t.tags(),
        since: t.opt_n(),
        until: t.opt_n(),
        limit: t.opt_n(),
    }
}

pub fn tag_strings(parts: &[Vec<Vec<u8>>]) -> Option<Vec<Vec<String>>> {
    let mut out = Vec::new();
    for t in parts {
        let mut v = Vec::new();
        for s in t {
            v.push(String::from_utf8(s.clone()).ok()?);
        }
        out.push(v);
    }
    Some(out)
}

pub fn arr32(b: &[u8]) -> [u8; 32] {
    let mut a = [0u8; 32];
    a.copy_from_slice(&b[..32]);
    a
}
pub fn arr64(b: &[u8]) -> [u8; 64] {
    let mut a = [0u8; 64];
    a.copy_from_slice(&b[..64]);
    a
}

pub fn build_tags(parts: &[Vec<Vec<u8>>]) -> Result<OwnedTags, String> {
    let ss = tag_strings(parts).ok_or("nonutf8")?;
    OwnedTags::new(&ss).map_err(|e| format!("err:{}", crate::err_class(&e)))
}

pub fn build_event(p: &EvParts) -> Result<OwnedEvent, String> {
    let tags = build_tags(&p.tags)?;
    OwnedEvent::new(
        Id::from_bytes(arr32(&p.id)),
        Kind::from_u16(p.kind as u16),
        Pubkey::from_bytes(arr32(&p.pk)),
        Sig::from_bytes(arr64(&p.sig)),
        &tags,
        Time::from_u64(p.created as u64),
        &p.content,
    )
    .map_err(|e| format!("err:{}", crate::err_class(&e)))
}

pub fn build_filter(p: &FlParts) -> Result<OwnedFilter, String> {
    let tags = build_tags(&p.tags)?;
    let ids: Vec<Id> = p.ids.iter().map(|b| Id::from_bytes(arr32(b))).collect();
    let authors: Vec<Pubkey> = p.authors.iter().map(|b| Pubkey::from_bytes(arr32(b))).collect();
    let kinds: Vec<Kind> = p.kinds.iter().map(|k| Kind::from_u16(*k as u16)).collect();
    OwnedFilter::new(
        &ids,
        &authors,
        &kinds,
        &tags,
        p.since.map(|s| Time::from_u64(s as u64)),
        p.until.map(|s| Time::from_u64(s as u64)),
        p.limit.map(|s| s as u32),
    )
    .map_err(|e| format!("err:{}", crate::err_class(&e)))
}

pub fn cmd_match(t: &mut Toks) -> String {
    let f = p_filter(t);
    let e = p_event(t);
    let fo = match build_filter(&f) {
        Ok(x) => x,
        Err(s) => return format!("match ctor-filter={s}"),
    };
    let eo = match build_event(&e) {
        Ok(x) => x,
        Err(s) => return format!("match ctor-event={s}"),
    };
    let r = match fo.event_matches(&eo) {
        Ok(b) => format!("ok {b}"),
        Err(e) => format!("err:{}", crate::err_class(&e)),
    };
    format!("match impl={} fenc={} eenc={}", r, hex(fo.as_bytes()), hex(eo.as_bytes()))
}

pub fn cmd_matchraw(t: &mut Toks) -> String {
    let fb = t.b();
    let eb = t.b();
    // SAFETY: delineate only wraps the bytes; the harness passes well-formed encodings
    let f: &Filter = match unsafe { Filter::delineate(&fb) } {
        Ok(f) => f,
        Err(_) => return "matchraw impl=delineate-filter-err".to_string(),
    };
    let e: &Event = match unsafe { Event::delineate(&eb) } {
        Ok(e) => e,
        Err(_) => return "matchraw impl=delineate-event-err".to_string(),
    };
    let r = match f.event_matches(e) {
        Ok(b) => format!("ok {b}"),
        Err(e) => format!("err:{}", crate::err_class(&e)),
    };
    format!("matchraw impl={r}")
}

#[allow(dead_code)]
pub fn tags_to_parts(tags: &Tags) -> Vec<Vec<Vec<u8>>> {
    tags.iter().map(|t| t.map(|s| s.to_vec()).collect()).collect()
}

// ---------------- Hll8 ----------------
use pocket_types::Hll8;

fn regs_hex(h: &Hll8) -> String {
    // to_hex_string is hex of the 256 registers; re-decode to print canonical hex of raw regs
    h.to_hex_string()
}

fn estimate(h: &Hll8) -> String {
    let hc = *h;
    match std::panic::catch_unwind(move || hc.estimate_count()) {
        Ok(n) => format!("{n}"),
        Err(_) => "panic".to_string(),
    }
}

pub fn cmd_hll_add(t: &mut Toks) -> String {
    let mut p_el = |t: &mut Toks| -> (Vec<u8>, u128) { (t.b(), t.n()) };
    let a = t.list(&mut p_el);
    let b = t.list(&mut p_el);
    let mut errs = String::new();
    let mut addall = |h: &mut Hll8, l: &[(Vec<u8>, u128)]| {
        for (i, o) in l {
            match h.add_element(&arr32(i), *o as usize) {
                Ok(()) => errs.push('o'),
                Err(_) => errs.push('e'),
            }
        }
    };
    let mut ra = Hll8::new();
    addall(&mut ra, &a);
    let mut rb = Hll8::new();
    addall(&mut rb, &b);
    let mut rab = Hll8::new();
    addall(&mut rab, &a);
    addall(&mut rab, &b);
    let mut rba = Hll8::new();
    addall(&mut rba, &b);
    addall(&mut rba, &a);
    let mut mab = ra;
    mab += rb;
    let mut mba = rb;
    mba += ra;
    let mut maa = ra;
    maa += ra;
    // associativity with a third sketch (rab)
    let mut l = ra;
    l += rb;
    l += rab;
    let mut r2 = rb;
    r2 += rab;
    let mut r = ra;
    r += r2;
    let rt = match Hll8::from_hex_string(&rab.to_hex_string()) {
        Ok(h) => h.to_hex_string() == rab.to_hex_string(),
        Err(_) => false,
    };
    format!(
        "hll_add ra={} rb={} rab={} rba={} mab={} mba={} maa={} assoc={} errs={} hex={} rt={} est={} esta={}",
        regs_hex(&ra), regs_hex(&rb), regs_hex(&rab), regs_hex(&rba), regs_hex(&mab), regs_hex(&mba), regs_hex(&maa),
        regs_hex(&l) == regs_hex(&r), errs, hex(rab.to_hex_string().as_bytes()), rt, estimate(&rab), estimate(&ra)
    )
}

pub fn cmd_hll_hex(t: &mut Toks) -> String {
    let s = t.b();
    let st = match String::from_utf8(s) {
        Ok(s) => s,
        Err(_) => return "hll_hex imp=nonutf8".to_string(),
    };
    match Hll8::from_hex_string(&st) {
        Ok(h) => {
            let ex = h.to_hex_string();
            let zeros = tok::unhex(&ex).iter().filter(|b| **b == 0).count();
            format!("hll_hex imp=ok regs={} export={} zeros={} est={}", ex, hex(ex.as_bytes()), zeros, estimate(&h))
        }
        Err(e) => format!("hll_hex imp=err:{}", crate::err_class(&e)),
    }
}

pub fn cmd_hex(t: &mut Toks) -> String {
    let n = t.n();
    let s = t.b();
    let r: Result<Vec<u8>, pocket_types::Error> = match n {
        32 => Id::read_hex(&s).map(|i| i.as_slice().to_vec()),
        33 => Pubkey::read_hex(&s).map(|i| i.as_slice().to_vec()),
        64 => Sig::read_hex(&s).map(|i| i.as_slice().to_vec()),
        _ => return "hex r=unsupported".to_string(),
    };
    match r {
        Ok(v) => {
            let w = match n {
                32 => Id::from_bytes(arr32(&v)).as_hex_string(),
                33 => Pubkey::from_bytes(arr32(&v)).as_hex_string(),
                _ => format!("{}", Sig::from_bytes(arr64(&v))),
            };
            format!("hex r=ok {} w={}", hex(&v), hex(w.as_bytes()))
        }
        Err(e) => format!("hex r=err:{}", crate::err_class(&e)),
    }
}

/// statistical envelope: `count` pseudo-random 32-byte elements (xorshift64*, seeded), offset 16
pub fn cmd_hll_env(t: &mut Toks) -> String {
    let count = t.n() as u64;
    let mut x = (t.n() as u64) | 1;
    // very large cardinalities are only walked in the optimised build (the unoptimised one would take minutes)
    if cfg!(debug_assertions) && count > 5_000_000 {
        return "hll_env est=skipped-in-debug-build".to_string();
    }
    let mut h = Hll8::new();
    for _ in 0..count {
        let mut el = [0u8; 32];
        for k in 0..4 {
            x ^= x >> 12;
            x ^= x << 25;
            x ^= x >> 27;
            let v = x.wrapping_mul(0x2545F4914F6CDD1D);
            el[k * 8..k * 8 + 8].copy_from_slice(&v.to_le_bytes());
        }
        h.add_element(&el, 16).unwrap();
    }
    format!("hll_env est={}", estimate(&h))
}

// ---------------- constructors into caller buffers (C19) ----------------
const GUARD: usize = 64;

fn guarded(outlen: usize, fill: u8) -> Vec<u8> {
    let mut v = vec![0xC3u8; GUARD + outlen + GUARD];
    for b in &mut v[GUARD..GUARD + outlen] {
        *b = fill;
    }
    v
}
fn guards_ok(v: &[u8], outlen: usize) -> bool {
    v[..GUARD].iter().all(|b| *b == 0xC3) && v[GUARD + outlen..].iter().all(|b| *b == 0xC3)
}

fn ev_accessors(e: &Event) -> String {
    let tags = match e.tags() {
        Ok(t) => s_tags(&tags_to_parts(t)),
        Err(_) => "tags-err".to_string(),
    };
    format!(
        "{} {} {} n:{} n:{} {} {}",
        s_bytes(e.id().as_slice()),
        s_bytes(e.pubkey().as_slice()),
        s_bytes(e.sig().as_slice()),
        e.kind().as_u16(),
        e.created_at().as_u64(),
        tags,
        s_bytes(e.content())
    )
}
fn fl_accessors(f: &Filter) -> String {
    let tags = match f.tags() {
        Ok(t) => s_tags(&tags_to_parts(t)),
        Err(_) => "tags-err".to_string(),
    };
    let ids: Vec<Vec<u8>> = f.ids().map(|i| i.as_slice().to_vec()).collect();
    let aus: Vec<Vec<u8>> = f.authors().map(|i| i.as_slice().to_vec()).collect();
    let ks: Vec<u16> = f.kinds().map(|k| k.as_u16()).collect();
    format!(
        "{} {} {} {} n:{} n:{} n:{}",
        s_list(&ids, &|b| s_bytes(b)),
        s_list(&aus, &|b| s_bytes(b)),
        s_list(&ks, &|k| format!("n:{k}")),
        tags,
        f.since().as_u64(),
        f.until().as_u64(),
        f.limit()
    )
}

pub fn cmd_ctor_tags(t: &mut Toks) -> String {
    let parts = t.tags();
    let outlen = t.n() as usize;
    let fill = t.n() as u8;
    let ss = match tag_strings(&parts) {
        Some(s) => s,
        None => return "ctor_tags r=nonutf8".to_string(),
    };
    let mut buf = guarded(outlen, fill);
    let r = match Tags::from_parts(&ss, &mut buf[GUARD..GUARD + outlen]) {
        Ok(tags) => format!("ok acc={} getstr={}", s_tags(&tags_to_parts(tags)), {
            // get_string over every (tag, string) incl. one past the end
            let mut okk = true;
            for (i, tg) in parts.iter().enumerate() {
                for (j, s) in tg.iter().enumerate() {
                    okk &= tags.get_string(i, j) == Some(s.as_slice());
                }
                okk &= tags.get_string(i, tg.len()).is_none();
            }
            okk &= tags.get_string(parts.len(), 0).is_none();
            okk
        }),
        Err(e) => format!("err:{}", crate::err_class(&e)),
    };
    let owned = match OwnedTags::new(&ss) {
        Ok(o) => format!("ok {}", hex(o.as_bytes())),
        Err(e) => format!("err:{}", crate::err_class(&e)),
    };
    format!("ctor_tags r={} buf={} guard={} owned={}", r, hex(&buf[GUARD..GUARD + outlen]), guards_ok(&buf, outlen), owned)
}

pub fn cmd_ctor_event(t: &mut Toks) -> String {
    let p = p_event(t);
    let outlen = t.n() as usize;
    let fill = t.n() as u8;
    let tags = match build_tags(&p.tags) {
        Ok(x) => x,
        Err(s) => return format!("ctor_event r=tags-{s}"),
    };
    let mut buf = guarded(outlen, fill);
    let r = match Event::from_parts(
        Id::from_bytes(arr32(&p.id)),
        Kind::from_u16(p.kind as u16),
        Pubkey::from_bytes(arr32(&p.pk)),
        Sig::from_bytes(arr64(&p.sig)),
        &tags,
        Time::from_u64(p.created as u64),
        &p.content,
        &mut buf[GUARD..GUARD + outlen],
    ) {
        Ok(e) => format!("ok acc={}", ev_accessors(e)),
        Err(e) => format!("err:{}", crate::err_class(&e)),
    };
    let owned = match build_event(&p) {
        Ok(o) => format!("ok {}", hex(o.as_bytes())),
        Err(s) => s,
    };
    format!("ctor_event r={} buf={} guard={} owned={}", r, hex(&buf[GUARD..GUARD + outlen]), guards_ok(&buf, outlen), owned)
}

pub fn cmd_ctor_filter(t: &mut Toks) -> String {
    let p = p_filter(t);
    let outlen = t.n() as usize;
    let fill = t.n() as u8;
    let tags = match build_tags(&p.tags) {
        Ok(x) => x,
        Err(s) => return format!("ctor_filter r=tags-{s}"),
    };
    let ids: Vec<Id> = p.ids.iter().map(|b| Id::from_bytes(arr32(b))).collect();
    let authors: Vec<Pubkey> = p.authors.iter().map(|b| Pubkey::from_bytes(arr32(b))).collect();
    let kinds: Vec<Kind> = p.kinds.iter().map(|k| Kind::from_u16(*k as u16)).collect();
    let mut buf = guarded(outlen, fill);
    let r = match Filter::from_parts(
        &ids,
        &authors,
        &kinds,
        &tags,
        p.since.map(|s| Time::from_u64(s as u64)),
        p.until.map(|s| Time::from_u64(s as u64)),
        p.limit.map(|s| s as u32),
        &mut buf[GUARD..GUARD + outlen],
    ) {
        Ok(f) => format!("ok acc={}", fl_accessors(f)),
        Err(e) => format!("err:{}", crate::err_class(&e)),
    };
    let owned = match build_filter(&p) {
        Ok(o) => format!("ok {}", hex(o.as_bytes())),
        Err(s) => s,
    };
    format!("ctor_filter r={} buf={} guard={} owned={}", r, hex(&buf[GUARD..GUARD + outlen]), guards_ok(&buf, outlen), owned)
}

// ---------------- JSON parsers / writers (C01 C02 C03 C07) ----------------
use crate::db::fnv;

fn s_resjson(r: Result<Vec<u8>, pocket_types::Error>) -> String {
    match r {
        Ok(v) => format!("ok {}", hex(&v)),
        Err(e) => format!("err:{}", crate::err_class(&e)),
    }
}

pub fn cmd_evjson(t: &mut Toks) -> String {
    let inp = t.b();
    let outlen = t.n() as usize;
    let fill = t.n() as u8;
    let mut buf = guarded(outlen, fill);
    let r = Event::from_json(&inp, &mut buf[GUARD..GUARD + outlen]);
    let (consumed, ev) = match r {
        Ok((c, e)) => (c, e.as_bytes().to_vec()),
        Err(e) => return format!("evjson r=err:{} guard={}", crate::err_class(&e), guards_ok(&buf, outlen)),
    };
    let e: &Event = unsafe { Event::delineate(&ev).unwrap() };
    let acc = match std::panic::catch_unwind(std::panic::AssertUnwindSafe(|| ev_accessors(e))) {
        Ok(s) => s,
        Err(_) => "panic".to_string(),
    };
    let js = match std::panic::catch_unwind(std::panic::AssertUnwindSafe(|| e.as_json())) {
        Ok(r) => r,
        Err(_) => return format!("evjson r=ok consumed={} ev={} acc={} json=panic guard={}", consumed, hex(&ev), acc, guards_ok(&buf, outlen)),
    };
    let re = match &js {
        Ok(j) => {
            let mut b2 = vec![0xAAu8; ev.len()];
            match Event::from_json(j, &mut b2) {
                Ok((_, e2)) => format!("{}", e2.as_bytes() == &ev[..]),
                Err(e) => format!("err:{}", crate::err_class(&e)),
            }
        }
        Err(_) => "nojson".to_string(),
    };
    // Display, verify-free accessors, equality + hash of equal bytes
    let owned_eq = {
        use std::collections::hash_map::DefaultHasher;
        use std::hash::{Hash, Hasher};
        let o = e.to_owned();
        let mut h1 = DefaultHasher::new();
        let mut h2 = DefaultHasher::new();
        (*o).hash(&mut h1);
        e.hash(&mut h2);
        &*o == e && h1.finish() == h2.finish()
    };
    format!(
        "evjson r=ok consumed={} ev={} tail={} acc={} json={} reparse={} guard={} eqhash={}",
        consumed,
        hex(&ev),
        fnv(&buf[GUARD + ev.len()..GUARD + outlen]),
        acc,
        s_resjson(js),
        re,
        guards_ok(&buf, outlen),
        owned_eq
    )
}

pub fn cmd_fljson(t: &mut Toks) -> String {
    let inp = t.b();
    let outlen = t.n() as usize;
    let fill = t.n() as u8;
    let mut buf = guarded(outlen, fill);
    let r = Filter::from_json(&inp, &mut buf[GUARD..GUARD + outlen]);
    let (consumed, fl) = match r {
        Ok((c, _o, f)) => (c, f.as_bytes().to_vec()),
        Err(e) => return format!("fljson r=err:{} guard={}", crate::err_class(&e), guards_ok(&buf, outlen)),
    };
    let f: &Filter = unsafe { Filter::delineate(&fl).unwrap() };
    let acc = match std::panic::catch_unwind(std::panic::AssertUnwindSafe(|| fl_accessors(f))) {
        Ok(s) => s,
        Err(_) => "panic".to_string(),
    };
    let js = match std::panic::catch_unwind(std::panic::AssertUnwindSafe(|| f.as_json())) {
        Ok(r) => r,
        Err(_) => return format!("fljson r=ok consumed={} fl={} acc={} json=panic guard={}", consumed, hex(&fl), acc, guards_ok(&buf, outlen)),
    };
    let re = match &js {
        Ok(j) => {
            let mut b2 = vec![0xAAu8; fl.len()];
            match Filter::from_json(j, &mut b2) {
                Ok((_, _, f2)) => format!("{}", f2.as_bytes() == &fl[..]),
                Err(e) => format!("err:{}", crate::err_class(&e)),
            }
        }
        Err(_) => "nojson".to_string(),
    };
    format!(
        "fljson r=ok consumed={} fl={} tail={} acc={} json={} reparse={} guard={}",
        consumed,
        hex(&fl),
        fnv(&buf[GUARD + fl.len()..GUARD + outlen]),
        acc,
        s_resjson(js),
        re,
        guards_ok(&buf, outlen)
    )
}

pub fn cmd_tagsjson(t: &mut Toks) -> String {
    let inp = t.b();
    let outlen = t.n() as usize;
    let fill = t.n() as u8;
    let mut buf = guarded(outlen, fill);
    let r = Tags::from_json(&inp, &mut buf[GUARD..GUARD + outlen]);
    let (consumed, tg) = match r {
        Ok((c, tg)) => (c, tg.as_bytes().to_vec()),
        Err(e) => return format!("tagsjson r=err:{} guard={}", crate::err_class(&e), guards_ok(&buf, outlen)),
    };
    let tags: &Tags = unsafe { Tags::delineate(&tg).unwrap() };
    let acc = match std::panic::catch_unwind(std::panic::AssertUnwindSafe(|| s_tags(&tags_to_parts(tags)))) {
        Ok(s) => format!("ok {s}"),
        Err(_) => "panic".to_string(),
    };
    let js = match std::panic::catch_unwind(std::panic::AssertUnwindSafe(|| tags.as_json())) {
        Ok(v) => format!("ok {}", hex(&v)),
        Err(_) => "panic".to_string(),
    };
    format!("tagsjson r=ok consumed={} tags={} acc={} json={} guard={}", consumed, hex(&tg), acc, js, guards_ok(&buf, outlen))
}

pub fn cmd_unescape(t: &mut Toks) -> String {
    let inp = t.b();
    let cap = t.n() as usize;
    let mut buf = guarded(cap, 0x5A);
    match pocket_types::json::json_unescape(&inp, &mut buf[GUARD..GUARD + cap]) {
        Ok((inlen, outlen)) => format!(
            "unescape r=ok inlen={} out={} guard={}",
            inlen,
            hex(&buf[GUARD..GUARD + outlen]),
            guards_ok(&buf, cap)
        ),
        Err(e) => format!("unescape r=err:{} guard={}", crate::err_class(&e), guards_ok(&buf, cap)),
    }
}

pub fn cmd_escape(t: &mut Toks) -> String {
    let inp = t.b();
    format!("escape r={}", s_resjson(pocket_types::json::json_escape(&inp, Vec::new())))
}

pub fn cmd_addr(t: &mut Toks) -> String {
    let inp = t.b();
    match pocket_types::Addr::try_from_bytes(&inp) {
        Ok(a) => format!("addr r=ok n:{} {} {}", a.kind.as_u16(), s_bytes(a.author.as_slice()), s_bytes(&a.d)),
        Err(e) => format!("addr r=err:{}", crate::err_class(&e)),
    }
}

pub fn cmd_kindclass(t: &mut Toks) -> String {
    let k = Kind::from_u16(t.n() as u16);
    format!("kindclass {} {} {}", k.is_replaceable(), k.is_ephemeral(), k.is_parameterized_replaceable())
}

// ---------------- sign / verify (C08) ----------------
pub fn cmd_sign(t: &mut Toks) -> String {
    use pocket_types::secp256k1::{Keypair, SECP256K1};
    let kind = t.n() as u16;
    let created = t.n() as u64;
    let tags = t.tags();
    let content = t.b();
    let sk = t.b();
    let kp = match Keypair::from_seckey_slice(SECP256K1, &sk) {
        Ok(k) => k,
        Err(_) => return "sign r=badkey".to_string(),
    };
    let otags = match build_tags(&tags) {
        Ok(x) => x,
        Err(s) => return format!("sign r=tags-{s}"),
    };
    let ev = match OwnedEvent::sign_new(&kp, Kind::from_u16(kind), &otags, Time::from_u64(created), &content) {
        Ok(e) => e,
        Err(e) => return format!("sign r=err:{}", crate::err_class(&e)),
    };
    let v0 = ev.verify().is_ok();
    let id = ev.id().as_slice().to_vec();
    let pk = ev.pubkey().as_slice().to_vec();
    let sig = ev.sig().as_slice().to_vec();
    // accessors of the signed event reproduce the parts
    let acc_ok = ev.kind().as_u16() == kind
        && ev.created_at().as_u64() == created
        && ev.content() == &content[..]
        && tags_to_parts(ev.tags().unwrap()) == tags;
    // single-field mutations: every one must make verification fail
    let mut muts: Vec<(String, EvParts)> = Vec::new();
    let base = || EvParts { id: id.clone(), pk: pk.clone(), sig: sig.clone(), kind: kind as u128, created: created as u128, tags: tags.clone(), content: content.clone() };
    for (name, pos, bit) in [("id", 0usize, 0u8), ("id", 15, 3), ("id", 31, 7)] {
        let mut p = base();
        p.id[pos] ^= 1 << bit;
        muts.push((format!("{name}[{pos}].{bit}"), p));
    }
    for (pos, bit) in [(0usize, 0u8), (16, 5), (31, 7)] {
        let mut p = base();
        p.pk[pos] ^= 1 << bit;
        muts.push((format!("pk[{pos}].{bit}"), p));
    }
    for (pos, bit) in [(0usize, 0u8), (31, 7), (32, 0), (63, 7)] {
        let mut p = base();
        p.sig[pos] ^= 1 << bit;
        muts.push((format!("sig[{pos}].{bit}"), p));
    }
    {
        let mut p = base();
        p.created = created.wrapping_add(1) as u128;
        muts.push(("created+1".into(), p));
        let mut p = base();
        p.created = created.wrapping_sub(1) as u128;
        muts.push(("created-1".into(), p));
        let mut p = base();
        p.kind = kind.wrapping_add(1) as u128;
        muts.push(("kind+1".into(), p));
        let mut p = base();
        p.kind = kind.wrapping_sub(1) as u128;
        muts.push(("kind-1".into(), p));
        let mut p = base();
        p.content.push(b' ');
        muts.push(("content+space".into(), p));
        if !content.is_empty() {
            let mut p = base();
            p.content.pop();
            // keep valid UTF-8
            if std::str::from_utf8(&p.content).is_ok() {
                muts.push(("content-last".into(), p));
            }
            let mut p = base();
            p.content[0] = if p.content[0] == b'a' { b'b' } else { b'a' };
            if std::str::from_utf8(&p.content).is_ok() {
                muts.push(("content[0]".into(), p));
            }
        }
        // content / tag strings that are NOT valid UTF-8 (from_parts does not validate): the serialisation fails part-way
        for (name, tail) in [("content+C3", vec![0xC3u8]), ("content+FF", vec![0xFF]), ("content+E282", vec![0xE2, 0x82]), ("content+F0", vec![b'"', 0xF0, 0x9F])] {
            let mut p = base();
            p.content.extend(tail);
            muts.push((name.into(), p));
        }
        if let Some(tg) = tags.first() {
            if !tg.is_empty() {
                let mut p = base();
                p.tags[0][0].push(0xC3);
                muts.push(("tag[0][0]+C3".into(), p));
            }
        }
        // "\n" as one character vs the two characters backslash + n
        let mut p = base();
        p.content = String::from_utf8_lossy(&content).replace('\n', "\\n").into_bytes();
        if p.content != content {
            muts.push(("content-nl-spelled".into(), p));
        }
        let mut p = base();
        p.content = String::from_utf8_lossy(&content).replace('"', "\\\"").into_bytes();
        if p.content != content {
            muts.push(("content-quote-spelled".into(), p));
        }
    }
    // tag strings and structure
    for (ti, tg) in tags.iter().enumerate() {
        for (si, _s) in tg.iter().enumerate() {
            let mut p = base();
            p.tags[ti][si].push(b'x');
            muts.push((format!("tag[{ti}][{si}]+x"), p));
        }
        let mut p = base();
        p.tags[ti].push(Vec::new());
        muts.push((format!("tag[{ti}]+empty-string"), p));
        if tg.len() >= 2 {
            // split the tag in two
            let mut p = base();
            let rest = p.tags[ti].split_off(1);
            p.tags.insert(ti + 1, rest);
            muts.push((format!("tag[{ti}]-split"), p));
            // merge the first two strings
            let mut p = base();
            let b = p.tags[ti].remove(1);
            p.tags[ti][0].extend(b);
            muts.push((format!("tag[{ti}]-merge-strings"), p));
        }
        if ti + 1 < tags.len() {
            let mut p = base();
            let nxt = p.tags.remove(ti + 1);
            p.tags[ti].extend(nxt);
            muts.push((format!("tag[{ti}]-merge-next"), p));
            let mut p = base();
            p.tags.swap(ti, ti + 1);
            if p.tags != tags {
                muts.push((format!("tag[{ti}]-swap-next"), p));
            }
        }
    }
    {
        let mut p = base();
        p.tags.push(Vec::new());
        muts.push(("tags+empty-tag".into(), p));
        let mut p = base();
        p.tags.insert(0, vec![b"x".to_vec()]);
        muts.push(("tags+front".into(), p));
    }
    let mut bad: Vec<String> = Vec::new();
    // verification must not depend on what was verified before: after every rejected mutation the
    // original event must still verify
    let mut after: Vec<String> = Vec::new();
    let n = muts.len();
    for (name, p) in muts {
        match build_event(&p) {
            Ok(e2) => {
                if e2.verify().is_ok() {
                    bad.push(name.clone());
                }
                if v0 && ev.verify().is_err() {
                    after.push(name);
                } else if let Ok(again) = OwnedEvent::sign_new(&kp, Kind::from_u16(kind), &otags, Time::from_u64(created), &content) {
                    // ... and signing the same parts again must give the same id
                    if again.id().as_slice() != &id[..] {
                        after.push(format!("{name}:sign_new-id-differs"));
                    }
                }
            }
            Err(_) => {}
        }
    }
    format!(
        "sign r=ok id={} pk={} verify={} acc={} nmut={} accepted_mutations={} rejected_after={}",
        hex(&id),
        hex(&pk),
        v0,
        acc_ok,
        n,
        if bad.is_empty() { "-".to_string() } else { bad.join(",") },
        if after.is_empty() { "-".to_string() } else { after.join(",") }
    )
}

/// parse a JSON event and verify it
pub fn cmd_verifyjson(t: &mut Toks) -> String {
    let inp = t.b();
    let mut buf = vec![0u8; inp.len() + 1024];
    match Event::from_json(&inp, &mut buf) {
        Ok((_, e)) => format!("verifyjson r=ok verify={} id={} pk={}", e.verify().is_ok(), hex(e.id().as_slice()), hex(e.pubkey().as_slice())),
        Err(e) => format!("verifyjson r=err:{}", crate::err_class(&e)),
    }
}
