//! The db engine: executes one operation history against a real pocket_db::Store in a fresh
//! temporary directory and prints one observation segment per operation.
use crate::codec::*;
use crate::tok::*;
use pocket_db::{ScreenResult, Store};
use pocket_types::{Addr, Id, Kind, OwnedEvent, Pubkey};
use std::collections::HashMap;

/// an id as shown in query answers: its first and its last four bytes (ids may share long prefixes)
pub fn id_abbrev(id: &[u8]) -> String {
    format!("{}{}", hex(&id[..4]), hex(&id[id.len() - 4..]))
}

pub fn fnv(b: &[u8]) -> String {
    let mut h: u32 = 0x811c9dc5;
    for x in b {
        h ^= *x as u32;
        h = h.wrapping_mul(0x01000193);
    }
    format!("{:08x}", h)
}

pub fn db_err(e: &pocket_db::Error) -> &'static str {
    use pocket_db::InnerError as I;
    match &e.inner {
        I::Duplicate => "dup",
        I::Deleted => "deleted",
        I::Replaced => "replaced",
        I::InvalidDelete => "invaliddelete",
        I::Scraper => "scraper",
        I::WrongEventKind => "wrongkind",
        I::EndOfInput => "end",
        _ => "other",
    }
}

pub struct Hist {
    pub dir: tempfile::TempDir,
    pub store: Option<Store>,
    pub names: Vec<&'static str>,
    pub offsets: Vec<u64>,
}

pub fn p_addr(t: &mut Toks) -> Addr {
    let kind = t.n() as u16;
    let author = t.b();
    let d = t.b();
    Addr { kind: Kind::from_u16(kind), author: Pubkey::from_bytes(arr32(&author)), d }
}

pub fn leak_names(names: &[Vec<u8>]) -> Vec<&'static str> {
    names.iter().map(|n| &*Box::leak(String::from_utf8(n.clone()).unwrap().into_boxed_str())).collect()
}

impl Hist {
    pub fn new(names: Vec<Vec<u8>>, root: &std::path::Path) -> Hist {
        let dir = tempfile::Builder::new().prefix("h").tempdir_in(root).unwrap();
        Hist::open(dir, leak_names(&names)).unwrap()
    }

    /// open (or create) the store in an existing directory
    pub fn open(dir: tempfile::TempDir, names: Vec<&'static str>) -> Result<Hist, String> {
        let store = Store::new(dir.path(), names.clone()).map_err(|e| format!("{}", db_err(&e)))?;
        Ok(Hist { dir, store: Some(store), names, offsets: Vec::new() })
    }

    fn st(&self) -> &Store {
        self.store.as_ref().unwrap()
    }

    pub fn op(&mut self, t: &mut Toks) -> String {
        let op = t.next();
        match op {
            "store" => {
                let p = p_event(t);
                let ev = match build_event(&p) {
                    Ok(e) => e,
                    Err(s) => return format!("ctor-{s}"),
                };
                match self.st().store_event(&ev) {
                    Ok(off) => {
                        self.offsets.push(off);
                        format!("ok {} h={}", off, fnv(ev.as_bytes()))
                    }
                    Err(e) => format!("err:{}", db_err(&e)),
                }
            }
            "remove" => {
                let id = t.b();
                match self.st().remove_event(Id::from_bytes(arr32(&id))) {
                    Ok(()) => "ok".to_string(),
                    Err(e) => format!("err:{}", db_err(&e)),
                }
            }
            "vanish" => {
                let pk = t.b();
                let tags = pocket_types::OwnedTags::empty();
                let ev = OwnedEvent::new(
                    Id::from_bytes([0; 32]),
                    Kind::from_u16(62),
                    Pubkey::from_bytes(arr32(&pk)),
                    pocket_types::Sig::from_bytes([0; 64]),
                    &tags,
                    pocket_types::Time::from_u64(0),
                    b"",
                )
                .unwrap();
                match self.st().vanish(&ev) {
                    Ok(()) => "ok".to_string(),
                    Err(e) => format!("err:{}", db_err(&e)),
                }
            }
            "query" => {
                let f = p_filter(t);
                let screen: Vec<(Vec<u8>, u128)> = t.list(&mut |t| (t.b(), t.n()));
                let allow = t.n() != 0;
                let lim = t.n() as u32;
                let secs = t.n() as u64;
                let _now = t.n();
                let fo = match build_filter(&f) {
                    Ok(x) => x,
                    Err(s) => return format!("ctor-{s}"),
                };
                let table: HashMap<[u8; 32], u128> = screen.iter().map(|(i, o)| (arr32(i), *o)).collect();
                let r = self.st().find_events(&fo, allow, lim, secs, |e| {
                    let id: [u8; 32] = arr32(e.id().as_slice());
                    match table.get(&id) {
                        Some(1) => ScreenResult::Mismatch,
                        Some(2) => ScreenResult::Redacted,
                        _ => ScreenResult::Match,
                    }
                });
                match r {
                    Ok((evs, red)) => {
                        let ids: Vec<String> = evs.iter().map(|e| id_abbrev(e.id().as_slice())).collect();
                        format!("ok [{}] red={}", ids.join(","), red)
                    }
                    Err(e) => format!("err:{}", db_err(&e)),
                }
            }
            // C12: from here on no file of this process may grow beyond the current length of the event map plus `extra`
            // bytes (soft RLIMIT_FSIZE, SIGXFSZ ignored): stores that need room fail with an I/O error at whatever step
            // tries to extend a file
            "fsizelimit" => {
                let extra = t.n() as u64;
                let len = std::fs::metadata(self.dir.path().join("event.map")).map(|m| m.len()).unwrap_or(0);
                unsafe {
                    libc::signal(libc::SIGXFSZ, libc::SIG_IGN);
                    let mut lim = libc::rlimit { rlim_cur: 0, rlim_max: 0 };
                    libc::getrlimit(libc::RLIMIT_FSIZE, &mut lim);
                    lim.rlim_cur = len + extra;
                    libc::setrlimit(libc::RLIMIT_FSIZE, &lim);
                }
                "ok".to_string()
            }
            "fsizeunlimit" => {
                unsafe {
                    let mut lim = libc::rlimit { rlim_cur: 0, rlim_max: 0 };
                    libc::getrlimit(libc::RLIMIT_FSIZE, &mut lim);
                    lim.rlim_cur = lim.rlim_max;
                    libc::setrlimit(libc::RLIMIT_FSIZE, &lim);
                }
                "ok".to_string()
            }
            // C10: `crowded n:<k> <op>` - run <op> (a store / remove / vanish) while k read transactions are open (k = 0: as
            // many as the reader table takes, i.e. the table is FULL and every further read transaction fails)
            "crowded" => {
                let k = t.n() as usize;
                // the transactions borrow the store; the nested op must not drop or replace it (the generator only nests
                // store / remove / vanish)
                let st: &Store = unsafe { &*(self.st() as *const Store) };
                let mut txns = Vec::new();
                loop {
                    if k != 0 && txns.len() >= k {
                        break;
                    }
                    match st.read_txn() {
                        Ok(x) => txns.push(x),
                        Err(_) => break,
                    }
                    if txns.len() > 100_000 {
                        break;
                    }
                }
                let n = txns.len();
                let r = self.op(t);
                drop(txns);
                format!("crowded {n} {r}")
            }
            "map" => format!("map {}", map_digest(&self.dir.path().join("event.map"))),
            "reopen" => {
                let s = self.store.take().unwrap();
                drop(s);
                match Store::new(self.dir.path(), self.names.clone()) {
                    Ok(s) => {
                        self.store = Some(s);
                        "ok".to_string()
                    }
                    Err(e) => format!("err:{}", db_err(&e)),
                }
            }
            // a store created over an event.map that already exists, zero-filled, `n` bytes long (preallocated by whoever set the
            // directory up, or left by an interrupted creation): everything else in the directory is removed first
            "prealloc" => {
                let n = t.n();
                drop(self.store.take());
                for ent in std::fs::read_dir(self.dir.path()).unwrap().flatten() {
                    let p = ent.path();
                    let _ = if p.is_dir() { std::fs::remove_dir_all(&p) } else { std::fs::remove_file(&p) };
                }
                let f = std::fs::File::create(self.dir.path().join("event.map")).unwrap();
                f.set_len(n as u64).unwrap();
                drop(f);
                self.offsets.clear();
                match Store::new(self.dir.path(), self.names.clone()) {
                    Ok(s) => {
                        self.store = Some(s);
                        "ok".to_string()
                    }
                    Err(e) => format!("err:{}", db_err(&e)),
                }
            }
            "rebuild" => {
                let s = self.store.take().unwrap();
                match unsafe { s.rebuild() } {
                    Ok(s) => {
                        self.store = Some(s);
                        self.offsets.clear();
                        let bak1 = self.dir.path().join("event.map.bak").exists();
                        let bak2 = self.dir.path().join("lmdb.bak").exists();
                        format!("ok bak={}", bak1 && bak2)
                    }
                    Err(e) => format!("err:{}", db_err(&e)),
                }
            }
            // C16: rebuild called by a user who is neither root nor the owner of the files but may write to the directory
            // (effective uid switched around the call).  The refusal must leave everything as it was: the handle is consumed
            // by rebuild, so the store is reopened from what is on disk afterwards.
            "rebuildas" => {
                let uid = t.n() as u32;
                use std::os::unix::fs::PermissionsExt;
                let _ = std::fs::set_permissions(self.dir.path(), std::fs::Permissions::from_mode(0o777));
                let s = self.store.take().unwrap();
                unsafe { libc::seteuid(uid) };
                let r = unsafe { s.rebuild() };
                unsafe { libc::seteuid(0) };
                match r {
                    Ok(s) => {
                        self.store = Some(s);
                        self.offsets.clear();
                        "ok".to_string()
                    }
                    Err(e) => match Store::new(self.dir.path(), self.names.clone()) {
                        Ok(s2) => {
                            self.store = Some(s2);
                            format!("refused:{} reopened", db_err(&e))
                        }
                        Err(e2) => format!("refused:{} reopen-err:{}", db_err(&e), db_err(&e2)),
                    },
                }
            }
            "xput" => {
                let name = String::from_utf8(t.b()).unwrap();
                let k = t.b();
                let v = t.b();
                let st = self.st();
                let nm: &'static str = self.names.iter().find(|n| **n == name).copied().unwrap_or("?");
                match st.extra_table(nm) {
                    Some(tbl) => {
                        let mut txn = st.write_txn().unwrap();
                        tbl.put(&mut txn, &k, &v).unwrap();
                        txn.commit().unwrap();
                        "ok".to_string()
                    }
                    None => "notable".to_string(),
                }
            }
            "obs" => {
                let ids: Vec<Vec<u8>> = t.list(&mut |t| t.b());
                let addrs: Vec<Addr> = t.list(&mut p_addr);
                let st = self.st();
                let mut out = String::from("ids=");
                for (n, id) in ids.iter().enumerate() {
                    let idv = Id::from_bytes(arr32(id));
                    let has = st.has_event(idv).map(|b| if b { '1' } else { '0' }).unwrap_or('E');
                    let del = st.event_is_deleted(idv).map(|b| if b { '1' } else { '0' }).unwrap_or('E');
                    let by = match st.get_event_by_id(idv) {
                        Ok(Some(e)) => fnv(e.as_bytes()),
                        Ok(None) => "-".to_string(),
                        Err(_) => "E".to_string(),
                    };
                    if n > 0 {
                        out.push(',');
                    }
                    out.push_str(&format!("{has}{del}:{by}"));
                }
                out.push_str(" addrs=");
                for (n, a) in addrs.iter().enumerate() {
                    let asof = match st.naddr_is_deleted_asof(a) {
                        Ok(Some(t)) => format!("{}", t.as_u64()),
                        Ok(None) => "-".to_string(),
                        Err(_) => "E".to_string(),
                    };
                    let found = if a.kind.is_replaceable() {
                        match st.find_replaceable_event(a.author, a.kind) {
                            Ok(Some(e)) => fnv(e.as_bytes()),
                            Ok(None) => "-".to_string(),
                            Err(_) => "E".to_string(),
                        }
                    } else if a.kind.is_parameterized_replaceable() {
                        match st.find_parameterized_replaceable_event(a) {
                            Ok(Some(e)) => fnv(e.as_bytes()),
                            Ok(None) => "-".to_string(),
                            Err(_) => "E".to_string(),
                        }
                    } else {
                        "x".to_string()
                    };
                    if n > 0 {
                        out.push(',');
                    }
                    out.push_str(&format!("{asof}:{found}"));
                }
                let s = st.stats().unwrap();
                let ix = &s.index_stats;
                out.push_str(&format!(
                    " stats={},{},{},{},{},{},{},{},{},{}",
                    ix.i_index_entries,
                    ix.ci_index_entries,
                    ix.tc_index_entries,
                    ix.ac_index_entries,
                    ix.akc_index_entries,
                    ix.atc_index_entries,
                    ix.ktc_index_entries,
                    ix.deleted_index_entries,
                    ix.deleted_naddr_index_entries,
                    s.event_bytes
                ));
                out.push_str(" offs=");
                for (n, off) in self.offsets.iter().enumerate() {
                    let h = match st.get_event_by_offset(*off) {
                        Ok(e) => fnv(e.as_bytes()),
                        Err(_) => "E".to_string(),
                    };
                    if n > 0 {
                        out.push(',');
                    }
                    out.push_str(&h);
                }
                // extra tables: every row, sorted
                out.push_str(" extra=");
                for name in self.names.iter() {
                    if let Some(tbl) = st.extra_table(name) {
                        let txn = st.read_txn().unwrap();
                        let mut rows: Vec<String> = Vec::new();
                        for r in tbl.iter(&txn).unwrap() {
                            let (k, v) = r.unwrap();
                            rows.push(format!("{}={}", hex(k), hex(v)));
                        }
                        rows.sort();
                        out.push_str(&format!("{}[{}]", name, rows.join(";")));
                    }
                }
                out
            }
            _ => format!("HARNESS-ERROR unknown op {op}"),
        }
    }
}

/// `dbhist L<k names> <nops> op ... op ...` — each op starts with a `;` token
pub fn cmd_dbhist(t: &mut Toks, root: &std::path::Path) -> String {
    unsafe {
        let mut lim = libc::rlimit { rlim_cur: 0, rlim_max: 0 };
        libc::getrlimit(libc::RLIMIT_FSIZE, &mut lim);
        if lim.rlim_cur != lim.rlim_max {
            lim.rlim_cur = lim.rlim_max;
            libc::setrlimit(libc::RLIMIT_FSIZE, &lim);
        }
    }
    let names = t.list(&mut |t| t.b());
    let mut h = Hist::new(names, root);
    let mut segs: Vec<String> = Vec::new();
    while t.i < t.a.len() {
        let sep = t.next();
        assert_eq!(sep, ";");
        let start = t.i;
        let r = std::panic::catch_unwind(std::panic::AssertUnwindSafe(|| h.op(t)));
        match r {
            Ok(s) => segs.push(s),
            Err(_) => {
                segs.push("panic".to_string());
                // resynchronise on the next `;`
                t.i = start;
                while t.i < t.a.len() && t.a[t.i] != ";" {
                    t.i += 1;
                }
                if h.store.is_none() {
                    break;
                }
            }
        }
    }
    format!("dbhist {}", segs.join(" | "))
}

/// the content of the event map file as `len:end:tail:block hashes` (1 KiB blocks of [0,end); `z` = all bytes beyond the
/// end marker are zero, else their hash); `none` when there is no such file.  The runner prints the same digest of the
/// byte-level model's file (LogBytes.v).
pub fn map_digest(path: &std::path::Path) -> String {
    match std::fs::read(path) {
        Err(_) => "none".to_string(),
        Ok(b) => {
            let len = b.len();
            if len < 8 {
                return format!("{}:short:{}", len, fnv(&b));
            }
            let end = u64::from_le_bytes(b[0..8].try_into().unwrap());
            let e = (end as usize).min(len);
            let tail = if b[e..].iter().all(|x| *x == 0) { "z".to_string() } else { fnv(&b[e..]) };
            let blocks: Vec<String> = b[..e].chunks(1024).map(fnv).collect();
            format!("{}:{}:{}:{}", len, end, tail, blocks.join("."))
        }
    }
}

// ---------------------------------------------------------------- crash engine (C13)
use std::sync::atomic::{AtomicI64, AtomicU64, Ordering};
use std::sync::Mutex;

static CUR_OP: AtomicI64 = AtomicI64::new(-1);
static TRACE: Mutex<Vec<(i64, &'static str)>> = Mutex::new(Vec::new());
static COUNT: AtomicU64 = AtomicU64::new(0);
static KILL_AT: AtomicU64 = AtomicU64::new(u64::MAX);

fn run_ops(h: &mut Hist, t: &mut Toks, stop_at: &str) -> Vec<String> {
    let mut segs: Vec<String> = Vec::new();
    let mut n: i64 = 0;
    while t.i < t.a.len() {
        let sep = t.next();
        if sep == stop_at && stop_at != ";" {
            break;
        }
        assert_eq!(sep, ";");
        CUR_OP.store(n, Ordering::SeqCst);
        let start = t.i;
        let r = std::panic::catch_unwind(std::panic::AssertUnwindSafe(|| h.op(t)));
        match r {
            Ok(s) => segs.push(s),
            Err(_) => {
                segs.push("panic".to_string());
                t.i = start;
                while t.i < t.a.len() && t.a[t.i] != ";" && t.a[t.i] != ";;" {
                    t.i += 1;
                }
                if h.store.is_none() {
                    break;
                }
            }
        }
        n += 1;
    }
    segs
}

/// `crashtrace L<names> ; op ; op ...` - a normal run recording every point hit, per op
pub fn cmd_crashtrace(t: &mut Toks, root: &std::path::Path) -> String {
    let names = t.list(&mut |t| t.b());
    TRACE.lock().unwrap().clear();
    CUR_OP.store(-1, Ordering::SeqCst);
    pocket_db::verif::install(Box::new(|name| {
        TRACE.lock().unwrap().push((CUR_OP.load(Ordering::SeqCst), name));
    }));
    let mut h = Hist::new(names, root);
    let segs = run_ops(&mut h, t, ";");
    pocket_db::verif::clear();
    let tr: Vec<String> = TRACE.lock().unwrap().iter().map(|(o, n)| format!("{o}:{n}")).collect();
    format!("crashtrace trace={} segs={}", tr.join(","), segs.join(" | "))
}

/// child: `crashchild b:<dir> L<names> n:<k> ; op ; op ...` - dies at the k-th point (0-based)
pub fn cmd_crashchild(t: &mut Toks) -> String {
    let dir = String::from_utf8(t.b()).unwrap();
    let names = leak_names(&t.list(&mut |t| t.b()));
    let k = t.n() as u64;
    KILL_AT.store(k, Ordering::SeqCst);
    COUNT.store(0, Ordering::SeqCst);
    pocket_db::verif::install(Box::new(|_name| {
        let c = COUNT.fetch_add(1, Ordering::SeqCst);
        if c == KILL_AT.load(Ordering::SeqCst) {
            // SIGKILL-equivalent: no destructors, no flushing
            unsafe { libc::_exit(9) };
        }
    }));
    let store = match Store::new(&dir, names.clone()) {
        Ok(s) => s,
        Err(_) => unsafe { libc::_exit(3) },
    };
    // a Hist over a directory we do not own
    let td = tempfile::Builder::new().prefix("unused").tempdir().unwrap();
    let mut h = Hist { dir: td, store: Some(store), names, offsets: Vec::new() };
    let _ = run_ops(&mut h, t, ";");
    drop(h);
    unsafe { libc::_exit(0) }
}

/// parent: `crash L<names> n:<k> ; hist ops ;; continuation ops`
pub fn cmd_crash(t: &mut Toks, root: &std::path::Path, line: &str) -> String {
    let names = t.list(&mut |t| t.b());
    let k = t.n();
    let dir = tempfile::Builder::new().prefix("c").tempdir_in(root).unwrap();
    // the history part of the line, verbatim
    let hist_start = line.find(" ; ").map(|i| i + 1).unwrap_or(line.len());
    let hist_end = line.find(" ;; ").unwrap_or(line.len());
    let hist = if hist_start < hist_end { &line[hist_start..hist_end] } else { "" };
    let names_tok = s_list(&names, &|n| s_bytes(n));
    let child_line = format!(
        "crashchild {} {} n:{} {}\n",
        s_bytes(dir.path().to_str().unwrap().as_bytes()),
        names_tok,
        k,
        hist
    );
    let exe = std::env::current_exe().unwrap();
    let mut child = std::process::Command::new(exe)
        .stdin(std::process::Stdio::piped())
        .stdout(std::process::Stdio::null())
        .stderr(std::process::Stdio::null())
        .spawn()
        .unwrap();
    {
        use std::io::Write;
        let mut si = child.stdin.take().unwrap();
        si.write_all(child_line.as_bytes()).unwrap();
    }
    let st = child.wait().unwrap();
    let how = match st.code() {
        Some(9) => "killed".to_string(),
        Some(0) => "completed".to_string(),
        Some(c) => format!("exit{c}"),
        None => "signal".to_string(),
    };
    // skip the history tokens in our own token stream
    while t.i < t.a.len() && t.a[t.i] != ";;" {
        t.i += 1;
    }
    // what the kill left in the event map file, before anything reopens it
    let file = map_digest(&dir.path().join("event.map"));
    let mut h = match Hist::open(dir, leak_names(&names)) {
        Ok(h) => h,
        Err(e) => return format!("crash child={how} file={file} reopen=err:{e}"),
    };
    // continuation: `;; op ; op ...`
    if t.i < t.a.len() {
        t.a[t.i] = ";";
    }
    let segs = run_ops(&mut h, t, ";");
    format!("crash child={} file={} reopen=ok | {}", how, file, segs.join(" | "))
}

// ---------------------------------------------------------------- references (C15)
static GROWTHS: AtomicU64 = AtomicU64::new(0);

/// `refs L<names> n:<threads> ; store ... ; store ...` - takes a reference to every stored event (by
/// offset and by id) and after every further store compares the ADDRESS of a fresh lookup with the
/// recorded one (a stale reference is never dereferenced) and, when equal, the bytes.
pub fn cmd_refs(t: &mut Toks, root: &std::path::Path) -> String {
    let names = t.list(&mut |t| t.b());
    let threads = t.n() as usize;
    GROWTHS.store(0, Ordering::SeqCst);
    pocket_db::verif::install(Box::new(|name| {
        if name == "append:resized" {
            let _ = GROWTHS.fetch_add(1, Ordering::SeqCst);
        }
    }));
    let h = Hist::new(names, root);
    let st = h.store.as_ref().unwrap();
    struct Ref {
        off: u64,
        id: [u8; 32],
        addr: usize,
        copy: Vec<u8>,
        growths_seen: u64,
        dead: bool,
    /// the same id was stored again later (after a removal/replacement): the id now denotes the newer copy
    superseded: bool,
    }
    let mut refs: Vec<Ref> = Vec::new();
    let (mut moved_growth, mut moved_nogrowth, mut changed, mut checks, mut stores, mut byid_diff) = (0u64, 0u64, 0u64, 0u64, 0u64, 0u64);
    let mut events: Vec<OwnedEvent> = Vec::new();
    while t.i < t.a.len() {
        let sep = t.next();
        assert_eq!(sep, ";");
        let op = t.next();
        assert_eq!(op, "store");
        let p = p_event(t);
        if let Ok(ev) = build_event(&p) {
            events.push(ev);
        }
    }
    let check = |refs: &mut Vec<Ref>, moved_growth: &mut u64, moved_nogrowth: &mut u64, changed: &mut u64, checks: &mut u64, byid_diff: &mut u64| {
        let g = GROWTHS.load(Ordering::SeqCst);
        for r in refs.iter_mut() {
            if r.dead {
                continue;
            }
            let fresh = match st.get_event_by_offset(r.off) {
                Ok(e) => e,
                Err(_) => {
                    *changed += 1;
                    r.dead = true;
                    continue;
                }
            };
            *checks += 1;
            let a = fresh.as_bytes().as_ptr() as usize;
            if a != r.addr {
                if g > r.growths_seen {
                    *moved_growth += 1;
                } else {
                    *moved_nogrowth += 1;
                }
                // the old reference is stale now: re-take it at the new address
                r.addr = a;
            }
            if fresh.as_bytes() != &r.copy[..] {
                *changed += 1;
                r.dead = true;
            }
            // the by-id path must lead to the same place (unless the id was stored again since)
            if r.superseded {
                r.growths_seen = g;
                continue;
            }
            if let Ok(Some(e2)) = st.get_event_by_id(Id::from_bytes(r.id)) {
                if e2.as_bytes().as_ptr() as usize != a {
                    *byid_diff += 1;
                }
            }
            r.growths_seen = g;
        }
    };
    if threads <= 1 {
        for ev in events.iter() {
            if let Ok(off) = st.store_event(ev) {
                stores += 1;
                for r in refs.iter_mut() {
                    if r.id == arr32(ev.id().as_slice()) {
                        r.superseded = true;
                    }
                }
                check(&mut refs, &mut moved_growth, &mut moved_nogrowth, &mut changed, &mut checks, &mut byid_diff);
                let e = st.get_event_by_offset(off).unwrap();
                for r in refs.iter_mut() {
                    if r.id == arr32(ev.id().as_slice()) {
                        r.superseded = true;
                    }
                }
                refs.push(Ref { off, id: arr32(ev.id().as_slice()), addr: e.as_bytes().as_ptr() as usize, copy: e.as_bytes().to_vec(), growths_seen: GROWTHS.load(Ordering::SeqCst), dead: false, superseded: false });
            }
        }
    } else {
        // first half sequentially (references taken), second half from other threads
        let half = events.len() / 2;
        for ev in events[..half].iter() {
            if let Ok(off) = st.store_event(ev) {
                stores += 1;
                let e = st.get_event_by_offset(off).unwrap();
                for r in refs.iter_mut() {
                    if r.id == arr32(ev.id().as_slice()) {
                        r.superseded = true;
                    }
                }
                refs.push(Ref { off, id: arr32(ev.id().as_slice()), addr: e.as_bytes().as_ptr() as usize, copy: e.as_bytes().to_vec(), growths_seen: GROWTHS.load(Ordering::SeqCst), dead: false, superseded: false });
            }
        }
        let rest = &events[half..];
        for ev in rest.iter() {
            for r in refs.iter_mut() {
                if r.id == arr32(ev.id().as_slice()) {
                    r.superseded = true;
                }
            }
        }
        let n = std::sync::atomic::AtomicU64::new(0);
        std::thread::scope(|s| {
            for th in 0..threads {
                let n = &n;
                s.spawn(move || {
                    for (i, ev) in rest.iter().enumerate() {
                        if i % threads == th && st.store_event(ev).is_ok() {
                            let _ = n.fetch_add(1, Ordering::SeqCst);
                        }
                    }
                });
            }
        });
        stores += n.load(Ordering::SeqCst);
        check(&mut refs, &mut moved_growth, &mut moved_nogrowth, &mut changed, &mut checks, &mut byid_diff);
    }
    pocket_db::verif::clear();
    format!(
        "refs stores={} growths={} checks={} moved_after_growth={} moved_without_growth={} bytes_changed={} byid_other_address={}",
        stores,
        GROWTHS.load(Ordering::SeqCst),
        checks,
        moved_growth,
        moved_nogrowth,
        changed,
        byid_diff
    )
}

// ---------------------------------------------------------------- schedule controller (C14)
use std::sync::{Arc, Condvar};

#[derive(Clone, PartialEq, Debug)]
enum TState {
    Running,
    AtPoint(&'static str),
    Done,
}

struct Ctl {
    states: Vec<TState>,
    turn: Option<usize>,
    trace: Vec<(usize, &'static str)>,
    free: bool,
}

/// parked at this point, the thread holds the LMDB write lock (acquired, not yet committed)
fn holds_write_lock(name: &str) -> bool {
    matches!(
        name,
        "store:txn" | "store:checked" | "store:preremoved" | "append:padded" | "append:half-copied" | "append:set-len"
            | "append:resized" | "append:returned" | "store:appended" | "store:indexed" | "store:before-commit"
            | "remove:txn" | "remove:before-commit"
    )
}

thread_local! {
    static MY_TID: std::cell::Cell<usize> = const { std::cell::Cell::new(usize::MAX) };
}

static CTL: Mutex<Option<Arc<(Mutex<Ctl>, Condvar)>>> = Mutex::new(None);

fn ctl_point(name: &'static str) {
    let tid = MY_TID.with(|c| c.get());
    if tid == usize::MAX {
        return; // not a controlled thread (setup / final observation)
    }
    let ctl = match CTL.lock().unwrap().as_ref() {
        Some(c) => c.clone(),
        None => return,
    };
    let (m, cv) = &*ctl;
    let mut g = m.lock().unwrap();
    g.states[tid] = TState::AtPoint(name);
    cv.notify_all();
    while g.turn != Some(tid) && !g.free {
        g = cv.wait(g).unwrap();
    }
    if g.free {
        g.states[tid] = TState::Running;
        return;
    }
    g.turn = None;
    g.states[tid] = TState::Running;
    g.trace.push((tid, name));
    cv.notify_all();
}

static CONC_STORED: Mutex<Vec<(u64, Vec<u8>)>> = Mutex::new(Vec::new());

/// `conc L<names> n:<seed> n:<switch_permille> ; S ; setup ops ; T ; ops of thread 0 ; T ; ops of thread 1 ...`
pub fn cmd_conc(t: &mut Toks, root: &std::path::Path, line: &str) -> String {
    let names = t.list(&mut |t| t.b());
    let seed = t.n() as u64;
    let switch = t.n() as u64;
    // switch >= 10000 (and != 9999 = free running): probe mode - always test whether a writer blocks, and when one did not,
    // hold it back at each of its points while the others run
    let aggressive = switch >= 10000;
    let switch = if aggressive { switch % 10000 } else { switch };
    // split the op text per section
    let body = &line[line.find(" ; ").map(|i| i + 3).unwrap_or(line.len())..];
    let mut setup: Vec<String> = Vec::new();
    let mut finalops: Vec<String> = Vec::new();
    let mut progs: Vec<Vec<String>> = Vec::new();
    let mut cur: Option<usize> = None;
    let mut in_final = false;
    for part in body.split(" ; ") {
        let part = part.trim();
        if part == "S" {
            cur = None;
        } else if part == "F" {
            in_final = true;
        } else if in_final {
            finalops.push(part.to_string());
        } else if part == "T" {
            progs.push(Vec::new());
            cur = Some(progs.len() - 1);
        } else if !part.is_empty() {
            match cur {
                None => setup.push(part.to_string()),
                Some(i) => progs[i].push(part.to_string()),
            }
        }
    }
    let mut h = Hist::new(names, root);
    for op in setup.iter() {
        let l = format!("; {op}");
        let mut tt = Toks::new(&l);
        let _ = tt.next();
        let _ = h.op(&mut tt);
    }
    let nthreads = progs.len();
    let ctl = Arc::new((Mutex::new(Ctl { states: vec![TState::Running; nthreads], turn: None, trace: Vec::new(), free: false }), Condvar::new()));
    let free_running = switch == 9999;
    if !free_running {
        *CTL.lock().unwrap() = Some(ctl.clone());
        pocket_db::verif::install(Box::new(ctl_point));
    }
    let responses: Arc<Mutex<Vec<(usize, usize, String)>>> = Arc::new(Mutex::new(Vec::new()));
    // the store is used concurrently through a shared reference
    let store: &Store = h.store.as_ref().unwrap();
    let names_static = h.names.clone();
    std::thread::scope(|s| {
        for (tid, prog) in progs.iter().enumerate() {
            let responses = responses.clone();
            let ctl = ctl.clone();
            let names_static = names_static.clone();
            s.spawn(move || {
                MY_TID.with(|c| c.set(tid));
                for (n, op) in prog.iter().enumerate() {
                    ctl_point("op:begin");
                    let l = format!("; {op}");
                    let mut tt = Toks::new(&l);
                    let _ = tt.next();
                    let r = std::panic::catch_unwind(std::panic::AssertUnwindSafe(|| conc_op(store, &names_static, &mut tt)));
                    let r = r.unwrap_or_else(|_| "panic".to_string());
                    responses.lock().unwrap().push((tid, n, r));
                    ctl_point("op:end");
                }
                let (m, cv) = &*ctl;
                let mut g = m.lock().unwrap();
                g.states[tid] = TState::Done;
                cv.notify_all();
            });
        }
        // the controller
        if free_running {
            return;
        }
        let (m, cv) = &*ctl;
        let mut x = seed | 1;
        let mut last: Option<usize> = None;
        // threads released into the write-lock acquisition while another thread held the lock, and
        // which did not come back within the probe timeout: they are blocked inside LMDB
        let mut blocked: Vec<usize> = Vec::new();
        let mut probes = 0;
        let mut victim: Option<usize> = None;
        let mut two_writers_seen = false;
        loop {
            let mut g = m.lock().unwrap();
            // wait until every thread that is not known to be blocked is at a point or done
            let mut waited = 0;
            loop {
                blocked.retain(|t| g.states[*t] == TState::Running);
                let busy = g.turn.is_some() || g.states.iter().enumerate().any(|(i, s)| *s == TState::Running && !blocked.contains(&i));
                let only_blocked_left = !busy
                    && !blocked.is_empty()
                    && g.states.iter().enumerate().all(|(i, s)| *s == TState::Done || blocked.contains(&i));
                if !busy && !only_blocked_left {
                    break;
                }
                let (ng, to) = cv.wait_timeout(g, std::time::Duration::from_millis(100)).unwrap();
                g = ng;
                if to.timed_out() {
                    waited += 1;
                    if waited > (if aggressive { 20 } else { 100 }) {
                        g.trace.push((usize::MAX, "WATCHDOG"));
                        g.free = true;
                        cv.notify_all();
                        return;
                    }
                }
            }
            if g.states.iter().all(|s| *s == TState::Done) {
                break;
            }
            // who holds the LMDB write lock: the thread parked between acquiring it and committing
            let mut lock_holder: Option<usize> = None;
            for (i, stt) in g.states.iter().enumerate() {
                if let TState::AtPoint(name) = stt {
                    if holds_write_lock(name) {
                        lock_holder = Some(i);
                    }
                }
            }
            x ^= x >> 12;
            x ^= x << 25;
            x ^= x >> 27;
            let r = x.wrapping_mul(0x2545F4914F6CDD1D);
            // two threads parked inside the write path at once: the write transaction does not serialize them
            let writers: Vec<usize> = (0..nthreads).filter(|i| matches!(&g.states[*i], TState::AtPoint(n) if holds_write_lock(n))).collect();
            if writers.len() >= 2 && !two_writers_seen {
                two_writers_seen = true;
                g.trace.push((writers[1], "UNBLOCKED-WHILE-LOCK-HELD"));
                if aggressive {
                    victim = Some(writers[((r >> 33) as usize) % writers.len()]);
                }
            }
            // a thread blocked inside LMDB may be acquiring the lock right now: until it has parked
            // again, the lock counts as held
            let lock_busy = lock_holder.is_some() || !blocked.is_empty();
            let would_block = |i: usize, g: &Ctl| match &g.states[i] {
                TState::AtPoint(name) => (*name == "store:before-txn" || *name == "remove:before-txn") && lock_busy && lock_holder != Some(i),
                _ => false,
            };
            let parked: Vec<usize> = (0..nthreads).filter(|i| matches!(g.states[*i], TState::AtPoint(_))).collect();
            let enabled: Vec<usize> = parked.iter().copied().filter(|i| !would_block(*i, &g)).collect();
            let probeable: Vec<usize> = parked.iter().copied().filter(|i| would_block(*i, &g)).collect();
            // now and then release a thread that SHOULD block on the write lock, to see whether it does
            let probe = !probeable.is_empty()
                && blocked.is_empty()
                && lock_holder.is_some()
                && probes < (if aggressive { 3 } else { 1 })
                && (aggressive || (r >> 40) % 100 < 30);
            if probe {
                probes += 1;
                let t = probeable[((r >> 20) as usize) % probeable.len()];
                g.turn = Some(t);
                cv.notify_all();
                // wait for it to park again (it was not blocked) or time out (it is blocked in LMDB)
                let deadline = std::time::Instant::now() + std::time::Duration::from_millis(50);
                loop {
                    let now = std::time::Instant::now();
                    if now >= deadline {
                        break;
                    }
                    let (ng, _) = cv.wait_timeout(g, deadline - now).unwrap();
                    g = ng;
                    if g.turn.is_none() && g.states[t] != TState::Running {
                        break;
                    }
                }
                if g.states[t] == TState::Running || g.turn.is_some() {
                    blocked.push(t);
                } else {
                    g.trace.push((t, "UNBLOCKED-WHILE-LOCK-HELD"));
                    if aggressive && victim.is_none() {
                        victim = Some(if (r >> 33) % 2 == 0 { t } else { lock_holder.unwrap_or(t) });
                    }
                }
                continue;
            }
            if enabled.is_empty() {
                if !blocked.is_empty() {
                    // wait for the blocked thread to get the lock and park
                    let (ng, _) = cv.wait_timeout(g, std::time::Duration::from_millis(20)).unwrap();
                    drop(ng);
                    continue;
                }
                g.trace.push((usize::MAX, "DEADLOCK"));
                g.free = true;
                cv.notify_all();
                break;
            }
            let others: Vec<usize> = enabled.iter().copied().filter(|i| Some(*i) != victim).collect();
            let choice = if victim.is_some() && !others.is_empty() && (r >> 44) % 100 < 85 {
                // hold the thread that did not block back; let the others run ahead
                match last {
                    Some(l) if others.contains(&l) && (r % 1000) >= switch => l,
                    _ => others[((r >> 20) as usize) % others.len()],
                }
            } else {
                match last {
                    Some(l) if enabled.contains(&l) && (r % 1000) >= switch => l,
                    _ => enabled[((r >> 20) as usize) % enabled.len()],
                }
            };
            last = Some(choice);
            g.turn = Some(choice);
            cv.notify_all();
        }
    });
    pocket_db::verif::clear();
    *CTL.lock().unwrap() = None;
    let trace: Vec<String> = ctl.0.lock().unwrap().trace.iter().map(|(t, n)| format!("{t}:{n}")).collect();
    let mut resp = responses.lock().unwrap().clone();
    resp.sort();
    let rs: Vec<String> = resp.iter().map(|(t, n, r)| format!("{t}.{n}={r}")).collect();
    let mut fin: Vec<String> = Vec::new();
    for op in finalops.iter() {
        let l = format!("; {op}");
        let mut tt = Toks::new(&l);
        let _ = tt.next();
        fin.push(h.op(&mut tt));
    }
    // every event stored during the concurrent phase, re-read by the offset its store returned - after the final operations,
    // so that a later store that overwrites committed bytes is seen
    let stored: Vec<(u64, Vec<u8>)> = std::mem::take(&mut *CONC_STORED.lock().unwrap());
    let mut changed = 0;
    if let Some(st) = h.store.as_ref() {
        for (off, bytes) in stored.iter() {
            let same = std::panic::catch_unwind(std::panic::AssertUnwindSafe(|| match st.get_event_by_offset(*off) {
                Ok(e) => e.as_bytes() == &bytes[..],
                Err(_) => false,
            }))
            .unwrap_or(false);
            if !same {
                changed += 1;
            }
        }
    }
    format!("conc sched={} refcheck={},{} resp={} final={}", trace.join(","), stored.len(), changed, rs.join(" ;; "), fin.join(" | "))
}

/// the operations threads may issue concurrently (a subset of Hist::op over a shared &Store)
fn conc_op(st: &Store, _names: &[&'static str], t: &mut Toks) -> String {
    let op = t.next();
    match op {
        "store" => {
            let p = p_event(t);
            let ev = match build_event(&p) {
                Ok(e) => e,
                Err(s) => return format!("ctor-{s}"),
            };
            match st.store_event(&ev) {
                Ok(off) => {
                    // C15: the reference handed out for this offset must keep denoting these bytes
                    CONC_STORED.lock().unwrap().push((off, ev.as_bytes().to_vec()));
                    format!("ok {off}")
                }
                Err(e) => format!("err:{}", db_err(&e)),
            }
        }
        "remove" => {
            let id = t.b();
            match st.remove_event(Id::from_bytes(arr32(&id))) {
                Ok(()) => "ok".to_string(),
                Err(e) => format!("err:{}", db_err(&e)),
            }
        }
        "vanish" => {
            let pk = t.b();
            let tags = pocket_types::OwnedTags::empty();
            let ev = OwnedEvent::new(
                Id::from_bytes([0; 32]),
                Kind::from_u16(62),
                Pubkey::from_bytes(arr32(&pk)),
                pocket_types::Sig::from_bytes([0; 64]),
                &tags,
                pocket_types::Time::from_u64(0),
                b"",
            )
            .unwrap();
            match st.vanish(&ev) {
                Ok(()) => "ok".to_string(),
                Err(e) => format!("err:{}", db_err(&e)),
            }
        }
        "query" => {
            let f = p_filter(t);
            let _screen: Vec<(Vec<u8>, u128)> = t.list(&mut |t| (t.b(), t.n()));
            let allow = t.n() != 0;
            let lim = t.n() as u32;
            let secs = t.n() as u64;
            let _now = t.n();
            let fo = match build_filter(&f) {
                Ok(x) => x,
                Err(s) => return format!("ctor-{s}"),
            };
            match st.find_events(&fo, allow, lim, secs, |_| ScreenResult::Match) {
                Ok((evs, red)) => {
                    // every returned reference must be readable in full
                    let ids: Vec<String> = evs.iter().map(|e| id_abbrev(e.id().as_slice())).collect();
                    let intact = evs.iter().all(|e| e.as_bytes().len() >= 152 && e.tags().is_ok());
                    format!("ok [{}] red={}{}", ids.join(","), red, if intact { "" } else { " TORN" })
                }
                Err(e) => format!("err:{}", db_err(&e)),
            }
        }
        _ => format!("HARNESS-ERROR conc op {op}"),
    }
}

/// final observation after a concurrent run is taken with a separate `dbhist`-style obs by the caller
pub fn _unused() {}
