//! Correspondence harness: runs pocket (built from /repo's working tree) on the same case
//! lines the extracted Coq model runs on, and prints one canonical line per case.
mod codec;
mod db;
mod tok;

use std::io::{BufRead, Write};
use std::panic::{catch_unwind, AssertUnwindSafe};

pub fn err_class(e: &pocket_types::Error) -> &'static str {
    use pocket_types::InnerError as I;
    match &e.inner {
        I::BufferTooSmall(_) => "buf",
        I::EndOfInput => "end",
        I::BadHexInput => "hex",
        I::Utf8Error => "utf8",
        I::OutOfRange(_) => "range",
        I::InvalidAddr => "addr",
        _ => "other",
    }
}

fn run_line(line: &str) -> String {
    let mut t = tok::Toks::new(line);
    let cmd = t.next();
    match cmd {
        "match" => codec::cmd_match(&mut t),
        "matchraw" => codec::cmd_matchraw(&mut t),
        "ctor_tags" => codec::cmd_ctor_tags(&mut t),
        "ctor_event" => codec::cmd_ctor_event(&mut t),
        "ctor_filter" => codec::cmd_ctor_filter(&mut t),
        "evjson" => codec::cmd_evjson(&mut t),
        "fljson" => codec::cmd_fljson(&mut t),
        "tagsjson" => codec::cmd_tagsjson(&mut t),
        "unescape" => codec::cmd_unescape(&mut t),
        "escape" => codec::cmd_escape(&mut t),
        "addr" => codec::cmd_addr(&mut t),
        "kindclass" => codec::cmd_kindclass(&mut t),
        "sign" => codec::cmd_sign(&mut t),
        "verifyjson" => codec::cmd_verifyjson(&mut t),
        "hll_add" => codec::cmd_hll_add(&mut t),
        "hll_hex" => codec::cmd_hll_hex(&mut t),
        "hll_env" => codec::cmd_hll_env(&mut t),
        "hex" => codec::cmd_hex(&mut t),
        "conc" => {
            let root = std::env::var("VERIF_RUN_DIR").unwrap_or_else(|_| "/verif/.cache/run".to_string());
            let root = std::path::PathBuf::from(root);
            let _ = std::fs::create_dir_all(&root);
            db::cmd_conc(&mut t, &root, line)
        }
        "refs" => {
            let root = std::env::var("VERIF_RUN_DIR").unwrap_or_else(|_| "/verif/.cache/run".to_string());
            let root = std::path::PathBuf::from(root);
            let _ = std::fs::create_dir_all(&root);
            db::cmd_refs(&mut t, &root)
        }
        "crashtrace" | "crash" => {
            let root = std::env::var("VERIF_RUN_DIR").unwrap_or_else(|_| "/verif/.cache/run".to_string());
            let root = std::path::PathBuf::from(root);
            let _ = std::fs::create_dir_all(&root);
            if cmd == "crashtrace" {
                db::cmd_crashtrace(&mut t, &root)
            } else {
                db::cmd_crash(&mut t, &root, line)
            }
        }
        "crashchild" => db::cmd_crashchild(&mut t),
        "dbhist" => {
            let root = std::env::var("VERIF_RUN_DIR").unwrap_or_else(|_| "/verif/.cache/run".to_string());
            let root = std::path::PathBuf::from(root);
            let _ = std::fs::create_dir_all(&root);
            db::cmd_dbhist(&mut t, &root)
        }
        _ => format!("HARNESS-ERROR unknown command {cmd}"),
    }
}

fn main() {
    if std::env::var("HARNESS_VERBOSE").is_err() {
        std::panic::set_hook(Box::new(|_| {}));
    }
    let stdin = std::io::stdin();
    let stdout = std::io::stdout();
    let mut out = std::io::BufWriter::new(stdout.lock());
    for line in stdin.lock().lines() {
        let line = line.unwrap();
        if line.is_empty() {
            continue;
        }
        let cmd = line.split(' ').next().unwrap_or("").to_string();
        let r = catch_unwind(AssertUnwindSafe(|| run_line(&line)));
        match r {
            Ok(s) => writeln!(out, "{s}").unwrap(),
            Err(_) => writeln!(out, "{cmd} impl=panic").unwrap(),
        }
    }
    out.flush().unwrap();
}
