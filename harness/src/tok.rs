//! Token format shared with the OCaml runner:
//!   n:<decimal>  b:<hex>  L<k> x1..xk  none
pub struct Toks<'a> {
    pub a: Vec<&'a str>,
    pub i: usize,
}

impl<'a> Toks<'a> {
    pub fn new(line: &'a str) -> Toks<'a> {
        Toks { a: line.split(' ').filter(|s| !s.is_empty()).collect(), i: 0 }
    }
    pub fn next(&mut self) -> &'a str {
        let s = self.a[self.i];
        self.i += 1;
        s
    }
    pub fn peek(&self) -> &'a str {
        self.a[self.i]
    }
    pub fn n(&mut self) -> u128 {
        let s = self.next();
        assert!(s.starts_with("n:"), "expected n: got {s}");
        s[2..].parse::<u128>().unwrap()
    }
    pub fn b(&mut self) -> Vec<u8> {
        let s = self.next();
        assert!(s.starts_with("b:"), "expected b: got {s}");
        unhex(&s[2..])
    }
    pub fn list<T>(&mut self, f: &mut dyn FnMut(&mut Toks<'a>) -> T) -> Vec<T> {
        let s = self.next();
        assert!(s.starts_with('L'), "expected L got {s}");
        let k: usize = s[1..].parse().unwrap();
        let mut v = Vec::with_capacity(k);
        for _ in 0..k {
            v.push(f(self));
        }
        v
    }
    pub fn opt_n(&mut self) -> Option<u128> {
        if self.peek() == "none" {
            let _ = self.next();
            None
        } else {
            Some(self.n())
        }
    }
    pub fn tags(&mut self) -> Vec<Vec<Vec<u8>>> {
        self.list(&mut |t| t.list(&mut |t| t.b()))
    }
}

pub fn unhex(s: &str) -> Vec<u8> {
    let b = s.as_bytes();
    let mut v = Vec::with_capacity(b.len() / 2);
    let hv = |c: u8| -> u8 {
        match c {
            b'0'..=b'9' => c - 48,
            b'a'..=b'f' => c - 87,
            b'A'..=b'F' => c - 55,
            _ => panic!("bad hex"),
        }
    };
    let mut i = 0;
    while i + 1 < b.len() {
        v.push(hv(b[i]) * 16 + hv(b[i + 1]));
        i += 2;
    }
    v
}

pub fn hex(b: &[u8]) -> String {
    const H: &[u8; 16] = b"0123456789abcdef";
    let mut s = String::with_capacity(b.len() * 2);
    for x in b {
        s.push(H[(x >> 4) as usize] as char);
        s.push(H[(x & 15) as usize] as char);
    }
    s
}

pub fn s_bytes(b: &[u8]) -> String {
    format!("b:{}", hex(b))
}
pub fn s_list<T>(l: &[T], f: &dyn Fn(&T) -> String) -> String {
    let mut s = format!("L{}", l.len());
    for x in l {
        s.push(' ');
        s.push_str(&f(x));
    }
    s
}
pub fn s_tags(ts: &[Vec<Vec<u8>>]) -> String {
    s_list(ts, &|t| s_list(t, &|b| s_bytes(b)))
}
