(* main.ml — driver for the extracted Coq model (model.ml).  Reads one case per line on
   stdin, prints one canonical result line per case on stdout.  It contains no logic of the
   system under test: only token parsing, conversion to the extracted types, printing.

   Token format (shared with the Rust harness):
     n:<decimal>   number            b:<hex>   bytes ("b:" alone = empty)
     L<k> x1..xk   list of k items   none      absent option *)
open Model

(* ---------- conversions ---------- *)
let rec pos_of_int i = if i = 1 then XH else if i land 1 = 0 then XO (pos_of_int (i lsr 1)) else XI (pos_of_int (i lsr 1))
let n_of_int i = if i = 0 then N0 else Npos (pos_of_int i)
let byte_tab = Array.init 256 n_of_int
let rec int_of_pos = function XH -> 1 | XO p -> 2 * int_of_pos p | XI p -> 2 * int_of_pos p + 1
let int_of_n = function N0 -> 0 | Npos p -> int_of_pos p
let ten = n_of_int 10
let n_of_dec (s : string) : n =
  let r = ref N0 in
  String.iter (fun c -> r := N.add (N.mul !r ten) (n_of_int (Char.code c - 48))) s; !r
let dec_of_n (x : n) : string =
  if x = N0 then "0" else begin
    let b = Buffer.create 24 in
    let digits = ref [] in
    let r = ref x in
    while !r <> N0 do
      digits := int_of_n (N.modulo !r ten) :: !digits;
      r := N.div !r ten
    done;
    List.iter (fun d -> Buffer.add_char b (Char.chr (48 + d))) !digits;
    Buffer.contents b
  end
let hexval c = match c with
  | '0'..'9' -> Char.code c - 48 | 'a'..'f' -> Char.code c - 87 | 'A'..'F' -> Char.code c - 55
  | _ -> failwith "bad hex"
let bytes_of_hex (s : string) : n list =
  let l = String.length s / 2 in
  let rec go i acc = if i < 0 then acc else go (i - 1) (byte_tab.(hexval s.[2*i] * 16 + hexval s.[2*i+1]) :: acc) in
  go (l - 1) []
let hexdig = "0123456789abcdef"
let hex_of_bytes (l : n list) : string =
  let b = Buffer.create 64 in
  List.iter (fun x -> let v = int_of_n x in
    if v > 255 then Buffer.add_string b "??" else begin
    Buffer.add_char b hexdig.[v lsr 4]; Buffer.add_char b hexdig.[v land 15] end) l;
  Buffer.contents b

(* ---------- token stream ---------- *)
type toks = { a : string array; mutable i : int }
let next t = let s = t.a.(t.i) in t.i <- t.i + 1; s
let peek t = t.a.(t.i)
let p_n t = let s = next t in
  if String.length s >= 2 && s.[0] = 'n' then n_of_dec (String.sub s 2 (String.length s - 2)) else failwith ("expected n: got " ^ s)
let p_b t = let s = next t in
  if String.length s >= 2 && s.[0] = 'b' then bytes_of_hex (String.sub s 2 (String.length s - 2)) else failwith ("expected b: got " ^ s)
let p_list (f : toks -> 'a) t : 'a list =
  let s = next t in
  if s.[0] <> 'L' then failwith ("expected L got " ^ s);
  let k = int_of_string (String.sub s 1 (String.length s - 1)) in
  let rec go k acc = if k = 0 then List.rev acc else let x = f t in go (k - 1) (x :: acc) in
  go k []
let p_opt (f : toks -> 'a) t : 'a option = if peek t = "none" then (ignore (next t); None) else Some (f t)
let p_tags t = p_list (p_list p_b) t
let p_int t = int_of_n (p_n t)

let u64max = n_of_dec "18446744073709551615"
let u32max = n_of_dec "4294967295"

let p_event t : aevent =
  let e_id = p_b t in let e_pk = p_b t in let e_sig = p_b t in
  let e_kind = p_n t in let e_created = p_n t in let e_tags = p_tags t in let e_content = p_b t in
  { e_id; e_pk; e_sig; e_kind; e_created; e_tags; e_content }
let p_filter t : afilter =
  let f_ids = p_list p_b t in let f_authors = p_list p_b t in let f_kinds = p_list p_n t in
  let f_tags = p_tags t in
  let f_since = (match p_opt p_n t with Some x -> x | None -> N0) in
  let f_until = (match p_opt p_n t with Some x -> x | None -> u64max) in
  let f_limit = (match p_opt p_n t with Some x -> x | None -> u32max) in
  { f_ids; f_authors; f_kinds; f_tags; f_since; f_until; f_limit }

(* ---------- printing ---------- *)
let s_err = function
  | EBuf -> "buf" | EEnd -> "end" | EHex -> "hex" | EUtf8 -> "utf8" | EJson -> "json" | ERange -> "range"
  | EAddr -> "addr" | EDup -> "dup" | EDeleted -> "deleted" | EReplaced -> "replaced"
  | EInvalidDelete -> "invaliddelete" | EScraper -> "scraper" | EWrongKind -> "wrongkind"
  | EKeySize -> "keysize" | EOther -> "other"
let s_res (f : 'a -> string) (r : 'a res) : string = match r with
  | Ok a -> "ok " ^ f a | Err e -> "err:" ^ s_err e | Panic -> "panic" | OutOfFuel -> "fuel"
let s_bool b = if b then "true" else "false"
let s_bytes l = "b:" ^ hex_of_bytes l
let s_list f l = "L" ^ string_of_int (List.length l) ^ String.concat "" (List.map (fun x -> " " ^ f x) l)
let s_tags ts = s_list (s_list s_bytes) ts
let s_opt f = function None -> "none" | Some x -> f x
let s_n x = "n:" ^ dec_of_n x


(* ---------- db engine ---------- *)
let fnv (l : n list) : string =
  let h = ref 0x811c9dc5 in
  List.iter (fun x -> h := ((!h lxor (int_of_n x)) * 0x01000193) land 0xFFFFFFFF) l;
  Printf.sprintf "%08x" !h
let p_addr t : addr = let a_kind = p_n t in let a_author = p_b t in let a_d = p_b t in { a_kind; a_author; a_d }
let s_dberr (r : 'a res) : string = match r with
  | Ok _ -> "ok" | Err e -> "err:" ^ (match e with
      | EDup -> "dup" | EDeleted -> "deleted" | EReplaced -> "replaced" | EInvalidDelete -> "invaliddelete"
      | EScraper -> "scraper" | EWrongKind -> "wrongkind" | EEnd -> "end" | _ -> "other")
  | Panic -> "panic" | OutOfFuel -> "fuel"
let rec drop_int k l = if k = 0 then l else match l with [] -> [] | _ :: r -> drop_int (k - 1) r
let rec first_n k l = if k = 0 then [] else match l with [] -> [] | x :: r -> x :: first_n (k - 1) r

(* an id as shown in query answers: its first and its last four bytes *)
let id_abbrev (id : n list) : string =
  let k = List.length id in hex_of_bytes (first_n 4 id) ^ hex_of_bytes (drop_int (max 0 (k - 4)) id)

type hist = { mutable st : db; mutable ast : astate; mutable offsets : n list; names : n list list;
              mutable bm : (int * emap) option   (* the byte-level map of the first k log entries (LogBytes.v), cached *) }

(* ---------- the byte-level event map (LogBytes.v) ---------- *)
let chunk_debug = n_of_int 2048
(* len:end:tail:block hashes -- the same digest the harness prints of the real event.map *)
let map_digest (f : n list) : string =
  let len = List.length f in
  if len < 8 then Printf.sprintf "%d:short:%s" len (fnv f) else begin
    let e_n = get_end f in
    let e = (try min (int_of_n e_n) len with _ -> len) in
    let used = first_n e f and tail = drop_int e f in
    let tl = if List.for_all (fun x -> x = N0) tail then "z" else fnv tail in
    let rec blocks l = if l = [] then [] else fnv (first_n 1024 l) :: blocks (drop_int 1024 l) in
    Printf.sprintf "%d:%s:%s:%s" len (dec_of_n e_n) tl (String.concat "." (blocks used))
  end
(* bytes_of_log of the current log, computed incrementally: the log only grows at its head between rebuilds *)
let current_map (h : hist) : emap option =
  let lg = h.st.log in
  let n = List.length lg in
  let r = (match h.bm with
    | Some (k, m) when k <= n -> replay_log chunk_debug m (List.rev (first_n (n - k) lg))
    | _ -> bytes_of_log chunk_debug lg) in
  (match r with Some m -> h.bm <- Some (n, m) | None -> h.bm <- None);
  r


let db_op (h : hist) (t : toks) : string =
  let op = next t in
  match op with
  | "store" ->
      let e = p_event t in
      let (s', r) = store_event h.st e in
      h.st <- s';
      (match r with
       | Ok off -> h.offsets <- h.offsets @ [off];
                   Printf.sprintf "ok %s h=%s" (dec_of_n off) (fnv (enc_event e))
       | r -> s_dberr r)
  | "remove" ->
      let id = p_b t in
      let (s', r) = remove_event h.st id in h.st <- s'; s_dberr r
  | "vanish" ->
      let pk = p_b t in
      let (s', r) = vanish h.st pk in h.st <- s'; s_dberr r
  | "query" ->
      let f = p_filter t in
      let screen = p_list (fun t -> let i = p_b t in let o = p_int t in (i, o)) t in
      let allow = p_int t <> 0 in let lim = p_n t in let secs = p_n t in let now = p_n t in
      let scr (e : aevent) = match List.assoc_opt e.e_id screen with
        | Some 1 -> SMismatch | Some 2 -> SRedacted | _ -> SMatch in
      (match find_events h.st f scr now allow lim secs with
       | Ok (evs, red) ->
           Printf.sprintf "ok [%s] red=%s"
             (String.concat "," (List.map (fun (e : aevent) -> id_abbrev e.e_id) evs)) (s_bool red)
       | r -> s_dberr r)
  | "reopen" -> h.st <- reopen h.st; "ok"
  | "map" -> (match current_map h with Some m -> "map " ^ map_digest m.file | None -> "map REPLAY-FAILED")
  | "rebuild" ->
      (match rebuild h.st with
       | Ok s' -> h.st <- s'; h.offsets <- []; h.bm <- None;
                  Printf.sprintf "ok bak=%s" (s_bool (s'.bak <> None))
       | r -> s_dberr r)
  | "xput" ->
      let name = p_b t in let k = p_b t in let v = p_b t in
      if List.mem name h.names then (h.st <- db_extra_put h.st name k v; "ok") else "notable"
  | "obs" ->
      let ids = p_list p_b t in let addrs = p_list p_addr t in
      let b = Buffer.create 256 in
      Buffer.add_string b "ids=";
      List.iteri (fun i id ->
        if i > 0 then Buffer.add_char b ',';
        Buffer.add_char b (if has_event h.st id then '1' else '0');
        Buffer.add_char b (if event_is_deleted h.st id then '1' else '0');
        Buffer.add_char b ':';
        Buffer.add_string b (match get_event_by_id h.st id with
          | Ok (Some e) -> fnv (enc_event e) | Ok None -> "-" | _ -> "E")) ids;
      Buffer.add_string b " addrs=";
      List.iteri (fun i (a : addr) ->
        if i > 0 then Buffer.add_char b ',';
        Buffer.add_string b (match naddr_is_deleted_asof h.st a with Some t -> dec_of_n t | None -> "-");
        Buffer.add_char b ':';
        let found r = (match r with Ok (Some e) -> fnv (enc_event e) | Ok None -> "-" | _ -> "E") in
        Buffer.add_string b (
          if is_replaceable a.a_kind then found (find_replaceable_event h.st a.a_author a.a_kind)
          else if is_param_replaceable a.a_kind then found (find_param_replaceable_event h.st a)
          else "x")) addrs;
      Buffer.add_string b " stats=";
      Buffer.add_string b (String.concat "," (List.map dec_of_n (stats h.st)));
      Buffer.add_string b " offs=";
      List.iteri (fun i off ->
        if i > 0 then Buffer.add_char b ',';
        Buffer.add_string b (match get_event_by_offset h.st off with Ok e -> fnv (enc_event e) | _ -> "E")) h.offsets;
      Buffer.add_string b " extra=";
      List.iter (fun name ->
        match List.assoc_opt name h.st.committed.t_extra with
        | Some rows ->
            let rs = List.sort compare (List.map (fun (k, v) -> hex_of_bytes k ^ "=" ^ hex_of_bytes v) rows) in
            Buffer.add_string b (Printf.sprintf "%s[%s]" (String.init (List.length name) (fun i -> Char.chr (int_of_n (List.nth name i)))) (String.concat ";" rs))
        | None -> ()) h.names;
      Buffer.contents b
  | _ -> "RUNNER-ERROR unknown op " ^ op


(* the abstract specification (ADb.v) run on the same operation *)
let spec_op (h : hist) (t : toks) : string =
  let op = next t in
  match op with
  | "store" ->
      let e = p_event t in
      let (a', r) = a_store h.ast e in h.ast <- a'; s_dberr r
  | "remove" -> let id = p_b t in h.ast <- a_remove h.ast id; "ok"
  | "vanish" -> let pk = p_b t in h.ast <- a_vanish h.ast pk; "ok"
  | "query" ->
      let f = p_filter t in
      let screen = p_list (fun t -> let i = p_b t in let o = p_int t in (i, o)) t in
      let allow = p_int t <> 0 in let lim = p_n t in let secs = p_n t in let now = p_n t in
      let scr (e : aevent) = match List.assoc_opt e.e_id screen with
        | Some 1 -> SMismatch | Some 2 -> SRedacted | _ -> SMatch in
      let q = a_qualifying h.ast f scr in
      Printf.sprintf "q [%s] redactable=%s limit=%s refusable=%s"
        (String.concat "," (List.map (fun (e : aevent) -> dec_of_n e.e_created ^ ":" ^ id_abbrev e.e_id) q))
        (s_bool (a_redactable h.ast f scr)) (dec_of_n f.f_limit)
        (s_bool (is_scrape f && not (scrape_covered f now allow lim secs)))
  | "reopen" -> "ok"
  | "map" -> "ok"
  | "rebuild" -> "ok"
  | "xput" -> let name = p_b t in let k = p_b t in let v = p_b t in
      if List.mem name h.names then (h.ast <- a_extra_put h.ast name k v; "ok") else "notable"
  | "obs" ->
      let ids = p_list p_b t in let addrs = p_list p_addr t in
      let b = Buffer.create 256 in
      Buffer.add_string b "ids=";
      List.iteri (fun i id ->
        if i > 0 then Buffer.add_char b ',';
        Buffer.add_char b (if has_id id h.ast.live then '1' else '0');
        Buffer.add_char b (if mem_bytes id h.ast.del_ids then '1' else '0');
        Buffer.add_char b ':';
        Buffer.add_string b (match find_id id h.ast.live with Some e -> fnv (enc_event e) | None -> "-")) ids;
      Buffer.add_string b " addrs=";
      List.iteri (fun i (a : addr) ->
        if i > 0 then Buffer.add_char b ',';
        Buffer.add_string b (match del_time h.ast.del_addrs a with Some t -> dec_of_n t | None -> "-");
        Buffer.add_char b ':';
        let a0 = if is_replaceable a.a_kind then { a with a_d = [] } else a in
        let holders = List.filter (at_addr a0) h.ast.live in
        Buffer.add_string b (
          if is_replaceable a.a_kind || is_param_replaceable a.a_kind then
            (match holders with [] -> "-" | [e] -> fnv (enc_event e) | _ -> "MANY")
          else "x")) addrs;
      Buffer.add_string b (Printf.sprintf " live=%d delids=%d deladdrs=%d" (List.length h.ast.live)
        (List.length h.ast.del_ids) (List.length h.ast.del_addrs));
      Buffer.add_string b " extra=";
      List.iter (fun name ->
        match List.assoc_opt name h.ast.a_extra with
        | Some rows ->
            let rs = List.sort compare (List.map (fun (k, v) -> hex_of_bytes k ^ "=" ^ hex_of_bytes v) rows) in
            Buffer.add_string b (Printf.sprintf "%s[%s]" (String.init (List.length name) (fun i -> Char.chr (int_of_n (List.nth name i)))) (String.concat ";" rs))
        | None -> ()) h.names;
      Buffer.contents b
  | _ -> "RUNNER-ERROR unknown op " ^ op

let cmd_dbhist (t : toks) : string =
  let names = p_list p_b t in
  let h = { st = db_init names; ast = a_init names; offsets = []; names; bm = None } in
  let segs = ref [] in
  let ssegs = ref [] in
  while t.i < Array.length t.a do
    let sep = next t in
    if sep <> ";" then failwith ("expected ; got " ^ sep);
    let start = t.i in
    segs := db_op h t :: !segs;
    t.i <- start;
    ssegs := spec_op h t :: !ssegs
  done;
  "dbhist " ^ String.concat " | " (List.rev !segs) ^ " ## " ^ String.concat " | " (List.rev !ssegs)


(* ---------- crash engine (C13): candidates after a kill inside the last history op ---------- *)
let cmd_crashmodel (t : toks) : string =
  let names = p_list p_b t in
  let _k = p_n t in
  let h = { st = db_init names; ast = a_init names; offsets = []; names; bm = None } in
  (* split token positions of the history ops *)
  let starts = ref [] in
  let i0 = t.i in
  let j = ref i0 in
  while !j < Array.length t.a && t.a.(!j) <> ";;" do
    if t.a.(!j) = ";" then starts := !j :: !starts;
    incr j
  done;
  let cont_start = !j in
  let starts = List.rev !starts in
  let nh = List.length starts in
  (* run all but the last history op *)
  List.iteri (fun n st -> if n < nh - 1 then begin t.i <- st + 1; ignore (db_op h t) end) starts;
  let files : string list =
    if nh = 0 then "none" :: List.map map_digest (create_files chunk_debug)
    else begin
      let st = List.nth starts (nh - 1) in
      t.i <- st + 1;
      let op = next t in
      match current_map h with
      | None -> ["REPLAY-FAILED"]
      | Some m ->
          (match op with
           | "store" -> let e = p_event t in
               (match pre_checks h.st e with
                | Ok _ -> List.map map_digest (crash_files chunk_debug m (enc_event e))
                | _ -> [map_digest m.file])
           | _ -> [map_digest m.file])
    end in
  let cands : db list =
    if nh = 0 then [db_init names]
    else begin
      let st = List.nth starts (nh - 1) in
      t.i <- st + 1;
      let op = next t in
      (match op with
       | "store" -> let e = p_event t in crash_states_store h.st e
       | "remove" -> let id = p_b t in crash_states_remove h.st id
       | "vanish" -> let pk = p_b t in crash_states_vanish h.st pk
       | "xput" -> let name = p_b t in let k = p_b t in let v = p_b t in
           if List.mem name h.names then [h.st; db_extra_put h.st name k v] else [h.st]
       | _ -> [h.st])
    end in
  (* dedupe *)
  let cands = List.fold_left (fun acc c -> if List.mem c acc then acc else acc @ [c]) [] cands in
  let outs = List.map (fun c ->
    let hc = { st = c; ast = a_init names; offsets = []; names; bm = None } in
    let segs = ref [] in
    t.i <- cont_start;
    if t.i < Array.length t.a then begin
      t.a.(t.i) <- ";";
      while t.i < Array.length t.a do
        let sep = next t in
        if sep <> ";" then failwith ("expected ; got " ^ sep);
        segs := db_op hc t :: !segs
      done;
      t.a.(cont_start) <- ";;"
    end;
    String.concat " | " (List.rev !segs)) cands in
  Printf.sprintf "crashmodel cands=%d files=%s ## %s" (List.length cands) (String.concat "," files) (String.concat " ## " outs)

(* ---------- commands ---------- *)
let run_line (line : string) : string =
  let a = Array.of_list (List.filter (fun s -> s <> "") (String.split_on_char ' ' line)) in
  let t = { a; i = 0 } in
  let cmd = next t in
  match cmd with
  | "match" ->
      (* filter parts, event parts -> model outcome on the binary operands, spec answer, encodings *)
      let f = p_filter t in let e = p_event t in
      let fb = enc_filter f and eb = enc_event e in
      let pre = wf_afilterb f && fits_filterb f && wf_aeventb e && fits_eventb e in
      Printf.sprintf "match model=%s spec=%s named=%s pre=%s fenc=%s eenc=%s"
        (s_res s_bool (event_matches fb eb)) (s_bool (spec_matches f e))
        (s_bool (named_constraintsb f)) (s_bool pre) (hex_of_bytes fb) (hex_of_bytes eb)
  | "matchraw" ->
      (* raw filter bytes, raw event bytes *)
      let fb = p_b t in let eb = p_b t in
      Printf.sprintf "matchraw model=%s" (s_res s_bool (event_matches fb eb))
  | "ctor_tags" ->
      let ts = p_tags t in let outlen = p_int t in let fill = p_n t in
      let out = List.init outlen (fun _ -> fill) in
      Printf.sprintf "ctor_tags r=%s fits=%s" (s_res hex_of_bytes (tags_from_parts ts out)) (s_bool (fits_tagsb ts))
  | "ctor_event" ->
      let e = p_event t in let outlen = p_int t in let fill = p_n t in
      let out = List.init outlen (fun _ -> fill) in
      Printf.sprintf "ctor_event r=%s fits=%s" (s_res hex_of_bytes (event_from_parts e out)) (s_bool (wf_aeventb e && fits_eventb e))
  | "ctor_filter" ->
      let f = p_filter t in let outlen = p_int t in let fill = p_n t in
      let out = List.init outlen (fun _ -> fill) in
      Printf.sprintf "ctor_filter r=%s fits=%s" (s_res hex_of_bytes (filter_from_parts f out)) (s_bool (wf_afilterb f && fits_filterb f))
  | "dbhist" -> cmd_dbhist t
  | "crash" -> cmd_crashmodel t
  | "evjson" ->
      let inp = p_b t in let outlen = p_int t in let fill = p_n t in
      let out = List.init outlen (fun _ -> fill) in
      (match event_from_json inp out with
       | Ok ((consumed, ev), buf) ->
           let acc = (match decode_event ev with
             | Ok e -> Printf.sprintf "%s %s %s %s %s %s %s" (s_bytes e.e_id) (s_bytes e.e_pk) (s_bytes e.e_sig)
                         (s_n e.e_kind) (s_n e.e_created) (s_tags e.e_tags) (s_bytes e.e_content)
             | r -> s_res (fun _ -> "") r) in
           let js = event_bytes_as_json ev in
           let re = (match js with
             | Ok j -> (match event_from_json j (List.init (List.length ev) (fun _ -> n_of_int 170)) with
                        | Ok ((_, ev2), _) -> s_bool (ev2 = ev) | r -> s_res (fun _ -> "") r)
             | _ -> "nojson") in
           Printf.sprintf "evjson r=ok consumed=%d ev=%s tail=%s acc=%s json=%s reparse=%s" (int_of_n consumed)
             (hex_of_bytes ev) (fnv (drop_int (List.length ev) buf)) acc (s_res hex_of_bytes js) re
       | r -> "evjson r=" ^ s_res (fun _ -> "") r)
  | "fljson" ->
      let inp = p_b t in let outlen = p_int t in let fill = p_n t in
      let out = List.init outlen (fun _ -> fill) in
      (match filter_from_json inp out with
       | Ok ((consumed, fl), buf) ->
           let acc = (match decode_filter fl with
             | Ok f -> Printf.sprintf "%s %s %s %s %s %s %s" (s_list s_bytes f.f_ids) (s_list s_bytes f.f_authors)
                         (s_list s_n f.f_kinds) (s_tags f.f_tags) (s_n f.f_since) (s_n f.f_until) (s_n f.f_limit)
             | r -> s_res (fun _ -> "") r) in
           let js = filter_bytes_as_json fl in
           let re = (match js with
             | Ok j -> (match filter_from_json j (List.init (List.length fl) (fun _ -> n_of_int 170)) with
                        | Ok ((_, fl2), _) -> s_bool (fl2 = fl) | r -> s_res (fun _ -> "") r)
             | _ -> "nojson") in
           Printf.sprintf "fljson r=ok consumed=%d fl=%s tail=%s acc=%s json=%s reparse=%s" (int_of_n consumed)
             (hex_of_bytes fl) (fnv (drop_int (List.length fl) buf)) acc (s_res hex_of_bytes js) re
       | r -> "fljson r=" ^ s_res (fun _ -> "") r)
  | "tagsjson" ->
      let inp = p_b t in let outlen = p_int t in let fill = p_n t in
      let out = List.init outlen (fun _ -> fill) in
      (match tags_from_json inp out with
       | Ok (consumed, tg) ->
           Printf.sprintf "tagsjson r=ok consumed=%d tags=%s acc=%s json=%s" (int_of_n consumed) (hex_of_bytes tg)
             (s_res s_tags (tags_iter_all tg)) (s_res hex_of_bytes (tags_bytes_as_json tg))
       | r -> "tagsjson r=" ^ s_res (fun _ -> "") r)
  | "unescape" ->
      let inp = p_b t in let cap = p_n t in
      (match json_unescape inp cap with
       | Ok (inlen, out) -> Printf.sprintf "unescape r=ok inlen=%d out=%s" (int_of_n inlen) (hex_of_bytes out)
       | r -> "unescape r=" ^ s_res (fun _ -> "") r)
  | "escape" ->
      let inp = p_b t in
      Printf.sprintf "escape r=%s" (s_res hex_of_bytes (json_escape inp))
  | "addr" ->
      let inp = p_b t in
      (match addr_parse inp with
       | Ok a -> Printf.sprintf "addr r=ok %s %s %s" (s_n a.a_kind) (s_bytes a.a_author) (s_bytes a.a_d)
       | r -> "addr r=" ^ s_res (fun _ -> "") r)
  | "kindclass" ->
      let k = p_n t in
      Printf.sprintf "kindclass %s %s %s" (s_bool (is_replaceable k)) (s_bool (is_ephemeral k)) (s_bool (is_param_replaceable k))
  | "noop" -> "noop"
  | "canon" ->
      (* pubkey, created_at, kind, tags, content -> the canonical serialisation that is hashed *)
      let pk = p_b t in let created = p_n t in let kind = p_n t in let tags = p_tags t in let content = p_b t in
      let e = { e_id = []; e_pk = pk; e_sig = []; e_kind = kind; e_created = created; e_tags = tags; e_content = content } in
      Printf.sprintf "canon r=%s" (s_res hex_of_bytes (canon e))
  | "canonjson" ->
      let inp = p_b t in
      (match event_from_json inp (List.init (List.length inp + 1024) (fun _ -> N0)) with
       | Ok ((_, ev), _) -> (match decode_event ev with
           | Ok e -> Printf.sprintf "canonjson r=%s" (s_res hex_of_bytes (canon e))
           | r -> "canonjson r=" ^ s_res (fun _ -> "") r)
       | r -> "canonjson r=" ^ s_res (fun _ -> "") r)
  | "hll_add" ->
      let p_el t = let i = p_b t in let o = p_n t in (i, o) in
      let a = p_list p_el t in let b = p_list p_el t in
      let errs = Buffer.create 16 in
      let addall r l = List.fold_left (fun r (i, o) -> match add_element r i o with
        | Ok r' -> Buffer.add_char errs 'o'; r' | _ -> Buffer.add_char errs 'e'; r) r l in
      let ra = addall hll_new a in let rb = addall hll_new b in
      let rab = addall (addall hll_new a) b in
      Printf.sprintf "hll_add ra=%s rb=%s rab=%s mab=%s errs=%s hex=%s"
        (hex_of_bytes ra) (hex_of_bytes rb) (hex_of_bytes rab) (hex_of_bytes (merge ra rb))
        (Buffer.contents errs) (hex_of_bytes (to_hex rab))
  | "hll_hex" ->
      let s = p_b t in
      (match from_hex s with
       | Ok r -> Printf.sprintf "hll_hex imp=ok regs=%s export=%s zeros=%d" (hex_of_bytes r) (hex_of_bytes (to_hex r)) (int_of_n (zero_count r))
       | r -> Printf.sprintf "hll_hex imp=%s" (s_res (fun _ -> "") r))
  | "hex" ->
      (* read_hex of arbitrary bytes for a 32/64-byte value, then write_hex *)
      let n = p_n t in let s = p_b t in
      let n = if n = n_of_int 33 then n_of_int 32 else n in   (* 33 = "a pubkey" in the harness protocol *)
      (match read_hex s n with
       | Ok r -> Printf.sprintf "hex r=ok %s w=%s" (hex_of_bytes r) (hex_of_bytes (write_hex r))
       | r -> Printf.sprintf "hex r=%s" (s_res (fun _ -> "") r))
  | _ -> "RUNNER-ERROR unknown command " ^ cmd

let () =
  try
    while true do
      let line = input_line stdin in
      if String.length line > 0 then begin
        let out = (try run_line line with
                   | Stack_overflow -> "RUNNER-ERROR stack"
                   | e -> "RUNNER-ERROR " ^ Printexc.to_string e) in
        print_string out; print_newline ()
      end
    done
  with End_of_file -> ()
