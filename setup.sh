#!/bin/bash
# MANIFEST.setup_cmd: build everything offline from files on disk.
set -e
cd "$(dirname "$0")"
export CARGO_TARGET_DIR=/verif/.cache/target CARGO_NET_OFFLINE=true
mkdir -p .cache evidence
( cd coq && coq_makefile -f _CoqProject -o Makefile >/dev/null 2>&1 && timeout 3000 make -j16 2>&1 | grep -v '^COQDEP\|^Warning\|Closed under\|^ *$' | tail -20; test ${PIPESTATUS[0]} -eq 0 )
( cd runner && ocamlfind ocamlopt -w -a -inline 100 model.mli model.ml main.ml -o runner.exe )
( cd harness && cargo build --offline --quiet 2>&1 | tail -5 && cargo build --offline --quiet --release 2>&1 | tail -5 )
echo setup-ok
