#!/bin/bash
# tools/batch_seed.sh <dir> <suffix> <prop>... : confirm each finished seed in its scratch worktree <dir>/<prop>, file it under
# seeded/<prop>-<suffix>, run the property's own quick check against it, then remove the worktree and its build output
dir=$1; suf=$2; shift 2
for p in "$@"; do
  wt=$dir/$p
  [ -f $wt/OUT/patch.diff ] || { echo "$p: no patch"; continue; }
  python3 /verif/tools/confirm_seed.py $wt $p $p-$suf 2>&1 | tail -1 | cut -c1-400
  if [ -d /verif/seeded/$p-$suf ]; then
    /verif/tools/try_patch.sh /verif/seeded/$p-$suf/patch.diff $p 2>&1 | grep -v "^$" | cut -c1-300
  fi
  git -C /repo worktree remove --force $wt && echo "$p: worktree removed"
done
