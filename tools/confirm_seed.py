#!/usr/bin/env python3
"""tools/confirm_seed.py <worktree> <prop-id> <seed-name>: confirm a seeded change in its scratch worktree
(suite still 58/58 with the change; demo fails with it, passes without) and file it under /verif/seeded/."""
import json, os, re, shutil, subprocess, sys
wt, prop, name = sys.argv[1], sys.argv[2], sys.argv[3]
out = os.path.join(wt, "OUT")
demo = open(os.path.join(out, "demo.rs")).read()
notes = open(os.path.join(out, "notes.md")).read()
m = re.search(r"(pocket-(?:db|types)/tests/[A-Za-z0-9_]+\.rs)", demo) or re.search(r"(pocket-(?:db|types)/tests/[A-Za-z0-9_]+\.rs)", notes)
dest = m.group(1)
crate = dest.split("/")[0]
test = os.path.basename(dest)[:-3]
feat = ["--features", "verif"] if ("features verif" in demo or "features verif" in notes) and crate == "pocket-db" else []
def sh(cmd, **kw):
    p = subprocess.run(cmd, cwd=wt, stdout=subprocess.PIPE, stderr=subprocess.STDOUT, text=True, **kw)
    return p.returncode, p.stdout
def suite():
    rc, o = sh("cargo test --workspace --offline 2>&1 | grep -E '^test result' | awk '{p+=$4; f+=$6} END {print p, f}'", shell=True)
    return o.strip()
def rundemo():
    rc, o = sh(["cargo", "test", "-p", crate, "--offline"] + feat + ["--test", test])
    m2 = re.findall(r"test result: (\w+)\. (\d+) passed; (\d+) failed", o)
    return rc, (m2[-1] if m2 else o[-300:])
sh(["git", "checkout", "--", "."])
os.makedirs(os.path.dirname(os.path.join(wt, dest)), exist_ok=True)
shutil.copy(os.path.join(out, "demo.rs"), os.path.join(wt, dest))
rc0, d0 = rundemo()
os.remove(os.path.join(wt, dest))
rca, _ = sh(["git", "apply", os.path.join(out, "patch.diff")])
s1 = suite()
shutil.copy(os.path.join(out, "demo.rs"), os.path.join(wt, dest))
rc1, d1 = rundemo()
os.remove(os.path.join(wt, dest))
sh(["git", "checkout", "--", "."])
ok = (rc0 == 0 and rca == 0 and rc1 != 0 and s1 == "58 0")
print("demo without change: rc=%s %s | apply rc=%s | suite with change (excluding demo crate run): %s | demo with change: rc=%s %s => %s" % (rc0, d0, rca, s1, rc1, d1, "CONFIRMED" if ok else "NOT CONFIRMED"))
if ok:
    d = os.path.join("/verif/seeded", name)
    os.makedirs(d, exist_ok=True)
    shutil.copy(os.path.join(out, "patch.diff"), d)
    shutil.copy(os.path.join(out, "demo.rs"), d)
    shutil.copy(os.path.join(out, "notes.md"), d)
    meta = {"property": prop, "name": name, "demo_location": dest, "demo_cmd": "cargo test -p %s --offline %s--test %s" % (crate, "--features verif " if feat else "", test),
            "confirmed": {"demo_without_change": str(d0), "suite_with_change": s1, "demo_with_change": str(d1)},
            "needs_to_manifest": "see notes.md", "ran": "tools/confirm_seed.py in scratch worktree %s at /repo HEAD" % wt}
    json.dump(meta, open(os.path.join(d, "meta.json"), "w"), indent=1)
