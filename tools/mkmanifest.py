#!/usr/bin/env python3
"""Regenerates /verif/MANIFEST.json from the table below (claimed checks) + properties.jsonl."""
import json, os
V = os.path.dirname(os.path.dirname(os.path.abspath(__file__)))
props = [json.loads(l) for l in open(os.path.join(V, "properties.jsonl"))]

CLAIMED = {
 "C06": dict(engine="codec-diff", design="DESIGN.md 5 C06",
   text="Coq theorem C06_matches_spec: for every well-formed filter and event of any size that fits the length fields, the model of Filter::event_matches run on the binary encodings returns exactly the NIP-01 specification's answer (never error/panic/out-of-fuel). Model and encoders are tied to /repo on every run: same parts -> OwnedFilter::new/OwnedEvent::new bytes vs enc_filter/enc_event, event_matches vs model vs spec.",
   note="Trusted: Coq kernel; hand-written model (Access.v, Layout.v) of filter.rs/tags.rs/event.rs accessors; extraction (ExtrOcamlBasic); harness; transfer to the code only as strong as the sampled agreement. Nameless constraints excluded (boundary Example).",
   technique="Coq proof model = spec (induction over tag lists) + differential correspondence model/impl + spec oracle"),
 "C19": dict(engine="codec-diff", design="DESIGN.md 5 C19",
   text="Coq theorems (9) on the from_parts constructors of Tags/Event/Filter: parts that fit the length fields and a large-enough buffer give Ok, the encoding sits at the front of the buffer, the rest of the buffer is untouched, and every accessor/iterator model run on the encoding returns exactly the parts (all sizes, unbounded N); parts that do not fit are refused (ERange), a too-small buffer gives EBuf - never Panic. Tied to /repo by a differential run: guarded caller buffers with three prior fills, every output length around the required size, both sides of every u16 boundary (70,000-byte strings, 16383 tags, 65536 kinds/ids), plus an oracle written independently in python.",
   note="Trusted: Coq kernel; models Ctor.v/Layout.v/Access.v; extraction; harness. The u32 (4 GiB) boundary is covered by the theorems only. JSON constructors: see C01/C03/C07; sign_new: C08. PARTIAL until those are claimed.",
   technique="Coq proof (accessors on encodings = parts; refusal of oversize/small buffer) + differential correspondence + independent python oracle"),
 "C20": dict(engine="codec-diff", design="DESIGN.md 5 C20",
   text="Coq theorems (12) on the Hll8 model: merge commutative/associative/idempotent, add idempotent and order-independent for whole insertion sequences (Permutation), sketch(A++B)=merge, offset range, u8 rho bound, hex export/import identity, import total on arbitrary bytes. PARTIAL: the floating-point estimator (never panics, empty=0, 40% envelope) is outside the model and is checked on the implementation only (both build profiles, every single-register extreme, seeded statistical trials).",
   note="Trusted: Coq kernel; model Hll.v/Hex.v of hll8.rs/macros.rs; extraction; harness. Not modelled: f64 arithmetic, libm ln/log2/round; envelope is a statistical test.",
   technique="Coq proof of lattice/set laws on the register model + differential correspondence (registers) + law oracle on the implementation"),
}

checks = []
for pid, c in sorted(CLAIMED.items()):
    checks.append({
        "property_id": pid,
        "quick_cmd": "./check %s --tier quick" % pid,
        "thorough_cmd": "./check %s --tier thorough" % pid,
        "evidence_file": "evidence/%s.json" % pid,
        "replay_cmd_template": "./check %s --replay {path}" % pid,
        "engine": c["engine"],
        "level_claimed": {"category": "proof", "text": c["text"], "design_ref": c["design"]},
        "level_note": c["note"],
        "technique": c["technique"],
    })
na = [{"property_id": p["id"], "reason": "check not built yet in this session (work in progress; planned per DESIGN.md section 5/11)"}
      for p in props if p["id"] not in CLAIMED]
hooks_commits = []
hc = os.path.join(V, "tools", "hook_commits.txt")
if os.path.exists(hc):
    hooks_commits = [l.strip() for l in open(hc) if l.strip()]
engines = {}
for pid, c in CLAIMED.items():
    engines.setdefault(c["engine"], []).append(pid)
m = {"version": 1, "setup_cmd": "./setup.sh",
     "hooks": {"guard": "cargo feature `verif` of pocket-db",
               "enable": "harness/Cargo.toml: pocket-db = { path = \"/repo/pocket-db\", features = [\"verif\"] }",
               "baseline_off_cmd": "cd /repo && cargo test --workspace --no-fail-fast --offline",
               "source_commits": hooks_commits, "add_only": True},
     "engines": [{"name": "coq", "path": "coq/", "serves_properties": sorted(CLAIMED), "kind_free_text": "Coq 8.16.1 development: models, specs, theorems, extraction"}] +
                [{"name": k, "path": "gen/", "serves_properties": sorted(v), "kind_free_text": "differential run of the extracted model vs the implementation (harness/, runner/) with spec oracle"} for k, v in sorted(engines.items())],
     "checks": checks,
     "notes": "See DESIGN.md. ./check Cxx --tier quick|thorough [--replay F]; VERIF_SEED seeds all generators.",
     "not_applicable": na}
json.dump(m, open(os.path.join(V, "MANIFEST.json"), "w"), indent=1)
print("manifest: %d claimed, %d not_applicable" % (len(checks), len(na)))
