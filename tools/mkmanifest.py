#!/usr/bin/env python3
"""Regenerates /verif/MANIFEST.json from the table below (claimed checks) + properties.jsonl."""
import json, os
V = os.path.dirname(os.path.dirname(os.path.abspath(__file__)))
props = [json.loads(l) for l in open(os.path.join(V, "properties.jsonl"))]

CLAIMED = {
 "C06": dict(engine="codec-diff", design="DESIGN.md 5 C06",
   text="Coq theorem C06_matches_spec: for every well-formed filter and event of any size that fits the length fields, the model of Filter::event_matches run on the binary encodings returns exactly the NIP-01 specification's answer (never error/panic/out-of-fuel). Model and encoders are tied to /repo on every run: same parts -> OwnedFilter::new/OwnedEvent::new bytes vs enc_filter/enc_event, event_matches vs model vs spec.",
   note="Trusted: Coq kernel; hand-written model (Access.v, Layout.v) of filter.rs/tags.rs/event.rs accessors; extraction (ExtrOcamlBasic); harness; transfer to the code only as strong as the sampled agreement. Nameless constraints excluded (boundary Example).",
   technique="Coq proof model = spec (induction over tag lists) + differential correspondence model/impl + spec oracle"),
 "C19": dict(engine="codec-diff", design="DESIGN.md 5 C19",
   text="Coq theorems (9) on the from_parts constructors of Tags/Event/Filter: parts that fit the length fields and a large-enough buffer give Ok, the encoding sits at the front of the buffer, the rest of the buffer is untouched, and every accessor/iterator model run on the encoding returns exactly the parts (all sizes, unbounded N); parts that do not fit are refused (ERange), a too-small buffer gives EBuf - never Panic. Tied to /repo by a differential run: guarded caller buffers with three prior fills, every output length around the required size, both sides of every u16 boundary (70,000-byte strings, 16383 tags, 65536 kinds/ids), plus an oracle written independently in python.",
   note="Trusted: Coq kernel; models Ctor.v/Layout.v/Access.v; extraction; harness. The u32 (4 GiB) boundary is covered by the theorems only. JSON constructors: see C01/C03/C07; sign_new: C08. PARTIAL until those are claimed.",
   technique="Coq proof (accessors on encodings = parts; refusal of oversize/small buffer) + differential correspondence + independent python oracle"),
 "C20": dict(engine="codec-diff", design="DESIGN.md 5 C20",
   text="Coq theorems (12) on the Hll8 model: merge commutative/associative/idempotent, add idempotent and order-independent for whole insertion sequences (Permutation), sketch(A++B)=merge, offset range, u8 rho bound, hex export/import identity, import total on arbitrary bytes. PARTIAL: the floating-point estimator (never panics, empty=0, 40% envelope) is outside the model and is checked on the implementation only (both build profiles, every single-register extreme, seeded statistical trials).",
   note="Trusted: Coq kernel; model Hll.v/Hex.v of hll8.rs/macros.rs; extraction; harness. Not modelled: f64 arithmetic, libm ln/log2/round; envelope is a statistical test.",
   technique="Coq proof of lattice/set laws on the register model + differential correspondence (registers) + law oracle on the implementation"),
}

DBNOTE = "Trusted: Coq kernel; hand-written models Db.v (the store over LMDB-as-finite-ordered-maps with a 511-byte key limit, transactions as private table copies, object-level append-only log) and ADb.v (abstract store); extraction; harness/runner/python judge. Transfer to the code only as strong as the sampled agreement of this run (impl vs Db.v exact per aspect; impl vs ADb.v oracle). LMDB internals, mmap/kernel behaviour assumed."
DBTECH = "Coq proofs by induction over arbitrary operation lists (invariants / monotone history) + differential correspondence impl vs concrete model + abstract-store oracle on every generated history"
for pid, text in {
 "C04": "Coq theorems (4) on the append-only log model: an offset that reads back an event reads back the same event after ANY later operations (stores incl. growth, removals, deletions, vanish, reopen), successful stores return fresh 8-aligned strictly increasing offsets (never reused), reopen is the identity. By-id read-back and the byte level (marker, padding, growth) are covered by the correspondence run in BOTH build profiles (debug: 2 KiB chunks, growth every few stores), which re-reads every offset ever returned after every op.",
 "C05": "PARTIAL proof: Coq theorem on the specification of a query (results retrievable+matching+screened, newest first, count=min(limit,qualifying), completeness of the unlimited answer). The refinement of the seven query plans to that specification is not yet a theorem; it is decided per run by the differential check: impl vs the concrete model of the plans (exact) and impl vs the specification modulo ties at the cut (oracle), both profiles, incl. inverted/future windows, limit 0..n, screening tables.",
 "C09": "Coq theorems (6) on the abstract store for ALL histories: at most one retrievable event per replaceable address and unique ids in every reachable state (induction over operation lists), a successful store removes exactly the holders of its own address and nothing else, an older event is refused and changes nothing, other addresses (any byte/length of d, author, kind) are untouched, kind classification. Tied to the code by the differential run (store results, every id/address observation) and a 65536-kind sweep.",
 "C10": "Coq theorems (4) on the abstract store: for every reachable state and every kind-5 request with any tag list, an event of a different author stays retrievable, gets no id marker, and no address of another author gets or changes a marker; a refused request rolls back completely. Tied to the code by the differential run with deletion-heavy histories.",
 "C11": "Coq theorems (6) on the abstract store for every continuation: deletion times are monotone, an event covered by an address deletion or marked by id is unretrievable and refused (deleted/duplicate) forever, no retrievable event is ever covered, accepted requests mark the ids they name, newer events are never refused as deleted. Tied to the code by the differential run (1-4 requests per id/address in every arrival order, reopen/rebuild continuations).",
 "C12": "Coq theorems (3): whenever the model's store_event fails (any error, panic) the committed tables - all that lookups, queries, markers and counters read - are unchanged, only the log may have grown; old offsets keep reading the same events; the abstract store is literally unchanged. Tied to the code by histories with >= 50% failing stores and a full observation dump compared before/after each failure on the implementation itself.",
 "C16": "PARTIAL proof: reopen is the identity on the model; rebuild leaves the old log+tables as backup, copies extra tables, and the new event map holds exactly the events of the id index, 8-aligned after the header (compactness formula). That rebuild preserves the abstract state is decided per run by the differential check: full observation dump (every id, address marker with time, counters, extra tables, query battery) before vs after reopen/rebuild at random positions, on the implementation and vs the model.",
 "C17": "PARTIAL proof: Coq theorems (7) at table level: range scans return exactly the closed key interval in ascending order; Db.index/deindex are put_all/del_all of the event's key lists; deindex removes exactly what index added (membership and count) and indexing fresh keys adds one entry per distinct key. The global invariant over all histories is decided per run: after every op the entry counters must equal the retrievable-event count (id/ci/ac/akc) and the distinct (letter, padded value) count (tc/atc/ktc), and own-field filter shapes are queried.",
 "C18": "Coq theorems (4) on the abstract store: remove/vanish remove exactly their targets (iff characterisation) and leave markers and extra tables untouched, a removed event is not refused as duplicate nor newly as deleted, ephemeral events are accepted but never retrievable. Tied to the code by removal/vanish-heavy histories (gift wraps naming the key first / later / as non-first value / upper-case).",
}.items():
    CLAIMED[pid] = dict(engine="db-diff", design="DESIGN.md 5 " + pid, text=text, note=DBNOTE, technique=DBTECH)

CONOTE = "Trusted: Coq kernel; hand-written models JsonParse.v (json_parse.rs, parse_json_event, parse_json_filter, writers), Escape.v (json_escape/json_unescape/utf8), Hex.v, Codec.v; extraction; harness/runner/python judge; CPython json and hashlib as independent oracles; secp256k1 as is. Transfer to the code only as strong as the sampled agreement of this run."
for pid, (text, tech) in {
 "C01": ("PARTIAL proof: Coq theorems (4) that the integer members are read as exactly the value of their digit run and rejected - never wrapped - when they do not fit (kind > 65535, created_at >= 2^64). The parse/render theorem over the whole text grammar is not yet proved; faithfulness is decided per run: event texts rendered from the abstract syntax (random member orders / all 5040 in thorough, whitespace in every slot, every escape spelling, hex case, unknown members with nested values, trailing bytes, integer and tag-size boundaries, exact and larger buffers with three fills, mutated texts) are parsed by the implementation (both profiles), by the Coq parser model (exact agreement required) and by python's json module (independent oracle for all seven accessors and the consumed length).",
         "Coq proof (integer readers) + differential correspondence impl vs parser model + independent JSON parser oracle"),
 "C02": ("PARTIAL proof: hex round trip and 'the binary form is a function of the field values alone, independent of prior buffer contents' (from_parts/accessor theorems). Losslessness through the string escaper and canonicity across texts are decided per run: 5 texts per event differing in order/whitespace/escapes/unknown members into buffers with three fills + Event::from_parts must be byte-identical (== and Hash agree); as_json output must be valid JSON (python json) with the same seven values and parse back byte-identically; exact agreement with the model.",
         "Coq proof (hex, encoding is a function of fields) + differential correspondence + byte-equality/independent-parser oracle"),
 "C03": ("PARTIAL proof: Coq theorems (7) for ALL byte strings and capacities: json_unescape/json_escape never panic or exhaust fuel, unescape consumes <= input and writes <= capacity, hex decoding and address parsing are total and yield well-formed bytes. Totality of the event/filter/tags parser models is decided per run by a structured malformed stream (every prefix, single-byte corruptions incl. >= 0x80, deletions, nesting to 1.5M levels with the default 8 MiB stack, digit runs 1..40, 65534-65536 tag values, every output length 0..needed+16, 64 guard bytes each side) in both build profiles; accepted values are pushed through every accessor/serialiser. Real-memory effects beyond guard bytes cannot be exhibited by a Gallina model.",
         "Coq proof (string/hex/address layers, explicit Panic/OutOfFuel outcomes) + differential correspondence over a structured malformed stream, both profiles, guard bytes"),
 "C07": ("PARTIAL proof: integer members read as the value of their digit run, >= 2^64 rejected, accepted values fit. Faithfulness, order independence and the as_json round trip are decided per run: all 52x52 ordered letter pairs, random subsets/orders of members, escapes, unknown members, integer boundaries; python json as independent parser of both the input and as_json's output; exact agreement with the filter-parser model; both profiles.",
         "Coq proof (integer readers) + differential correspondence + independent JSON parser oracle"),
 "C08": ("PARTIAL proof: the canonical serialisation is the Coq function Codec.canon, total for every event, of the NIP-01 shape (theorem). That the id equals SHA-256 of it is decided per run against python's hashlib on the model's output; that verify accepts every sign_new event and the repository's fixture events and rejects every single-field mutation (bits of id/pubkey/sig, created_at+-1, kind+-1, every tag string, tag split/merge/swap/add, content edits, newline spelling) is decided against the real secp256k1. SHA-256 collision resistance and BIP-340 unforgeability are assumptions.",
         "Coq model of the canonical serialisation + independent SHA-256 oracle + mutation enumeration on the implementation"),
}.items():
    CLAIMED[pid] = dict(engine="codec-diff", design="DESIGN.md 5 " + pid, text=text, note=CONOTE, technique=tech)

CLAIMED["C13"] = dict(engine="crash", design="DESIGN.md 5 C13",
  text="Coq theorems (5) on the persistent-step model: every state a kill inside store_event can leave has the committed tables of before or after (never a mixture), an only-grown well-formed log (every index entry below the end marker at a whole event); removal is before-or-after; vanish passes only through whole removals; every interruption of store creation recovers to the empty store; the invariants are preserved by all later operations. Tied to the code with the verif hooks: step-list conformance of every op (append before commit, checks inside the write transaction), then a child process is _exit()ed at EVERY occurrence of EVERY named point of the last operation (and of store creation); the parent reopens, dumps everything observable, stores, queries, reopens again, and the whole observation + continuation must equal that of one of the states the model allows. PARTIAL: LMDB commit atomicity/lock recovery and page-cache behaviour on kill are assumed and observed, not proved.",
  note="Trusted: Coq kernel; Crash.v/Db.v models; hooks (cargo feature verif, add-only commit); extraction; harness (child processes, libc::_exit); python judge. A power cut (as opposed to a process kill) is out of scope.",
  technique="Coq proof on a persistent-step model + fault enumeration at every hook point with membership in the model's allowed set")

CLAIMED["C15"] = dict(engine="refs", design="DESIGN.md 5 C15",
  text="PARTIAL proof with a KNOWN FINDING. Proved: the bytes at a returned offset never change under any later operations (append-only log), and outside the known class (no growth step relocates the mapping) every reference keeps its address; the known class is provably non-empty (witness lemma): MmapAppend::resize remaps with may_move(true), so the property as stated is false of the faithful model and of the code (reproduced on every run in the debug profile: KNOWN-FINDING line, known_findings.txt class remap-moves-mapping). The check still raises a VIOLATION for any other way a reference changes: bytes changed, address moved without growth, by-id path at a different address. Address stability itself is an observation of the OS, not a theorem.",
  note="Trusted: Coq kernel; Refs.v/Db.v; harness comparing addresses of fresh lookups (never dereferencing stale references); the kernel's mremap behaviour is the oracle flag of the model.",
  technique="Coq proof (log immutability; address stability relative to a may-move oracle, with refutation witness) + address/bytes observation on the implementation; known-findings file")

CLAIMED["C14"] = dict(engine="sched", design="DESIGN.md 5 C14",
  text="Coq theorems (3) on the two-step interleaving model: for EVERY schedule (any list of thread ids) and any thread programs, the responses at the linearization points (commit of writers, snapshot of readers) equal those of executing the operations one at a time in that order and the final state is the sequential final state; the shared state changes only at a commit step; whatever a snapshot reaches stays readable forever. Tied to the code with the verif hooks as pause points: a schedule controller parks 2-4 real threads at every point and releases one at a time (seeded), the recorded schedule yields each operation's linearization point, the operations are replayed sequentially in that order on the extracted Coq model, and every concurrent response and the final observation dump must equal the sequential ones; plus free-running multi-core runs judged by invariants (one winner of N identical submissions, consistent indexes, no torn reads). PARTIAL: memory model, LMDB reader table, remap hazard are outside the model.",
  note="Trusted: Coq kernel; Conc.v/Db.v; hooks; the schedule controller (tracks who holds the LMDB write lock so that no thread is released into a blocking acquire); extraction; python linearization checker.",
  technique="Coq proof of linearizability of an interleaving model + schedule exploration with sequential replay on the extracted model")

checks = []
for pid, c in sorted(CLAIMED.items()):
    checks.append({
        "property_id": pid,
        "quick_cmd": "./check %s --tier quick" % pid,
        "thorough_cmd": "./check %s --tier thorough" % pid,
        "evidence_file": "evidence/%s.json" % pid,
        "replay_cmd_template": "./check %s --replay {path}" % pid,
        "engine": c["engine"],
        "level_claimed": {"category": "proof", "text": c["text"], "design_ref": c["design"]},
        "level_note": c["note"],
        "technique": c["technique"],
    })
na = [{"property_id": p["id"], "reason": "check not built yet in this session (work in progress; planned per DESIGN.md section 5/11)"}
      for p in props if p["id"] not in CLAIMED]
hooks_commits = []
hc = os.path.join(V, "tools", "hook_commits.txt")
if os.path.exists(hc):
    hooks_commits = [l.strip() for l in open(hc) if l.strip()]
engines = {}
for pid, c in CLAIMED.items():
    engines.setdefault(c["engine"], []).append(pid)
m = {"version": 1, "setup_cmd": "./setup.sh",
     "hooks": {"guard": "cargo feature `verif` of pocket-db",
               "enable": "harness/Cargo.toml: pocket-db = { path = \"/repo/pocket-db\", features = [\"verif\"] }",
               "baseline_off_cmd": "cd /repo && cargo test --workspace --no-fail-fast --offline",
               "source_commits": hooks_commits, "add_only": True},
     "engines": [{"name": "coq", "path": "coq/", "serves_properties": sorted(CLAIMED), "kind_free_text": "Coq 8.16.1 development: models, specs, theorems, extraction"}] +
                [{"name": k, "path": "gen/", "serves_properties": sorted(v), "kind_free_text": "differential run of the extracted model vs the implementation (harness/, runner/) with spec oracle"} for k, v in sorted(engines.items())],
     "checks": checks,
     "notes": "See DESIGN.md. ./check Cxx --tier quick|thorough [--replay F]; VERIF_SEED seeds all generators.",
     "not_applicable": na}
json.dump(m, open(os.path.join(V, "MANIFEST.json"), "w"), indent=1)
print("manifest: %d claimed, %d not_applicable" % (len(checks), len(na)))
