# specs for tools/mkprops.py: SPECS[pid] = (header, imports, [(name, statement, lemma, doc)], tail)
DBIMP = "From Pocket Require Import Db ADb ADbProofs DbProofs.\nFrom Coq Require Import Permutation."

SPECS["C04"] = ("""property C04: stored events read back byte-identical, forever.
   Object-level log model (Db.v): the log is append-only, so an offset that reads back an event
   keeps reading back the same event after ANY later operations (stores incl. growth, removals,
   deletions, vanish, extra-table writes, reopen); offsets returned by successful stores are fresh,
   8-aligned and strictly increasing, hence pairwise distinct.  By-id lookup: the id index invariant
   (DbIdInv.v, induction over all concrete histories) - every id entry points at a logged event with that id.
   BYTE LEVEL (LogBytes.v: the content of the file event.map - end marker, padding, growth by CHUNK with
   the remembered length, copy beyond the marker, marker update; LogBytesProofs.v): the byte-level store
   REFINES the object-level log for every CHUNK > 0 that is a multiple of 8 (2048 debug, 4 MiB release):
   same offsets, same end marker, es_get returns the stored encoding byte for byte, after any number of
   further stores and growth steps; lifted to every history of the store model (bytes_refine_history).""",
  DBIMP + "\nFrom Pocket Require Import DbIdInv LogBytes LogBytesProofs.", [
  ("C04_readback_forever",
   "forall s off e ops, get_event_by_offset s off = Ok e -> get_event_by_offset (c_run ops s) off = Ok e",
   "readback_forever", "for every continuation [ops]: store / remove / vanish / xput / reopen in any order"),
  ("C04_store_returns_fresh_offset",
   "forall s e s' off, log_inv s -> store_event s e = (s', Ok off) ->\n    log_end s <= off /\\ off mod 8 = 0 /\\ get_event_by_offset s' off = Ok e /\\ (forall o x, In (o, x) (log s) -> o < off)",
   "store_returns_fresh_offset", ""),
  ("C04_offsets_never_reused",
   "forall names ops1 e1 s1 off1 ops2 e2 s2 off2,\n    store_event (c_run ops1 (db_init names)) e1 = (s1, Ok off1) ->\n    store_event (c_run ops2 s1) e2 = (s2, Ok off2) -> off1 < off2",
   "offsets_never_reused", "any two successful stores of one history (one store file)"),
  ("C04_reopen_identity", "forall s, reopen s = s", "reopen_identity", "reopen forgets only the volatile file length, which the model does not keep"),
  ("C04_by_id_lookup_sound_and_total",
   "forall ops names id, let s := c_run ops (db_init names) in\n    (get_event_by_id s id = Ok None /\\ has_event s id = false) \\/\n    (exists e off, get_event_by_id s id = Ok (Some e) /\\ e_id e = id /\\ has_event s id = true /\\\n                   get_event_by_offset s off = Ok e /\\ t_get (t_i (committed s)) id = Some off)",
   "by_id_never_fails", "every reachable state of the CONCRETE store: a lookup by id never errs, returns an event with exactly that id, the same event its index offset reads back"),
  ("C04_stored_event_found_by_id",
   "forall ops names e s' off, let s := c_run ops (db_init names) in\n    store_event s e = (s', Ok off) -> is_ephemeral (e_kind e) = false -> e_kind e <> 5 ->\n    get_event_by_id s' (e_id e) = Ok (Some e) /\\ has_event s' (e_id e) = true",
   "stored_event_found_by_id", "after any history; deletion requests (which may name themselves) are covered by the correspondence run"),
  ("C04_bytes_store_refines",
   "forall chunk m lg E e, 0 < chunk -> chunk mod 8 = 0 -> R m lg E -> wf_aevent e -> fits_event e ->\n    len (file m) + event_size e + chunk < B64 ->\n    exists m', es_store chunk m (enc_event e) = Ok (m', align8 E)\n      /\\ R m' ((align8 E, e) :: lg) (align8 E + event_size e)\n      /\\ len (file m) <= len (file m') <= len (file m) + event_size e + chunk",
   "es_store_refines", "byte-level store_event (padding, the retry loop with set_len/remap, copy, marker) = object-level log_append: offset align8 E, new end, every earlier event still in place; R is the refinement relation (file = marker ++ used ++ free)"),
  ("C04_bytes_readback_forever",
   "forall chunk m lg E es off x, 0 < chunk -> chunk mod 8 = 0 -> R m lg E ->\n    Forall (fun e => wf_aevent e /\\ fits_event e) es -> len (file m) + total_size chunk es < B64 ->\n    In (off, x) lg -> off < E ->\n    exists m', stores chunk m es = Some m' /\\ es_get m' off = Ok (enc_event x) /\\ es_get m off = Ok (enc_event x)",
   "readback_forever_bytes", "the BYTES read at an offset are the stored encoding, before and after any list of further stores (any number of growth steps in between)"),
  ("C04_bytes_refine_every_history",
   "forall chunk names ops, 8 <= chunk -> chunk mod 8 = 0 ->\n    Forall wfe (ops_events ops) -> chunk + total_size chunk (ops_events ops) < B64 ->\n    let s := c_run ops (db_init names) in\n    exists m, bytes_of_log chunk (log s) = Some m /\\ Rdb m s\n      /\\ (forall off e, get_event_by_offset s off = Ok e -> es_get m off = Ok (enc_event e))\n      /\\ es_end m = log_end s /\\ es_open chunk (file m) = m",
   "bytes_refine_history", "every history of the concrete store model: the file its appends produce exists (no append ever fails for lack of room or alignment), refines the log, reads back byte for byte, and reopening it is the identity. bytes_of_log is the function the correspondence check runs against the real file"),
  ], """(* non-vacuity: a history crossing several stores *)
Check demo_growth.
Check demo_R : R (es_open 2048 []) [] HEADER.
Example C04_example :
  let e := mkE (repeat 1 32) (repeat 2 32) (repeat 3 64) 1 5 [] [7] in
  let e2 := mkE (repeat 9 32) (repeat 2 32) (repeat 3 64) 1 6 [] [7;7;7] in
  exists s1 s2, store_event (db_init []) e = (s1, Ok 8) /\\ store_event s1 e2 = (s2, Ok 168) /\\
                get_event_by_offset s2 8 = Ok e.
Proof. vm_compute. eexists. eexists. repeat split. Qed.
""")

SPECS["C09"] = ("""property C09: at most one event per replaceable address; newer wins, older refused.
   Theorems about the abstract store ADb.v for ALL histories (induction over operation lists).
   addr_of e = (kind, author, "") for kinds 0, 3, 10000-19999; (kind, author, d) for kinds
   30000-39999 with a d tag; equality of addresses is equality of all bytes and of the length.""",
  DBIMP + "\nFrom Pocket Require Import DbIdInv DbIndexInv KeyOrder DbAddr.\nFrom Pocket Require DbCovered DbOlder.", [
  ("C09_at_most_one",
   "forall ops names e1 e2 a, let st := a_run ops (a_init names) in\n    In e1 (live st) -> In e2 (live st) -> addr_of e1 = Some a -> addr_of e2 = Some a -> e1 = e2",
   "at_most_one_per_address", "every reachable state, every address"),
  ("C09_ids_unique",
   "forall ops names e1 e2, let st := a_run ops (a_init names) in\n    In e1 (live st) -> In e2 (live st) -> e_id e1 = e_id e2 -> e1 = e2",
   "ids_unique_reachable", ""),
  ("C09_newer_displaces_exactly",
   "forall st e st', a_store st e = (st', Ok tt) -> e_kind e <> 5 ->\n    live st' = (if is_ephemeral (e_kind e) then (fun l => l) else cons e)\n                 (match addr_of e with Some a => filter (fun x => negb (at_addr a x)) (live st) | None => live st end)\n    /\\ del_ids st' = del_ids st /\\ del_addrs st' = del_addrs st /\\ a_extra st' = a_extra st",
   "store_displaces_exactly", "a successful store removes exactly the holders of its own address and nothing else"),
  ("C09_older_refused",
   "forall st e h a, In h (live st) -> addr_of e = Some a -> addr_of h = Some a -> e_created e < e_created h ->\n    exists x, a_store st e = (st, Err x) /\\ (x = EDup \\/ x = EDeleted \\/ x = EReplaced)",
   "older_refused", "strictly older than the holder: refused, state unchanged"),
  ("C09_addresses_independent",
   "forall st e st' x, a_store st e = (st', Ok tt) -> e_kind e <> 5 -> In x (live st) -> addr_of x <> addr_of e -> In x (live st')",
   "other_addresses_untouched", "holders of any other address (any byte or the length of d, author, kind) and non-replaceable events survive"),
  ("C09_concrete_stored_event_is_sole_holder",
   "forall ops names e s' off x, ops_wfe ops -> wf_ev e -> let s := c_run ops (db_init names) in\n    store_event s e = (s', Ok off) -> is_ephemeral (e_kind e) = false -> e_kind e <> 5 ->\n    get_event_by_id s' (e_id x) = Ok (Some x) -> same_address x e -> x = e",
   "DbCovered.stored_event_is_sole_holder", "NEWER WINS on the concrete store: after a successful store the stored event is the only retrievable event of its address - whatever held the address before has been replaced"),
  ("C09_concrete_older_event_refused",
   "forall ops names e h, ops_wfe ops -> wf_ev e -> let s := c_run ops (db_init names) in\n    get_event_by_id s (e_id h) = Ok (Some h) -> same_address h e -> e_created e < e_created h ->\n    exists x, store_event s e = (s, Err x) /\\ (x = EDup \\/ x = EDeleted \\/ x = EReplaced)",
   "DbOlder.older_event_refused", "OLDER REFUSED on the concrete store, every reachable state: an event strictly older than the retrievable holder of its address (replaceable kinds; parameterized kinds with the same d) is refused - as duplicate, deleted or replaced - and the store is unchanged"),
  ("C09_at_most_one_concrete",
   "forall ops names e1 e2, ops_wfe ops -> let s := c_run ops (db_init names) in\n    get_event_by_id s (e_id e1) = Ok (Some e1) -> get_event_by_id s (e_id e2) = Ok (Some e2) ->\n    same_address e1 e2 -> e1 = e2",
   "at_most_one_per_address_concrete", "the CONCRETE store (index tables, padded/truncated keys, range scans in memcmp order), every reachable state: same author + same replaceable kind, or same author + same parameterized kind + same d (every byte and the length) => the same event"),
  ("C09_kind_classes",
   "forall k, (is_replaceable k = true <-> k = 0 \\/ k = 3 \\/ (10000 <= k < 20000)) /\\\n    (is_ephemeral k = true <-> 20000 <= k < 30000) /\\ (is_param_replaceable k = true <-> 30000 <= k < 40000)",
   "kind_classes", ""),
  ], """(* non-vacuity: d = "x" and d = "x\\\\0" are different addresses; the second store does not displace the first *)
Example C09_example :
  let a := repeat 2 32 in
  let e1 := mkE (repeat 1 32) a (repeat 3 64) 30000 5 [[[100]; [120]]] [] in
  let e2 := mkE (repeat 9 32) a (repeat 3 64) 30000 6 [[[100]; [120; 0]]] [] in
  exists st1 st2, a_store (a_init []) e1 = (st1, Ok tt) /\\ a_store st1 e2 = (st2, Ok tt) /\\ live st2 = [e2; e1].
Proof. vm_compute. eexists. eexists. repeat split. Qed.
""")

SPECS["C10"] = ("""property C10: a deletion request can never remove another author's events.
   Abstract store, any reachable state (AInv), any kind-5 request with any tag list.""",
  DBIMP + "\nFrom Pocket Require Import DbIdInv DbIndexInv KeyOrder DbAddr DbQuerySound DbQueryComplete DbDeletion DbForeign.", [
  ("C10_victim_survives",
   "forall st r v, AInv st -> In v (live st) -> e_pk v <> e_pk r -> e_kind r = 5 -> In v (live (fst (a_store st r)))",
   "victim_survives", "whatever the request names, wherever the foreign target appears, accepted or refused"),
  ("C10_no_foreign_marker",
   "forall st r v st', AInv st -> In v (live st) -> e_pk v <> e_pk r -> e_kind r = 5 -> a_store st r = (st', Ok tt) ->\n    (In (e_id v) (del_ids st') -> In (e_id v) (del_ids st)) /\\\n    (forall a, a_author a <> e_pk r -> del_time (del_addrs st') a = del_time (del_addrs st) a)",
   "no_foreign_marker", "no id marker on the victim, no address marker on any address of another author"),
  ("C10_invariant_reachable",
   "forall ops st, AInv st -> AInv (a_run ops st)", "a_run_inv", "AInv holds in every reachable state"),
  ("C10_refused_request_noop",
   "forall st e st' x, a_store st e = (st', Err x) -> st' = st", "a_store_err_noop", "a refused request (InvalidDelete at tag k) rolls back its earlier tags"),
  ("C10_concrete_deletion_spares_other_authors",
   "forall ops names ev s' off x, ops_wfe ops -> wf_ev ev -> e_kind ev = 5 ->\n    let s := c_run ops (db_init names) in\n    store_event s ev = (s', Ok off) ->\n    get_event_by_id s (e_id x) = Ok (Some x) -> e_pk x <> e_pk ev ->\n    get_event_by_id s' (e_id x) = Ok (Some x)",
   "deletion_spares_other_authors", "the CONCRETE store, every reachable state, a deletion request with ANY tag list (e and a tags, malformed, repeated, of any author): every retrievable event of another author is still returned by id afterwards"),
  ], """Example C10_example :
  let a := repeat 2 32 in let b := repeat 4 32 in
  let v := mkE (repeat 1 32) a (repeat 3 64) 1 5 [] [] in
  let own := mkE (repeat 8 32) b (repeat 3 64) 1 5 [] [] in
  let r := mkE (repeat 9 32) b (repeat 3 64) 5 6 [[[101]; write_hex (repeat 8 32)]; [[101]; write_hex (repeat 1 32)]] [] in
  exists st1 st2, a_store (a_init []) v = (st1, Ok tt) /\\ a_store st1 own = (st2, Ok tt) /\\
                  a_store st2 r = (st2, Err EInvalidDelete).
Proof. vm_compute. eexists. eexists. repeat split. Qed.
""")

SPECS["C11"] = ("""property C11: accepted deletions are permanent; deletion times never move backwards.
   Abstract store; every continuation [ops] (stores, further deletion requests in any timestamp
   order, removals, vanishes).  Reopen/rebuild are identities on the abstract state (C16).
   CONCRETE store (DbDeletion.v, DbCovered.v): markers only grow, deleted ids and covered events are refused for
   ever, and in every reachable state NO retrievable event is covered by an address deletion - the removal
   scans of a deletion request (author-kind range; author-#d range filtered by kind and exact d) reach every
   covered event the transaction can see - so an accepted address deletion is permanent in every continuation.
   Boundary: a request naming its OWN id (impossible for a correctly hashed event) marks the id
   while the request itself stays retrievable; such an event is then refused as duplicate.""",
  DBIMP + "\nFrom Pocket Require Import DbIdInv DbIndexInv KeyOrder DbAddr DbQuerySound DbQueryComplete DbDeletion DbForeign DbCovered.", [
  ("C11_time_monotone",
   "forall st ops a t, del_time (del_addrs st) a = Some t ->\n    exists t', del_time (del_addrs (a_run ops st)) a = Some t' /\\ t <= t'",
   "deletion_time_monotone", ""),
  ("C11_covered_forever",
   "forall st e ops, AInv st -> covered st e = true -> let st' := a_run ops st in\n    ~ In e (live st') /\\ exists x, a_store st' e = (st', Err x) /\\ (x = EDup \\/ x = EDeleted)",
   "covered_forever", "an event at a deleted address with created_at <= the deletion time: unretrievable and refused in every continuation"),
  ("C11_deleted_id_forever",
   "forall st e ops, In (e_id e) (del_ids st) -> let st' := a_run ops st in\n    exists x, a_store st' e = (st', Err x) /\\ (x = EDup \\/ x = EDeleted)",
   "deleted_id_forever", ""),
  ("C11_accepted_request_marks_id",
   "forall st r st' hexid id rest, e_kind r = 5 -> a_store st r = (st', Ok tt) ->\n    In ([101] :: hexid :: rest) (e_tags r) -> read_hex hexid 32 = Ok id -> In id (del_ids st')",
   "accepted_request_marks_id", ""),
  ("C11_none_covered_reachable",
   "forall ops names e, let st := a_run ops (a_init names) in In e (live st) -> covered st e = false",
   "none_covered_reachable", "no retrievable event is covered, in any reachable state"),
  ("C11_newer_not_refused",
   "forall st e st', ~ In (e_id e) (del_ids st) -> covered st e = false -> a_store st e = (st', Err EDeleted) -> False",
   "newer_not_refused", "events newer than every accepted deletion of their address are never refused as deleted"),
  ("C11_concrete_markers_only_grow",
   "forall ops s, del_le (committed s) (committed (c_run ops s))",
   "markers_only_grow", "the CONCRETE store, any state and any continuation: a deleted-id marker is never lost and no address deletion time ever decreases"),
  ("C11_concrete_deleted_id_refused_forever",
   "forall s id ops e, event_is_deleted s id = true -> e_id e = id -> let s' := c_run ops s in\n    event_is_deleted s' id = true /\\ (snd (store_event s' e) = Err EDup \\/ snd (store_event s' e) = Err EDeleted) /\\ fst (store_event s' e) = s'",
   "deleted_id_refused_forever", ""),
  ("C11_concrete_address_time_monotone",
   "forall s a t ops, naddr_is_deleted_asof s a = Some t -> exists t', naddr_is_deleted_asof (c_run ops s) a = Some t' /\\ t <= t'",
   "naddr_time_monotone", ""),
  ("C11_concrete_no_retrievable_event_is_covered",
   "forall ops names x a t, ops_wfe ops -> let s := c_run ops (db_init names) in\n    get_event_by_id s (e_id x) = Ok (Some x) -> addr_of x = Some a -> naddr_is_deleted_asof s a = Some t -> t < e_created x",
   "no_retrievable_event_is_covered", "the CONCRETE store, every reachable state: an event the id lookup returns whose address carries a deletion time is strictly newer than that time"),
  ("C11_concrete_no_retrievable_event_is_marked_deleted",
   "forall ops names x, ops_wfe ops -> let s := c_run ops (db_init names) in\n    get_event_by_id s (e_id x) = Ok (Some x) -> event_is_deleted s (e_id x) = true -> self_naming x",
   "no_retrievable_event_is_marked_deleted", "the CONCRETE store, every reachable state: an event the id lookup returns carries no deleted-id marker - the only exception being a deletion request that names its own id (impossible for a correctly hashed event; the boundary stated above). With deleted_id_refused_forever: a named id, once the request is accepted, is unretrievable and refused in every continuation"),
  ("C11_concrete_address_deletion_permanent",
   "forall ops names ops' x a t, ops_wfe ops -> ops_wfe ops' ->\n    let s := c_run ops (db_init names) in let s' := c_run ops' s in\n    naddr_is_deleted_asof s a = Some t -> addr_of x = Some a -> e_created x <= t ->\n    get_event_by_id s' (e_id x) <> Ok (Some x)",
   "address_deletion_permanent", "once an address carries deletion time t, in EVERY continuation (stores, further requests in any timestamp order, removals, vanish, reopen) no event of that address created at or before t is retrievable"),
  ("C11_concrete_covered_event_refused_forever",
   "forall s a t ops e, naddr_is_deleted_asof s a = Some t -> addr_of e = Some a -> e_created e <= t ->\n    let s' := c_run ops s in\n    (snd (store_event s' e) = Err EDup \\/ snd (store_event s' e) = Err EDeleted) /\\ fst (store_event s' e) = s'",
   "covered_event_refused_forever", "the CONCRETE store, any state and any continuation: once an address carries a deletion time t, every event of that address (replaceable: kind+author; parameterized: kind+author+d) created at or before t is refused as deleted (or duplicate) by every later store, and the refusal changes nothing"),
  ], """Example C11_example :
  let a := repeat 2 32 in
  let r1 := mkE (repeat 8 32) a (repeat 3 64) 5 500 [[[97]; [49;48;48;48;48;58] ++ write_hex a ++ [58]]] [] in
  let r2 := mkE (repeat 9 32) a (repeat 3 64) 5 300 [[[97]; [49;48;48;48;48;58] ++ write_hex a ++ [58]]] [] in
  let e := mkE (repeat 7 32) a (repeat 3 64) 10000 400 [] [] in
  exists st1 st2, a_store (a_init []) r1 = (st1, Ok tt) /\\ a_store st1 r2 = (st2, Ok tt) /\\
                  del_time (del_addrs st2) (mkAddr 10000 a []) = Some 500 /\\ a_store st2 e = (st2, Err EDeleted).
Proof. vm_compute. eexists. eexists. repeat split. Qed.
""")

SPECS["C12"] = ("""property C12: a store call that fails changes nothing observable.
   Concrete model: the committed tables are untouched; only the event log may have grown by the appended bytes
   (stats.event_bytes, explicitly outside the property).  For every reachable state this is lifted to what a caller
   can observe (DbFailedStore.v): every id-level and address-level read API, every counter but the byte count, the
   extra tables, and the answer of EVERY query (any filter, screen and scraping allowances, all seven plans) and of
   both address lookups are exactly as before.  Abstract store: the state is literally unchanged.""",
  DBIMP + "\nFrom Pocket Require Import DbIdInv DbIndexInv DbFailedStore.", [
  ("C12_failed_store_observations_unchanged",
   "forall ops names e s' r, let s := c_run ops (db_init names) in\n    store_event s e = (s', r) -> (forall off, r <> Ok off) ->\n    (forall id, has_event s' id = has_event s id) /\\\n    (forall id, event_is_deleted s' id = event_is_deleted s id) /\\\n    (forall id, get_event_by_id s' id = get_event_by_id s id) /\\\n    (forall a, naddr_is_deleted_asof s' a = naddr_is_deleted_asof s a) /\\\n    t_extra (committed s') = t_extra (committed s) /\\\n    removelast (stats s') = removelast (stats s) /\\\n    bak s' = bak s",
   "failed_store_observations_unchanged", "after ANY history, whatever the failure (duplicate, deleted, replaced, invalid delete at the k-th tag, key size, panic): every lookup by id, every deletion marker, every address marker, the extra tables and all nine entry counters are as before"),
  ("C12_failed_store_queries_unchanged",
   "forall ops names e s' r, ops_wf ops -> let s := c_run ops (db_init names) in\n    store_event s e = (s', r) -> (forall off, r <> Ok off) ->\n    (forall f screen now allow_scraping allow_limit allow_seconds,\n       find_events s' f screen now allow_scraping allow_limit allow_seconds\n       = find_events s f screen now allow_scraping allow_limit allow_seconds) /\\\n    (forall author k, find_replaceable_event s' author k = find_replaceable_event s author k) /\\\n    (forall a, find_param_replaceable_event s' a = find_param_replaceable_event s a)",
   "failed_store_queries_unchanged", "... and so is the answer of EVERY query: any filter, any screen, any scraping allowances, whichever of the seven plans serves it (the bytes a failed store appended lie beyond every offset an index holds), and of both address lookups"),
  ("C12_failed_store_noop",
   "forall s e s' r, store_event s e = (s', r) -> (forall off, r <> Ok off) ->\n    committed s' = committed s /\\ bak s' = bak s /\\ (s' = s \\/ s' = fst (log_append s e))",
   "store_event_failure_noop", "every failure: duplicate, deleted, replaced, invalid delete at tag k, key size, panic"),
  ("C12_old_offsets_unaffected",
   "forall s off e ops, get_event_by_offset s off = Ok e -> get_event_by_offset (c_run ops s) off = Ok e",
   "readback_forever", "so every index entry still leads to the same event"),
  ("C12_abstract_noop",
   "forall st e st' x, a_store st e = (st', Err x) -> st' = st", "a_store_err_noop", ""),
  ], "")

SPECS["C18"] = ("""property C18: explicit removal and vanish remove exactly their targets.
   Proved on the abstract store (remove/vanish exact, resubmission, ephemeral events) and on the CONCRETE store:
   remove_event takes exactly its target out of the id index (every other id, markers, extra tables, log untouched);
   vanish, for every reachable state with fewer than 2^32-1 events, makes unretrievable exactly the events the
   abstract store's vanishes predicate names (author = pk, or kind 1059 with a p tag whose first value is hex pk) -
   through both of its queries, whichever index serves them (DbVanish.v on top of DbQueryNewest.v).""",
  DBIMP + "\nFrom Pocket Require Import DbIdInv DbIndexInv KeyOrder DbAddr DbQuerySound DbQueryComplete DbDeletion DbForeign DbQueryNewest DbVanish.", [
  ("C18_remove_exact",
   "forall st id x, (In x (live (a_remove st id)) <-> In x (live st) /\\ e_id x <> id) /\\\n    del_ids (a_remove st id) = del_ids st /\\ del_addrs (a_remove st id) = del_addrs st /\\ a_extra (a_remove st id) = a_extra st",
   "remove_exact", "present, absent or already removed target"),
  ("C18_vanish_exact",
   "forall st pk x, (In x (live (a_vanish st pk)) <-> In x (live st) /\\ vanishes pk x = false) /\\\n    del_ids (a_vanish st pk) = del_ids st /\\ del_addrs (a_vanish st pk) = del_addrs st /\\ a_extra (a_vanish st pk) = a_extra st",
   "vanish_exact", "vanishes pk e := author = pk, or kind 1059 with a tag [p; hex pk; ...] (first value)"),
  ("C18_removed_event_resubmittable",
   "forall st e st' x, a_store (a_remove st (e_id e)) e = (st', Err x) -> x <> EDup /\\\n    (x = EDeleted -> In (e_id e) (del_ids st) \\/ covered st e = true)",
   "removed_event_resubmittable", "removal leaves no marker"),
  ("C18_ephemeral_never_retrievable",
   "forall st e st', a_store st e = (st', Ok tt) -> is_ephemeral (e_kind e) = true -> live st' = live st /\\ ~ In e (live st')",
   "ephemeral_never_retrievable", ""),
  ("C18_concrete_remove_exact",
   "forall s id s', id_inv s -> remove_event s id = (s', Ok tt) ->\n    get_event_by_id s' id = Ok None /\\ has_event s' id = false /\\\n    (forall id', id' <> id -> get_event_by_id s' id' = get_event_by_id s id' /\\ has_event s' id' = has_event s id') /\\\n    t_delids (committed s') = t_delids (committed s) /\\ t_naddr (committed s') = t_naddr (committed s) /\\\n    t_extra (committed s') = t_extra (committed s) /\\ log s' = log s",
   "remove_event_exact_concrete", "the CONCRETE store (id_inv holds in every reachable state): exactly the target leaves the id index; every other id, all markers, extra tables and the log are untouched"),
  ("C18_concrete_vanish_exact",
   "forall ops names pk s', ops_wfe ops -> let s := c_run ops (db_init names) in\n    length pk = 32%nat -> len (t_i (committed s)) < 4294967295 -> vanish s pk = (s', Ok tt) ->\n    (forall x, get_event_by_id s (e_id x) = Ok (Some x) ->\n       get_event_by_id s' (e_id x) = if doomed pk x then Ok None else Ok (Some x)) /\\\n    (forall id, get_event_by_id s id = Ok None -> get_event_by_id s' id = Ok None) /\\\n    unchanged_rest s s'",
   "vanish_exact_reachable", "the CONCRETE store, every reachable state with fewer than 2^32-1 events (the limit vanish passes to its queries): exactly the doomed events become unretrievable, every other event is still returned by id, markers / extra tables / log untouched"),
  ("C18_doomed_is_vanishes",
   "forall pk x, e_created x <= U64MAX -> doomed pk x = vanishes pk x",
   "doomed_vanishes", "the two filters vanish queries with denote the abstract predicate: author = pk, or kind 1059 with a tag [p; hex pk; ...]"),
  ], """Example C18_example :
  let pk := repeat 2 32 in
  let gw := mkE (repeat 1 32) (repeat 4 32) (repeat 3 64) 1059 5 [[[112]; write_hex pk]] [] in
  let near := mkE (repeat 9 32) (repeat 4 32) (repeat 3 64) 1059 5 [[[112]; [122]; write_hex pk]] [] in
  vanishes pk gw = true /\\ vanishes pk near = false.
Proof. vm_compute. split; reflexivity. Qed.
""")

SPECS["C05"] = ("""property C05: queries return exactly the matching events, newest first, newest-k under limit.
   Proved of the CONCRETE planner (Db.find_events, all seven plans).  For every state: soundness (results
   stored, matching, screened, newest first, duplicate-free, within the limit, redacted flag sound), no
   panic, scraping refusal only when justified.  For every reachable state and EVERY limit
   (DbQueryNewest.v, on top of the global index invariant, the memcmp order of the keys, at-most-one-
   per-address): every qualifying event is in the answer, or the answer is full and everything in it is at
   least as new - i.e. the answer is the limit newest qualifying events, ties at the cut arbitrary,
   whichever index serves the filter; this covers the per-scan counters, the moving since, the replaceable
   early stop and the early stop of the scrape plan.  DbQueryComplete.v is the special case of a limit that
   exceeds every table (answer = exactly the qualifying set).  Also: what the specification a_query means.
   PARTIAL only in the filters covered: 32-byte authors, u16 kinds, one-byte tag-constraint names (all
   that the JSON syntax can express); other filters constructible through from_parts, and the agreement
   of the model with the code, are decided per run against a_query modulo ties at the cut.""",
  DBIMP + "\nFrom Pocket Require Import DbQuerySound DbIdInv DbIndexInv KeyOrder DbAddr DbQueryComplete DbQueryNewest.", [
  ("C05_query_spec_meaning_partial",
   "forall st f screen,\n    (forall x, In x (a_query st f screen) -> In x (live st) /\\ spec_matches f x = true /\\ screen x = SMatch) /\\\n    desc_sorted (a_query st f screen) /\\\n    len (a_query st f screen) = N.min (f_limit f) (len (a_qualifying st f screen)) /\\\n    (forall x, In x (live st) -> spec_matches f x = true -> screen x = SMatch -> In x (a_qualifying st f screen)) /\\\n    a_query st f screen = ltake (f_limit f) (a_qualifying st f screen)",
   "a_query_meaning", ""),
  ("C05_concrete_planner_sound",
   "forall s f screen now allow_scraping allow_limit allow_seconds out red,\n    find_events s f screen now allow_scraping allow_limit allow_seconds = Ok (out, red) ->\n    Forall (good s f screen) out /\\ desc_sorted out /\\ NoDup (map okey out) /\\ len out <= f_limit f /\\ (red = true -> redsrc s f screen)",
   "find_events_sound", "EVERY store state (no invariant assumed), every plan: results are stored events read through an index entry that match and were screened Match; newest first; no two with the same (created_at, id); at most limit; redacted flag sound"),
  ("C05_answer_exact_when_limit_exceeds_store",
   "forall ops names f screen now allow_scraping allow_limit allow_seconds out red,\n    ops_wfe ops -> let s := c_run ops (db_init names) in\n    filter_ok f -> limit_exceeds_store s f ->\n    find_events s f screen now allow_scraping allow_limit allow_seconds = Ok (out, red) ->\n    forall x, In x out <-> (get_event_by_id s (e_id x) = Ok (Some x) /\\ spec_matches f x = true /\\ screen x = SMatch)",
   "find_events_exact_reachable", "COMPLETENESS of all seven plans: every reachable state of the concrete store, every filter with 32-byte authors, u16 kinds, one-letter tag constraint names, whose limit exceeds the size of every index table (no scan is cut short): the answer is EXACTLY the retrievable events that match and pass the screen - whichever index serves the filter (ids / author+kind incl. the replaceable early stop / author+tag / kind+tag / tag / author / scrape)"),
  ("C05_newest_k_under_every_limit",
   "forall ops names f screen now allow_scraping allow_limit allow_seconds out red,\n    ops_wfe ops -> let s := c_run ops (db_init names) in\n    filter_ok f ->\n    find_events s f screen now allow_scraping allow_limit allow_seconds = Ok (out, red) ->\n    forall x, get_event_by_id s (e_id x) = Ok (Some x) -> spec_matches f x = true -> screen x = SMatch ->\n      In x out \\/ (len out = f_limit f /\\ forall y, In y out -> e_created x <= e_created y)",
   "find_events_newest_reachable", "NEWEST-K for EVERY limit, all seven plans, every reachable state: a retrievable event that matches and passes the screen is either returned, or the answer holds limit events all at least as new (ties at the cut chosen arbitrarily). With C05_concrete_planner_sound (results qualify, newest first, no duplicates, at most limit) the answer is the limit newest qualifying events, whichever index serves the filter"),
  ("C05_query_never_panics",
   "forall s f screen now allow_scraping allow_limit allow_seconds, lettered f ->\n    find_events s f screen now allow_scraping allow_limit allow_seconds <> Panic",
   "find_events_no_panic", "every state, every filter whose tag constraints have non-empty names (the only ones the JSON syntax and the constructors produce)"),
  ("C05_scraper_refusal_only_when_justified",
   "forall s f screen now allow_scraping allow_limit allow_seconds,\n    find_events s f screen now allow_scraping allow_limit allow_seconds = Err EScraper ->\n    f_ids f = [] /\\ f_authors f = [] /\\ f_tags f = [] /\\\n    allow_scraping = false /\\ allow_limit < f_limit f /\\ allow_seconds <= N.min (f_until f) now - f_since f",
   "find_events_scraper_only_when_justified", "saturating subtraction as in the repaired code"),
  ], """(* non-vacuity: a stored event found by the author+kind plan *)
Example C05_example :
  let e := mkE (repeat 1 32) (repeat 2 32) (repeat 3 64) 1 5 [] [7] in
  let f := mkF [] [repeat 2 32] [1] [] 0 100 10 in
  exists s1, store_event (db_init []) e = (s1, Ok 8) /\\
             find_events s1 f (fun _ => SMatch) 1000 false 0 0 = Ok ([e], false).
Proof. vm_compute. eexists. split; reflexivity. Qed.
(* non-vacuity of the newest-k theorem: three events of one author, limit 2 cuts the author+kind scan *)
Example C05_newest_example :
  let pk := repeat 2 32 in
  let e1 := mkE (repeat 1 32) pk (repeat 3 64) 1 5 [] [] in
  let e2 := mkE (repeat 9 32) pk (repeat 3 64) 1 6 [] [] in
  let e3 := mkE (repeat 8 32) pk (repeat 3 64) 1 7 [] [] in
  let ops := [CStore e2; CStore e1; CStore e3] in
  let f := mkF [] [pk] [1] [] 0 100 2 in
  ops_wfe ops /\\ filter_ok f /\\
  find_events (c_run ops (db_init [])) f (fun _ => SMatch) 1000 false 0 0 = Ok ([e3; e2], false) /\\
  get_event_by_id (c_run ops (db_init [])) (e_id e1) = Ok (Some e1) /\\ spec_matches f e1 = true.
Proof.
  cbv zeta. split; [|split; [|split; [|split]]].
  - assert (W : forall i t tg, wf_ev (mkE (repeat i 32) (repeat 2 32) (repeat 3 64) 1 t tg []) <-> (i < 256 /\\ t <= U64MAX)).
    { intros i t tg. unfold wf_ev, wf_id32. cbn [e_id e_created e_pk e_kind]. split.
      - intros ((_ & Wb) & Ht & _). split; [inversion Wb; assumption|exact Ht].
      - intros [Hi Ht]. split; [split; [reflexivity|apply Forall_forall; intros b Hb; apply repeat_spec in Hb; subst b; exact Hi]|]. split; [exact Ht|]. split; [reflexivity|lia]. }
    repeat constructor; apply W; unfold U64MAX; lia.
  - unfold filter_ok. cbn [f_until f_since f_authors f_kinds f_tags]. repeat split; try (unfold U64MAX; lia); repeat constructor.
  - vm_compute. reflexivity.
  - vm_compute. reflexivity.
  - vm_compute. reflexivity.
Qed.
(* non-vacuity of the exactness theorem: a tag query over a store of two events, limit 10 *)
Example C05_exact_example :
  let pk := repeat 2 32 in
  let e1 := mkE (repeat 1 32) pk (repeat 3 64) 1 5 [[[116]; [120]]] [] in
  let e2 := mkE (repeat 9 32) pk (repeat 3 64) 1 6 [[[116]; [121]]] [] in
  let ops := [CStore e1; CStore e2] in
  let f := mkF [] [] [] [[[116]; [120]]] 0 100 10 in
  ops_wfe ops /\\ filter_ok f /\\ limit_exceeds_store (c_run ops (db_init [])) f /\\
  find_events (c_run ops (db_init [])) f (fun _ => SMatch) 1000 false 0 0 = Ok ([e1], false).
Proof.
  cbv zeta. split; [|split; [|split]].
  - assert (W : forall i t tg, wf_ev (mkE (repeat i 32) (repeat 2 32) (repeat 3 64) 1 t tg []) <-> (i < 256 /\\ t <= U64MAX)).
    { intros i t tg. unfold wf_ev, wf_id32. cbn [e_id e_created e_pk e_kind]. split.
      - intros ((_ & Wb) & Ht & _). split; [inversion Wb; assumption|exact Ht].
      - intros [Hi Ht]. split; [split; [reflexivity|apply Forall_forall; intros b Hb; apply repeat_spec in Hb; subst b; exact Hi]|]. split; [exact Ht|]. split; [reflexivity|lia]. }
    repeat constructor; apply W; unfold U64MAX; lia.
  - unfold filter_ok. cbn [f_until f_since f_authors f_kinds f_tags]. repeat split; try (unfold U64MAX; lia); repeat constructor.
  - intros T HT. cbn [In] in HT. destruct HT as [<-|[<-|[<-|[<-|[<-|[<-|[]]]]]]]; vm_compute; reflexivity.
  - vm_compute. reflexivity.
Qed.
""")

SPECS["C16"] = ("""property C16: reopen and rebuild preserve everything observable.
   PARTIAL.  Proved: reopen is the identity on the model state (the code re-derives only the
   volatile file length); rebuild keeps the previous log and tables as the backup, copies the
   extra tables, and its new event map contains exactly the events the id index leads to, each
   8-byte aligned after the 8-byte header (no bytes of removed / replaced / deleted / ephemeral /
   failed-store leftovers).  Proved for every reachable state (DbRebuild.v): the rebuilt store satisfies
   all store invariants, every id lookup returns the same event, the same ids are deleted, extra tables
   are copied, and every address keeps its deletion time (DbNaddr.v: the table's keys are encodings of
   well-formed addresses in every reachable state, and decode_naddr inverts key_naddr).  Queries then
   answer identically by the C05 exactness theorem (both states satisfy the invariants and return the
   same event for every id); the per-run check compares the full observation dump before vs after on the
   implementation and on the model, at every position.""",
  DBIMP + "\nFrom Pocket Require Import DbIdInv DbIndexInv DbRebuild DbNaddr LogBytes LogBytesProofs.", [
  ("C16_reopen_identity", "forall s, reopen s = s", "reopen_identity", ""),
  ("C16_reopen_identity_bytes",
   "forall chunk m lg E, R m lg E -> es_open chunk (file m) = m",
   "es_open_id", "byte level (LogBytes.v): EventStore::new on the file of any store in the refinement relation R (marker >= 8, remembered length = file length) changes no byte and re-derives the same remembered length, whatever CHUNK is"),
  ("C16_rebuild_bytes_refine",
   "forall chunk names ops s' ops2, 8 <= chunk -> chunk mod 8 = 0 ->\n    Forall wfe (ops_events ops) -> Forall wfe (ops_events ops2) ->\n    rebuild (c_run ops (db_init names)) = Ok s' ->\n    exists es, Forall wfe es /\\ (log s', log_end s') = appends [] HEADER es /\\\n      (chunk + total_size chunk es + total_size chunk (ops_events ops2) < B64 ->\n       let s2 := c_run ops2 s' in\n       exists m, bytes_of_log chunk (log s2) = Some m /\\ Rdb m s2\n         /\\ (forall off e, get_event_by_offset s2 off = Ok e -> es_get m off = Ok (enc_event e))\n         /\\ es_end m = log_end s2)",
   "rebuild_bytes_refine", "byte level: the event map a rebuild writes (after ANY history) is a sequence of appends of well-formed events from the header on, so the file the byte-level model computes for it exists, refines the rebuilt store, and keeps refining it through every history that continues with the rebuilt store (growth included): this is the file the per-run check compares with the real event.map after rebuild"),
  ("C16_rebuild_backup_partial",
   "forall s s', rebuild s = Ok s' -> bak s' = Some (log s, committed s) /\\ t_extra (committed s') = t_extra (committed s)",
   "rebuild_leaves_backup", ""),
  ("C16_rebuild_compact_partial",
   "forall s s', rebuild s = Ok s' -> log_end s' = compact_end s (t_iter (t_i (committed s))) HEADER",
   "rebuild_compact", "compact_end: fold (align8 end + size) over the events of the id index, from the 8-byte header"),
  ("C16_rebuild_preserves",
   "forall ops names s', ops_wf ops -> rebuild (c_run ops (db_init names)) = Ok s' ->\n    FullInv s' /\\\n    (forall id, get_event_by_id s' id = get_event_by_id (c_run ops (db_init names)) id) /\\\n    (forall id, has_event s' id = has_event (c_run ops (db_init names)) id) /\\\n    (forall id, event_is_deleted s' id = event_is_deleted (c_run ops (db_init names)) id) /\\\n    t_extra (committed s') = t_extra (committed (c_run ops (db_init names)))",
   "rebuild_preserves_reachable", "after ANY history: the rebuilt store satisfies every store invariant again (log, id index, all six secondary indexes exactly the image of the id index - so every later operation and query behaves as on an ordinarily built store), every id lookup returns the same event, the same ids are reported deleted, extra tables are copied"),
  ("C16_rebuild_preserves_address_markers",
   "forall ops names s', ops_wf ops -> rebuild (c_run ops (db_init names)) = Ok s' ->\n    forall a, naddr_is_deleted_asof s' a = naddr_is_deleted_asof (c_run ops (db_init names)) a",
   "rebuild_preserves_address_markers_reachable", "after ANY history, every address (any d, also longer than the 182 bytes the other indexes keep) has the same deletion time after the rebuild as before"),
  ("C16_decode_inverts_key_naddr",
   "forall a, wf_addr a -> decode_naddr (key_naddr a) = a",
   "decode_key_naddr", "the key of the deleted-address table holds the identifier whole: short ones padded and recovered by their recorded length, long ones (> 182 bytes) appended in full"),
  ], """Example C16_example :
  let e := mkE (repeat 1 32) (repeat 2 32) (repeat 3 64) 1 5 [] [7] in
  let e2 := mkE (repeat 9 32) (repeat 2 32) (repeat 3 64) 1 6 [] [7;7;7] in
  exists s1 s2 s3 s4, store_event (db_init []) e = (s1, Ok 8) /\\ store_event s1 e2 = (s2, Ok 168) /\\
     remove_event s2 (repeat 1 32) = (s3, Ok tt) /\\ rebuild s3 = Ok s4 /\\ log_end s4 = 8 + 155 /\\
     get_event_by_id s4 (repeat 9 32) = Ok (Some e2).
Proof. vm_compute. do 4 eexists. repeat split. Qed.
""")

SPECS["C17"] = ("""property C17: every access path agrees and index accounting never leaks.
   PARTIAL.  Proved (TableProofs.v): the table laws (get/put/delete), a range scan returns exactly
   the entries whose key lies in the closed interval, in ascending key order; Db.index / Db.deindex
   are put_all / del_all of the event's key lists on each table; deindexing removes exactly the
   keys indexing added (membership and entry count restored) and indexing fresh keys adds one entry
   per DISTINCT key - the count formula the harness checks after every step.  THE GLOBAL INVARIANT
   (DbIndexInv.v): in every reachable state of the concrete store each of the six secondary tables is
   exactly the image of the id index (no leaked entry, no missing key, one entry per key), and the
   single-key tables have exactly one entry per retrievable event.  ALL QUERY PATHS AGREE WITH THE ID INDEX
   (DbQueryNewest.v / DbQueryComplete.v): whichever of the seven plans serves a filter, an event is in the
   untruncated answer exactly when the lookup by its id returns it and it matches.  The three tag-table counters
   are proved equal in every reachable state (DbTagCounts.v); and their common value is proved to be one entry
   per distinct key of every retrievable event (tag_index_count_formula).""",
  DBIMP.replace("DbProofs.", "DbProofs TableProofs DbIdInv DbIndexInv.") + "\nFrom Pocket Require Import DbQuerySound KeyOrder DbAddr DbQueryComplete DbQueryNewest DbTagCounts.", [
  ("C17_range_scan_exact_partial",
   "forall t lo hi k v, In (k, v) (t_range t lo hi) <-> In (k, v) t /\\ lex_lt k lo = false /\\ lex_lt hi k = false",
   "t_range_spec", ""),
  ("C17_range_scan_sorted_partial", "forall t lo hi, key_sorted (t_range t lo hi)", "t_range_sorted", ""),
  ("C17_index_is_put_all_partial",
   "forall tb e off, let tb' := index tb e off in\n    t_i tb' = t_put (t_i tb) (e_id e) off /\\\n    t_ci tb' = t_put (t_ci tb) (key_ci (e_created e) (e_id e)) off /\\\n    t_ac tb' = t_put (t_ac tb) (key_ac (e_pk e) (e_created e) (e_id e)) off /\\\n    t_akc tb' = t_put (t_akc tb) (key_akc (e_pk e) (e_kind e) (e_created e) (e_id e)) off /\\\n    t_tc tb' = put_all (t_tc tb) (keys_tc e) off /\\\n    t_atc tb' = put_all (t_atc tb) (keys_atc e) off /\\\n    t_ktc tb' = put_all (t_ktc tb) (keys_ktc e) off /\\\n    t_delids tb' = t_delids tb /\\ t_naddr tb' = t_naddr tb /\\ t_extra tb' = t_extra tb",
   "index_tables", ""),
  ("C17_deindex_is_del_all_partial",
   "forall tb e, let tb' := deindex tb e in\n    t_i tb' = t_i tb /\\\n    t_ci tb' = t_del (t_ci tb) (key_ci (e_created e) (e_id e)) /\\\n    t_ac tb' = t_del (t_ac tb) (key_ac (e_pk e) (e_created e) (e_id e)) /\\\n    t_akc tb' = t_del (t_akc tb) (key_akc (e_pk e) (e_kind e) (e_created e) (e_id e)) /\\\n    t_tc tb' = del_all (t_tc tb) (keys_tc e) /\\\n    t_atc tb' = del_all (t_atc tb) (keys_atc e) /\\\n    t_ktc tb' = del_all (t_ktc tb) (keys_ktc e) /\\\n    t_delids tb' = t_delids tb /\\ t_naddr tb' = t_naddr tb /\\ t_extra tb' = t_extra tb",
   "deindex_tables", ""),
  ("C17_deindex_undoes_index_partial",
   "forall t ks off k v, (forall k0 v0, In k0 ks -> ~ In (k0, v0) t) ->\n    (In (k, v) (del_all (put_all t ks off) ks) <-> In (k, v) t)",
   "index_deindex_inverse", ""),
  ("C17_deindex_restores_count_partial",
   "forall t ks off, keys_unique t -> (forall k0 v0, In k0 ks -> ~ In (k0, v0) t) ->\n    len (del_all (put_all t ks off) ks) = len t",
   "index_deindex_count", ""),
  ("C17_index_count_partial",
   "forall t ks off, keys_unique t -> (forall k0 v0, In k0 ks -> ~ In (k0, v0) t) ->\n    len (put_all t ks off) = len t + len (nodup (list_eq_dec N.eq_dec) ks)",
   "put_all_count", "one entry per distinct key: two tags of one event equal up to pad182 share one key"),
  ("C17_indexes_are_image_of_id_index",
   "forall ops names, ops_wf ops -> let s := c_run ops (db_init names) in let tb := committed s in\n    forall T K, In (T, K) [(t_ci tb, keys_ci); (t_ac tb, keys_ac); (t_akc tb, keys_akc); (t_tc tb, keys_tc); (t_atc tb, keys_atc); (t_ktc tb, keys_ktc)] ->\n    keys_unique T /\\\n    (forall k off, In (k, off) T -> exists e, get_event_by_id s (e_id e) = Ok (Some e) /\\ t_get (t_i tb) (e_id e) = Some off /\\ In k (K e)) /\\\n    (forall e, get_event_by_id s (e_id e) = Ok (Some e) -> exists off, t_get (t_i tb) (e_id e) = Some off /\\ forall k, In k (K e) -> In (k, off) T)",
   "indexes_are_image_of_id_index", "THE global invariant, all histories of the concrete store (stores with replacement and deletion requests of any tag lists, removals, vanish, extra tables, reopen; events with 32-byte ids): no index entry without a retrievable event owning that key, no retrievable event with a key missing, one entry per key"),
  ("C17_single_key_counts_agree",
   "forall ops names, ops_wf ops -> let tb := committed (c_run ops (db_init names)) in\n    len (t_ci tb) = len (t_i tb) /\\ len (t_ac tb) = len (t_i tb) /\\ len (t_akc tb) = len (t_i tb)",
   "index_counts_agree", "the counter equalities the harness checks after every operation"),
  ("C17_tag_index_counts_agree",
   "forall ops names, ops_wf ops -> let tb := committed (c_run ops (db_init names)) in\n    len (t_atc tb) = len (t_tc tb) /\\ len (t_ktc tb) = len (t_tc tb)",
   "tag_index_counts_agree", "the three tag tables: the author-tag and the kind-tag index are the tag index with the author / the kind in front of every key, so in every reachable state the three counters are equal - none of them can leak or lose an entry alone (the harness checks the same equality, and the common value against the distinct (letter, padded value) pairs of the retrievable events)"),
  ("C17_tag_index_count_formula",
   "forall ops names, ops_wf ops -> let s := c_run ops (db_init names) in\n    length (t_tc (committed s))\n    = list_sum (map (fun io => match log_find (log s) (snd io) with\n                               | Some e => length (nodup bytes_eq_dec (keys_tc e))\n                               | None => 0%nat\n                               end) (t_i (committed s)))",
   "tag_index_count_formula", "the VALUE of the tag-table counters: in every reachable state the tag index holds, for every retrievable event, exactly one entry per DISTINCT key of the event (key = letter, value padded or cut to 182 bytes, time, id): repeated tags and values that collide after padding count once, nothing else is there. With C17_tag_index_counts_agree the same number is in the author-tag and kind-tag tables"),
  ("C17_tag_index_count_in_padded_pairs",
   "forall ops names, ops_wf ops -> let s := c_run ops (db_init names) in\n    length (t_tc (committed s))\n    = list_sum (map (fun io => match log_find (log s) (snd io) with\n                               | Some e => length (nodup lv_eq_dec (padded_pairs e))\n                               | None => 0%nat\n                               end) (t_i (committed s)))",
   "tag_index_count_in_padded_pairs", "the same value in the terms of the property: the number of DISTINCT (letter, value padded or cut to 182 bytes) pairs among the indexable tags of every retrievable event - exactly the number the harness recomputes from the events it stored and compares with the three counters after every operation"),
  ("C17_query_paths_agree_with_id_index",
   "forall ops names f now allow_scraping allow_limit allow_seconds out red,\n    ops_wfe ops -> let s := c_run ops (db_init names) in\n    filter_ok f -> limit_exceeds_store s f ->\n    find_events s f all_match now allow_scraping allow_limit allow_seconds = Ok (out, red) ->\n    forall e, In e out <-> (get_event_by_id s (e_id e) = Ok (Some e) /\\ spec_matches f e = true)",
   "query_paths_agree_with_id_index", "every reachable state, every filter (32-byte authors, u16 kinds, one-letter tag names) whose limit does not truncate, whichever of the seven plans serves it (ids / author+kind / author+tag / kind+tag / tag / author / time window): the answer is exactly the events the id lookup returns that match - no access path serves an event another path denies"),
  ("C17_id_path_agrees_with_offset_path",
   "forall ops names id, let s := c_run ops (db_init names) in\n    (get_event_by_id s id = Ok None /\\ has_event s id = false) \\/\n    (exists e off, get_event_by_id s id = Ok (Some e) /\\ e_id e = id /\\ has_event s id = true /\\\n                   get_event_by_offset s off = Ok e /\\ t_get (t_i (committed s)) id = Some off)",
   "by_id_never_fails", "every reachable concrete state: has_event, get_event_by_id and the offset path agree; the id index holds one entry per id (no leak of dangling entries)"),
  ], """(* non-vacuity: a replaceable event replaced by a newer one carrying a tag; one event left, 1 entry in each of the 7 tables *)
Example C17_example :
  let pk := repeat 2 32 in
  let e1 := mkE (repeat 1 32) pk (repeat 3 64) 10000 5 [] [] in
  let e2 := mkE (repeat 9 32) pk (repeat 3 64) 10000 6 [[[116]; [120]]] [] in
  let ops := [CStore e1; CStore e2] in
  ops_wf ops /\\ firstn 7 (stats (c_run ops (db_init []))) = [1; 1; 1; 1; 1; 1; 1].
Proof. cbv zeta. split; [repeat constructor|vm_compute; reflexivity]. Qed.
""")

CODIMP = "From Pocket Require Import Escape JsonParse Codec EscapeProofs NumProofs HexProofs Db DbProofs ParseTotal."

SPECS["C03"] = ("""property C03: all parsers are total and memory-safe on arbitrary bytes and buffer sizes.
   Proved for ALL byte strings and ALL output buffers (models with explicit Panic / OutOfFuel
   outcomes; fuel = input length + 1, so non-termination would be an unprovable fuel bound): the
   event, filter and tags JSON parsers, json_unescape, json_escape, hex decoding (ids, pubkeys,
   signatures, HLL registers) and address parsing never panic and never run out of fuel; consumed
   lengths never exceed the input; the output buffer keeps its length (the model cannot write outside
   it: every raw slice write is shown to be in range).  PARTIAL only for what a Gallina model cannot
   exhibit (real-memory effects beyond the guard bytes) and for the final `output[..len]` slice of
   Event/Filter::from_json and accessor totality on accepted values, which the differential run checks
   (every prefix, single-byte corruptions, nesting, digit runs, every output length; both profiles).""",
  CODIMP, [
  ("C03_unescape_total", "forall l cap, json_unescape l cap <> Panic /\\ json_unescape l cap <> OutOfFuel", "json_unescape_total", ""),
  ("C03_unescape_consumed", "forall l cap n out, json_unescape l cap = Ok (n, out) -> n <= len l", "json_unescape_consumed", "consumed length <= input length"),
  ("C03_unescape_fits", "forall l cap n out, json_unescape l cap = Ok (n, out) -> len out <= cap", "json_unescape_fits", "never writes beyond the supplied buffer"),
  ("C03_escape_total", "forall l, json_escape l <> Panic /\\ json_escape l <> OutOfFuel", "json_escape_total", "incl. bytes decoding beyond U+10FFFF"),
  ("C03_read_hex_total", "forall input n, read_hex input n <> Panic /\\ read_hex input n <> OutOfFuel", "read_hex_total", "incl. bytes >= 0x80"),
  ("C03_read_hex_wellformed", "forall input out, read_hex_pairs input = Ok out -> wf_bytes out /\\ len input = 2 * len out", "read_hex_pairs_ok", ""),
  ("C03_addr_parse_total", "forall input, addr_parse input <> Panic /\\ addr_parse input <> OutOfFuel", "addr_parse_total", ""),
  ("C03_event_parser_total",
   "forall input out, safe (parse_json_event input out) /\\\n    (forall n elen out', parse_json_event input out = Ok (n, elen, out') -> n <= len input /\\ len out' = len out)",
   "parse_json_event_total", "EVERY input, EVERY output buffer: no panic, terminates (fuel = input length + 1), consumed <= input, buffer length unchanged (no write outside it)"),
  ("C03_filter_parser_total",
   "forall input out, safe (parse_json_filter input out) /\\\n    (forall n flen out', parse_json_filter input out = Ok (n, flen, out') -> n <= len input /\\ len out' = len out)",
   "parse_json_filter_total", ""),
  ("C03_tags_parser_total",
   "forall l out, safe (tags_from_json l out) /\\ (forall n t, tags_from_json l out = Ok (n, t) -> n <= len l)",
   "tags_from_json_total", ""),
  ], "")

SPECS["C01"] = ("""property C01: event JSON parsing is faithful to an independent JSON parser.
   PARTIAL.  Proved: the integer members are read as exactly the numeric value of their digit run
   and a value that does not fit the field (kind > 65535, created_at >= 2^64) is an error, never
   wrapped; whatever integer is accepted fits; for the library's own rendering of ANY well-formed
   event the parser consumes the whole text and produces exactly the encoding of the seven fields
   (JsonRoundTrip.v); and the seven members may come in ANY ORDER (EventAnyOrder.v: all 5040 orders,
   including content before tags, where the parser remembers the content's start and decodes it once the
   tags are placed), whatever follows the closing brace, WITH ANY NUMBER OF UNKNOWN MEMBERS in between
   (JsonSkip.v: the value skipper skips every JSON value - strings, numbers, literals, arrays and objects
   nested up to the parser's limit of 128 - and leaves the parse state alone).  For the remaining texts
   of the grammar (whitespace, alternative escape spellings of known strings) "parse t = enc_event (denote t)"
   is not proved in Coq; it is decided per run by the differential check against python's json module (member orders, whitespace, escape
   spellings, unknown members, boundaries) and against the parser model (exact).""",
  CODIMP + "\nFrom Pocket Require Import EscapeRoundTrip JsonRoundTrip JsonSkip TagsWs EventAnyOrder Spelling FilterGaps EventGaps.", [
  ("C01_created_at_value_partial",
   "forall l, read_u64 l = let '(ds, rest) := span_digits l in\n    match ds with [] => Err EJson | _ => if num_of ds <=? 18446744073709551615 then Ok (num_of ds, rest) else Err EJson end",
   "read_u64_spec", "digit run of any length: its value, or an error when >= 2^64"),
  ("C01_kind_value_partial",
   "forall l, read_kind l = let '(ds, rest) := span_digits l in\n    match ds with [] => Err EJson | _ => if num_of ds <=? 65535 then Ok (num_of ds, rest) else Err EJson end",
   "read_kind_spec", ""),
  ("C01_library_text_parsed_faithfully",
   "forall e txt out, wf_event_json e -> event_size e <= len out -> event_as_json e = Ok txt ->\n    event_from_json txt out = Ok (len txt, enc_event e, enc_event e ++ drop (event_size e) out)",
   "event_json_roundtrip", "the parser model on the library's own rendering of ANY well-formed event: consumed = the whole text, the binary value = the encoding of exactly the seven field values (whose accessors return them: C19). Other member orders, whitespace, escape spellings and unknown members are decided per run"),
  ("C01_any_member_order",
   "forall e tj cj ms tail out, wf_event_json e -> tags_as_json (e_tags e) = Ok tj -> json_escape (e_content e) = Ok cj ->\n    NoDup ms -> (forall k, In k ms) -> event_size e <= len out ->\n    event_from_json (event_text e tj cj ms tail) out\n    = Ok (len (event_text e tj cj ms tail) - len tail, enc_event e, enc_event e ++ drop (event_size e) out)",
   "event_any_order", "EVERY well-formed event, EVERY order of its seven members (a duplicate-free list containing all seven keys), the library's spelling of each member, anything after the closing brace: the parse consumes exactly the object and yields the canonical encoding of the seven field values, the rest of the caller's buffer untouched"),
  ("C01_any_order_with_unknown_members",
   "forall e tj cj ms tail out, wf_event_json e -> tags_as_json (e_tags e) = Ok tj -> json_escape (e_content e) = Ok cj ->\n    Forall emem_ok ms -> NoDup (known ms) -> (forall k, In k (known ms)) -> event_size e <= len out ->\n    event_from_json (event_text_u e tj cj ms tail) out\n    = Ok (len (event_text_u e tj cj ms tail) - len tail, enc_event e, enc_event e ++ drop (event_size e) out)",
   "event_any_order_unknown", "the seven members in any order with ANY NUMBER of unknown members before, between and after them (keys the parser does not know; values any JSON value nested up to depth 128; the same unknown key may repeat): the parse is still exactly the canonical encoding of the seven field values"),
  ("C01_any_order_unknown_members_and_white_space",
   "forall e tj cj w0 ms tail out, wf_event_json e -> tags_as_json (e_tags e) = Ok tj -> json_escape (e_content e) = Ok cj ->\n    wsb w0 -> Forall wm_ok ms -> NoDup (known (map wm_m ms)) -> (forall k, In k (known (map wm_m ms))) -> event_size e <= len out ->\n    event_from_json (event_text_w e tj cj w0 ms tail) out\n    = Ok (len (event_text_w e tj cj w0 ms tail) - len tail, enc_event e, enc_event e ++ drop (event_size e) out)",
   "event_any_order_ws", "the same with ANY AMOUNT OF WHITE SPACE (space, tab, LF, CR) before the opening brace and, for every member known or unknown, before its opening quote, between its name and the colon, between the colon and the value, and between the value and the following comma or closing brace; the consumed count is the length of all of that. (White space INSIDE the tags array is not covered by a theorem; it is compared per run.)"),
  ("C01_any_spelling_of_every_string",
   "forall e tes cj w0 ms tail out, wf_event_json e -> Forall2 (Forall2 escd) (e_tags e) tes -> escd (e_content e) cj ->\n    wsb w0 -> Forall wm_ok ms -> NoDup (known (map wm_m ms)) -> (forall k, In k (known (map wm_m ms))) -> event_size e <= len out ->\n    event_from_json (event_text_s e tes cj w0 ms tail) out\n    = Ok (len (event_text_s e tes cj w0 ms tail) - len tail, enc_event e, enc_event e ++ drop (event_size e) out)",
   "event_any_spelling", "the most general parse theorem: the tag strings spelled tes and the content spelled cj in ANY spelling related to them by escd - the relation all parse lemmas rest on: json_unescape reads the spelling back as the string and the string skipper skips it, whatever follows - with the members in any order, unknown members and white space as before"),
  ("C01_full_grammar",
   "forall e w1 wtes cj w0 ms tail out, wf_event_json e -> wsb w1 -> Forall2 wtag_ok (e_tags e) wtes -> escd (e_content e) cj ->\n    wsb w0 -> Forall wm_ok ms -> NoDup (known (map wm_m ms)) -> (forall k, In k (known (map wm_m ms))) -> event_size e <= len out ->\n    event_from_json (event_text_T e (wtags_body w1 wtes) cj w0 ms tail) out\n    = Ok (len (event_text_T e (wtags_body w1 wtes) cj w0 ms tail) - len tail, enc_event e, enc_event e ++ drop (event_size e) out)",
   "event_full_grammar", "THE FULL GRAMMAR of the property statement: every JSON text denoting the event - the seven members in any order, any number of unknown members with any JSON values, every escape spelling of every tag string and of the content, and white space in EVERY place the parser accepts it: before the brace, around every member and colon, AND inside the tags array (after the outer bracket, after every tag's opening and closing bracket, after every comma, after every string's closing quote; TagsWs.v) - is accepted into any buffer that is large enough, the consumed length is the offset just past the closing brace, and the bytes are the canonical encoding of the seven field values"),
  ("C01_tags_array_with_white_space",
   "forall ts w0 tes F tail, wsb w0 -> Forall2 wtag_ok ts tes -> tags_size ts <= len F -> fits_tags ts ->\n    read_tags_array (91 :: wtags_body w0 tes tail) F = Ok (tail, enc_tags ts ++ drop (tags_size ts) F, tags_size ts)",
   "wread_tags_array_spec", "the counting pass, the reading pass, offsets table and size check of read_tags_array on a tags array with white space in every slot and any spelling of every string"),
  ("C01_every_accepted_spelling_is_a_spelling",
   "forall cps ps, spelling cps ps -> escd (utf8_of cps) (concat ps)",
   "spelling_escd", "spelling cps ps: each Unicode scalar value of cps written literally (when it is not a quote, backslash or control character), as a two-character escape, or as \\uXXXX with hex digits in either case (below 65536, not a surrogate), mixed freely per character - these are all the spellings the unescaper accepts. So C01_any_spelling_of_every_string covers every escape spelling of every tag string and of the content"),
  ("C01_unknown_member_is_skipped",
   "forall key v K, skippable_str key -> jwf v -> jdepth v <= 128 -> vfollow K ->\n    burn_member (key ++ 34 :: 58 :: jtext v ++ K) = Ok K",
   "burn_member_skips", "the skipper: key, colon and a value tree of any shape (strings, numbers incl. exponents with a plus sign, true/false/null, arrays, objects) are consumed exactly, whatever follows; the fuel the parser supplies (twice the text length) always suffices"),
  ("C01_plain_keys_are_unknown",
   "forall key, Forall (fun c => c <> 34 /\\ c <> 92) key -> ~ In key known_names -> unknown_key key",
   "plain_unknown_key", "every key without quote or backslash other than the seven names (incl. their prefixes and extensions: i, idx, ids, kin, created) is treated as unknown"),
  ("C01_as_json_is_one_of_these_texts",
   "forall e tj cj, tags_as_json (e_tags e) = Ok tj -> json_escape (e_content e) = Ok cj ->\n    event_as_json e = Ok (event_text e tj cj [KId; KPk; KKind; KCreated; KTags; KContent; KSig] [])",
   "as_json_is_event_text", ""),
  ("C01_int_no_wrap_u64", "forall l v r, read_u64 l = Ok (v, r) -> v < 18446744073709551616", "read_u64_fits", ""),
  ("C01_int_no_wrap_kind", "forall l v r, read_kind l = Ok (v, r) -> v < 65536", "read_kind_fits", ""),
  ("C01_member_loop_ignores_leading_ws",
   "forall fuel st w l, wsrun w -> event_members fuel st (w ++ l) = event_members fuel st l",
   "event_members_ws", "for EVERY text, state and fuel: white space in front of a member never changes what the member loop returns"),
  ("C01_leading_white_space_any_accepted_text",
   "forall w w2 r out c enc buf, wsrun w -> wsrun w2 ->\n    event_from_json (123 :: r) out = Ok (c, enc, buf) ->\n    event_from_json (w ++ 123 :: w2 ++ r) out = Ok (len w + len w2 + c, enc, buf)",
   "event_from_json_leading_ws", "for EVERY event text the parser accepts (inside or OUTSIDE the grammar of event_full_grammar): white space before the opening brace and right after it changes neither the encoded event nor the buffer and adds exactly its length to the consumed count (uses: more fuel never changes an answer, consumption bounded by the input)"),
  ], """(* non-vacuity with unknown members: a number with a plus-signed exponent, a nested object under a key that extends a known name, a repeated unknown key *)
Example C01_unknown_example :
  let e := mkE (repeat 1 32) (repeat 2 32) (repeat 3 64) 1 1700000000 [[[101]; [91; 34; 93]]; []; [[]]] [104; 10; 34; 92; 195; 169] in
  let u1 := EU [120] (JNum [49; 101; 43; 51]) in
  let u2 := EU [105; 100; 115] (JObj [([97], JArr [JNull; JStr [113; 92; 34]; JArr []]); ([], JTrue)]) in
  let ms := [u1; EK KContent; EK KSig; u2; EK KTags; EK KId; EK KKind; EK KPk; u1; EK KCreated] in
  wf_event_json e /\\ Forall emem_ok ms /\\ NoDup (known ms) /\\ (forall k, In k (known ms)) /\\
  exists tj cj, tags_as_json (e_tags e) = Ok tj /\\ json_escape (e_content e) = Ok cj /\\
    event_from_json (event_text_u e tj cj ms [9; 9]) (repeat 170 (N.to_nat (event_size e) + 3))
    = Ok (len (event_text_u e tj cj ms [9; 9]) - 2, enc_event e, enc_event e ++ [170; 170; 170]).
Proof.
  cbv zeta. split; [|split; [|split; [|split]]].
  - unfold wf_event_json. cbn [e_id e_pk e_sig e_kind e_created e_tags e_content].
    assert (R : forall b n, b < 256 -> wf_bytes (repeat b n)) by (intros b n Hb; apply Forall_forall; intros x Hx; apply repeat_spec in Hx; subst x; exact Hb).
    repeat apply conj; try (apply R; lia); try (vm_compute; reflexivity); try lia.
    + repeat constructor.
      * exists [101]. split; [repeat constructor; unfold scalar; lia|reflexivity].
      * exists [91; 34; 93]. split; [repeat constructor; unfold scalar; lia|reflexivity].
      * exists []. split; [constructor|reflexivity].
    + exists [104; 10; 34; 92; 233]. split; [repeat constructor; unfold scalar; lia|vm_compute; reflexivity].
  - assert (P : forall key, Forall (fun c => c <> 34 /\\ c <> 92) key -> skippable_str key) by exact plain_skippable.
    repeat constructor; try (apply P; repeat constructor; lia); try (intros rest; repeat split; reflexivity); try (cbn; lia);
      try (intros K; reflexivity).
  - cbn [known]. repeat constructor; cbn; intuition discriminate.
  - intros k. destruct k; cbn; auto 8.
  - eexists _, _. split; [vm_compute; reflexivity|split; [vm_compute; reflexivity|vm_compute; reflexivity]].
Qed.
(* non-vacuity of the full-grammar theorem: white space in every slot of the tags array (one tag with two strings, an empty tag
   with white space inside, a tag with an empty string), the first tag string spelled u0065 *)
Example C01_full_grammar_example :
  let e := mkE (repeat 1 32) (repeat 2 32) (repeat 3 64) 1 1700000000 [[[101]; [91; 34; 93]]; []; [[]]] [104; 10; 34; 92; 195; 169] in
  let cj := [104; 92; 110; 92; 34; 92; 92; 195; 169] in
  let wtes := [mkWt [mkWs [92; 117; 48; 48; 54; 53] [32] [10; 9]; mkWs [91; 92; 34; 93] [13; 10] []] [32; 32] [9] [32];
               mkWt [] [] [32] [10; 32];
               mkWt [mkWs [] [32] []] [9] [] []] in
  let ms := [mkWm (EK KContent) [32] [] [32] []; no_ws (EK KSig); mkWm (EK KTags) [10] [32] [32; 9] [13]; no_ws (EK KId); no_ws (EK KKind); no_ws (EK KPk); no_ws (EK KCreated)] in
  Forall2 wtag_ok (e_tags e) wtes /\\
  event_from_json (event_text_T e (wtags_body [32; 10] wtes) cj [9] ms [9; 9]) (repeat 170 (N.to_nat (event_size e) + 3))
  = Ok (len (event_text_T e (wtags_body [32; 10] wtes) cj [9] ms [9; 9]) - 2, enc_event e, enc_event e ++ [170; 170; 170]).
Proof.
  cbv zeta. cbn [e_tags]. split; [|vm_compute; reflexivity].
  assert (WS : forall w, forallb is_ws w = true -> wsb w).
  { intros w H. unfold wsb. apply Forall_forall. intros c Hc. rewrite forallb_forall in H. apply H. exact Hc. }
  assert (E0 : forall s e, valid_utf8 s -> json_escape s = Ok e -> escd s e) by (intros s e V J; apply escd0_escd; split; assumption).
  apply Forall2_cons; [|apply Forall2_cons; [|apply Forall2_cons; [|apply Forall2_nil]]].
  - refine (conj _ (conj _ (conj _ _))); try (apply WS; reflexivity). cbn [wt_s].
    apply Forall2_cons; [|apply Forall2_cons; [|apply Forall2_nil]].
    + refine (conj _ (conj _ _)); try (apply WS; reflexivity). cbn [ws_e].
      change [101] with (utf8_of [101]). change [92; 117; 48; 48; 54; 53] with (concat [[92; 117; 48; 48; 54; 53]]).
      apply spelling_escd. apply Forall2_cons; [|apply Forall2_nil]. eapply (SpU4 101 48 48 54 53 0 0 6 5); try reflexivity. lia.
    + refine (conj _ (conj _ _)); try (apply WS; reflexivity). cbn [ws_e].
      apply E0; [exists [91; 34; 93]; split; [repeat constructor; unfold scalar; lia|reflexivity]|reflexivity].
  - refine (conj _ (conj _ (conj _ _))); try (apply WS; reflexivity). cbn [wt_s]. apply Forall2_nil.
  - refine (conj _ (conj _ (conj _ _))); try (apply WS; reflexivity). cbn [wt_s]. apply Forall2_cons; [|apply Forall2_nil].
    refine (conj _ (conj _ _)); try (apply WS; reflexivity). cbn [ws_e].
    apply E0; [exists []; split; [constructor|reflexivity]|reflexivity].
Qed.
(* non-vacuity of the any-spelling theorem: the content  h LF quote backslash e-acute  spelled  u0068 backslash-n backslash-quote
   backslash-backslash u00E9 (upper-case hex), the tag strings  e  and  [ quote ]  spelled  u0065  and  [ u0022 ] *)
Example C01_spelling_example :
  let e := mkE (repeat 1 32) (repeat 2 32) (repeat 3 64) 1 1700000000 [[[101]; [91; 34; 93]]; []; [[]]] [104; 10; 34; 92; 195; 169] in
  let cj := [92; 117; 48; 48; 54; 56; 92; 110; 92; 34; 92; 92; 92; 117; 48; 48; 69; 57] in
  let tes := [[[92; 117; 48; 48; 54; 53]; [91; 92; 117; 48; 48; 50; 50; 93]]; []; [[]]] in
  let ms := [mkWm (EK KContent) [32] [] [32] []; no_ws (EK KSig); no_ws (EK KTags); no_ws (EK KId); no_ws (EK KKind); no_ws (EK KPk); no_ws (EK KCreated)] in
  Forall2 (Forall2 escd) (e_tags e) tes /\\ escd (e_content e) cj /\\
  event_from_json (event_text_s e tes cj [] ms [9; 9]) (repeat 170 (N.to_nat (event_size e) + 3))
  = Ok (len (event_text_s e tes cj [] ms [9; 9]) - 2, enc_event e, enc_event e ++ [170; 170; 170]).
Proof.
  cbv zeta. cbn [e_tags e_content].
  assert (U : forall c x3 x2 x1 x0 d3 d2 d1 d0, hex_digit_value x3 = Some d3 -> hex_digit_value x2 = Some d2 ->
            hex_digit_value x1 = Some d1 -> hex_digit_value x0 = Some d0 -> c = d3 * 4096 + d2 * 256 + d1 * 16 + d0 ->
            (c < 55296 \\/ 57344 <= c) -> spell1 c [92; 117; x3; x2; x1; x0]) by (intros; eapply SpU4; eassumption).
  assert (L : forall c, scalar c -> is_safe_char c = true -> spell1 c (enc c)) by exact SpLit.
  split; [|split].
  - apply Forall2_cons; [|apply Forall2_cons; [|apply Forall2_cons; [|apply Forall2_nil]]].
    + apply Forall2_cons; [|apply Forall2_cons; [|apply Forall2_nil]].
      * change [101] with (utf8_of [101]). change [92; 117; 48; 48; 54; 53] with (concat [[92; 117; 48; 48; 54; 53]]).
        apply spelling_escd. apply Forall2_cons; [|apply Forall2_nil]. eapply (U 101 48 48 54 53 0 0 6 5); try reflexivity. lia.
      * change [91; 34; 93] with (utf8_of [91; 34; 93]).
        change [91; 92; 117; 48; 48; 50; 50; 93] with (concat [[91]; [92; 117; 48; 48; 50; 50]; [93]]).
        apply spelling_escd. apply Forall2_cons; [|apply Forall2_cons; [|apply Forall2_cons; [|apply Forall2_nil]]].
        -- apply (L 91); [split; lia|reflexivity].
        -- eapply (U 34 48 48 50 50 0 0 2 2); try reflexivity. lia.
        -- apply (L 93); [split; lia|reflexivity].
    + apply Forall2_nil.
    + apply Forall2_cons; [|apply Forall2_nil].
      change (escd (utf8_of []) (concat (@nil bytes))). apply spelling_escd. apply Forall2_nil.
  - change [104; 10; 34; 92; 195; 169] with (utf8_of [104; 10; 34; 92; 233]).
    change [92; 117; 48; 48; 54; 56; 92; 110; 92; 34; 92; 92; 92; 117; 48; 48; 69; 57]
      with (concat [[92; 117; 48; 48; 54; 56]; [92; 110]; [92; 34]; [92; 92]; [92; 117; 48; 48; 69; 57]]).
    apply spelling_escd.
    apply Forall2_cons; [|apply Forall2_cons; [|apply Forall2_cons; [|apply Forall2_cons; [|apply Forall2_cons; [|apply Forall2_nil]]]]].
    + eapply (U 104 48 48 54 56 0 0 6 8); try reflexivity. lia.
    + apply (SpShort 110 10). reflexivity.
    + apply (SpShort 34 34). reflexivity.
    + apply (SpShort 92 92). reflexivity.
    + eapply (U 233 48 48 69 57 0 0 14 9); try reflexivity. lia.
  - vm_compute. reflexivity.
Qed.
(* non-vacuity with white space: before the brace, around every colon, after every value; unknown members too *)
Example C01_ws_example :
  let e := mkE (repeat 1 32) (repeat 2 32) (repeat 3 64) 1 1700000000 [[[101]; [91; 34; 93]]; []; [[]]] [104; 10; 34; 92; 195; 169] in
  let u1 := EU [120] (JNum [49; 101; 43; 51]) in
  let W m := mkWm m [32; 10] [9] [32; 32] [13; 10; 32] in
  let ms := [W u1; W (EK KContent); mkWm (EK KSig) [] [] [] []; W (EK KTags); W (EK KId); mkWm (EK KKind) [10] [] [32] []; W (EK KPk); W u1; W (EK KCreated)] in
  wf_event_json e /\\ wsb [32; 9; 10; 13] /\\ Forall wm_ok ms /\\ NoDup (known (map wm_m ms)) /\\ (forall k, In k (known (map wm_m ms))) /\\
  exists tj cj, tags_as_json (e_tags e) = Ok tj /\\ json_escape (e_content e) = Ok cj /\\
    event_from_json (event_text_w e tj cj [32; 9; 10; 13] ms [9; 9]) (repeat 170 (N.to_nat (event_size e) + 3))
    = Ok (len (event_text_w e tj cj [32; 9; 10; 13] ms [9; 9]) - 2, enc_event e, enc_event e ++ [170; 170; 170]).
Proof.
  cbv zeta. split; [|split; [|split; [|split; [|split]]]].
  - unfold wf_event_json. cbn [e_id e_pk e_sig e_kind e_created e_tags e_content].
    assert (R : forall b n, b < 256 -> wf_bytes (repeat b n)) by (intros b n Hb; apply Forall_forall; intros x Hx; apply repeat_spec in Hx; subst x; exact Hb).
    repeat apply conj; try (apply R; lia); try (vm_compute; reflexivity); try lia.
    + repeat constructor.
      * exists [101]. split; [repeat constructor; unfold scalar; lia|reflexivity].
      * exists [91; 34; 93]. split; [repeat constructor; unfold scalar; lia|reflexivity].
      * exists []. split; [constructor|reflexivity].
    + exists [104; 10; 34; 92; 233]. split; [repeat constructor; unfold scalar; lia|vm_compute; reflexivity].
  - repeat constructor.
  - assert (P : forall key, Forall (fun c => c <> 34 /\\ c <> 92) key -> skippable_str key) by exact plain_skippable.
    unfold wm_ok, wsb. cbn [wm_m wm_a wm_b wm_c wm_d].
    repeat constructor; try (apply P; repeat constructor; lia); try (intros rest; repeat split; reflexivity); try (cbn; lia);
      try (intros K; reflexivity).
  - cbn [known map wm_m]. repeat constructor; cbn; intuition discriminate.
  - intros k. destruct k; cbn; auto 8.
  - eexists _, _. split; [vm_compute; reflexivity|split; [vm_compute; reflexivity|vm_compute; reflexivity]].
Qed.
(* non-vacuity of the any-order theorem: content first, then sig, tags, id, kind, pubkey, created_at; trailing bytes *)
Example C01_order_example :
  let e := mkE (repeat 1 32) (repeat 2 32) (repeat 3 64) 1 1700000000 [[[101]; [91; 34; 93]]; []; [[]]] [104; 10; 34; 92; 195; 169] in
  let ms := [KContent; KSig; KTags; KId; KKind; KPk; KCreated] in
  wf_event_json e /\\ NoDup ms /\\ (forall k, In k ms) /\\
  exists tj cj, tags_as_json (e_tags e) = Ok tj /\\ json_escape (e_content e) = Ok cj /\\
    event_from_json (event_text e tj cj ms [9; 9]) (repeat 170 (N.to_nat (event_size e) + 3))
    = Ok (len (event_text e tj cj ms [9; 9]) - 2, enc_event e, enc_event e ++ [170; 170; 170]).
Proof.
  cbv zeta. split; [|split; [|split]].
  - unfold wf_event_json. cbn [e_id e_pk e_sig e_kind e_created e_tags e_content].
    assert (R : forall b n, b < 256 -> wf_bytes (repeat b n)) by (intros b n Hb; apply Forall_forall; intros x Hx; apply repeat_spec in Hx; subst x; exact Hb).
    repeat apply conj; try (apply R; lia); try (vm_compute; reflexivity); try lia.
    + repeat constructor.
      * exists [101]. split; [repeat constructor; unfold scalar; lia|reflexivity].
      * exists [91; 34; 93]. split; [repeat constructor; unfold scalar; lia|reflexivity].
      * exists []. split; [constructor|reflexivity].
    + exists [104; 10; 34; 92; 233]. split; [repeat constructor; unfold scalar; lia|vm_compute; reflexivity].
  - repeat constructor; cbn; intuition discriminate.
  - intros k. destruct k; cbn; auto 8.
  - eexists _, _. split; [vm_compute; reflexivity|split; [vm_compute; reflexivity|vm_compute; reflexivity]].
Qed.
Example C01_example :
  read_u64 [49;56;52;52;54;55;52;52;48;55;51;55;48;57;53;53;49;54;49;53;44] = Ok (18446744073709551615, [44]) /\\
  read_u64 [49;56;52;52;54;55;52;52;48;55;51;55;48;57;53;53;49;54;49;54;44] = Err EJson /\\
  read_kind [54;53;53;51;54] = Err EJson.
Proof. vm_compute. repeat split. Qed.
""")

SPECS["C07"] = ("""property C07: filter JSON parsing is faithful, order-independent and round-trips.
   PARTIAL.  Proved: since/until/kinds/limit are read as the numeric value of their digit run, values
   >= 2^64 are errors (limit is then saturated to 2^32-1 by N.min in the model), accepted values fit;
   THE ROUND TRIP: parsing the text Filter::as_json writes gives back byte-for-byte the canonical encoding
   of the same filter (FilterRoundTrip.v: the member loop with its found-bits and letter set, both passes
   over ids/authors/kinds and over every tag array, numbers, the caller's buffer with any prior contents),
   for every filter with distinct tag letters;  ANY MEMBER ORDER and ORDER INDEPENDENCE (FilterAnyOrder.v):
   for every list of distinct members in any order (including explicitly empty arrays and a limit above
   2^32-1), in the library's spelling, the parse is the canonical encoding of the filter they denote, and
   two texts whose members are permutations of each other (tag fields in the same relative order, which is
   the order of the encoded tags) give identical bytes; the member lists may contain ANY NUMBER OF UNKNOWN
   MEMBERS with arbitrary JSON values (skipped, state untouched).  Faithfulness on texts with whitespace,
   alternative escapes and duplicates is decided per run by the differential check (all 52x52 letter
   pairs, member orders, escapes, boundaries; python json as independent parser).""",
  CODIMP + "\nFrom Coq Require Import Permutation.\nFrom Pocket Require Import EscapeRoundTrip JsonRoundTrip FilterRoundTrip JsonSkip FilterAnyOrder Spelling FilterGaps.", [
  ("C07_integer_value_partial",
   "forall l, read_u64 l = let '(ds, rest) := span_digits l in\n    match ds with [] => Err EJson | _ => if num_of ds <=? 18446744073709551615 then Ok (num_of ds, rest) else Err EJson end",
   "read_u64_spec", ""),
  ("C07_int_no_wrap", "forall l v r, read_u64 l = Ok (v, r) -> v < 18446744073709551616", "read_u64_fits", ""),
  ("C07_filter_json_roundtrip_partial",
   "forall f tags txt out, wf_filter_json f tags -> filter_size f <= len out -> filter_as_json f = Ok txt ->\n    filter_from_json txt out = Ok (len txt, enc_filter f, enc_filter f ++ drop (filter_size f) out)",
   "filter_json_roundtrip", "EVERY filter whose tag letters are distinct ASCII letters, whose ids/authors are 32 bytes, kinds < 2^16, numbers within their widths and strings valid UTF-8: Filter::from_json reads Filter::as_json's text back to exactly the canonical binary encoding, consuming the whole text and leaving the rest of the buffer untouched"),
  ("C07_any_member_order",
   "forall ms tail out, members_wf ms -> filter_size (filter_of ms) <= len out ->\n    filter_from_json (members_text ms tail) out\n    = Ok (len (members_text ms tail) - len tail, enc_filter (filter_of ms), enc_filter (filter_of ms) ++ drop (filter_size (filter_of ms)) out)",
   "filter_any_order", "EVERY list of distinct members (ids/authors/kinds arrays incl. empty ones, limit/since/until < 2^64, one field per tag letter, and UNKNOWN members - keys the parser does not know with any JSON value nested up to depth 128) in ANY order, whatever follows the closing brace: the parse consumes exactly the object and writes the canonical encoding of the denoted filter (absent members take the defaults, limit saturates at 2^32-1, tag fields keep their textual order)"),
  ("C07_any_spelling_of_tag_values",
   "forall L cpss pss, is_letter L = true -> Forall2 spelling cpss pss ->\n    tag_ok (L, (map utf8_of cpss, map (@concat N) pss))",
   "tag_ok_any_spelling", "members_wf (the hypothesis of C07_any_member_order) asks of a tag member only tag_ok, which is stated over the semantic relation escd: so the any-order theorem holds for EVERY escape spelling of every tag value - each character literal, a two-character escape, or \\uXXXX in either hex case (Spelling.v)"),
  ("C07_plain_keys_are_unknown",
   "forall k, Forall (fun c => c <> 34 /\\ c <> 92) k -> ~ In k filter_names ->\n    (forall L, is_letter L = true -> k <> [35; L]) -> unknown_fkey k",
   "plain_unknown_fkey", "every key without quote or backslash other than the six names and the #<letter> keys (incl. search, #ee, #1, id, kind) is an unknown member"),
  ("C07_order_independent",
   "forall ms ms' tail tail' out, members_wf ms -> Permutation ms ms' -> tags_of ms = tags_of ms' ->\n    filter_size (filter_of ms) <= len out ->\n    exists c c' enc buf, filter_from_json (members_text ms tail) out = Ok (c, enc, buf) /\\\n                         filter_from_json (members_text ms' tail') out = Ok (c', enc, buf)",
   "filter_order_independent", "two texts with the same members in different orders give the same bytes"),
  ("C07_loop_heads_ignore_gaps",
   "forall g, gap g ->\n    (forall fuel st l, filter_members fuel st (g ++ l) = filter_members fuel st l) /\\\n    (forall fuel l out e n, copy_hex32 fuel (g ++ l) out e n = copy_hex32 fuel l out e n) /\\\n    (forall fuel l out e n, copy_kinds fuel (g ++ l) out e n = copy_kinds fuel l out e n) /\\\n    (forall fuel l out e n, copy_tag_values fuel (g ++ l) out e n = copy_tag_values fuel l out e n)",
   "loop_heads_ignore_gaps", "WHITE SPACE (and commas) AT THE LOOP HEADS, for EVERY text, state and fuel: a run of white space / commas in front of a member or the closing brace (member loop), or in front of an array item or the closing bracket (ids/authors, kinds, tag values), never changes what that loop returns"),
  ("C07_leading_white_space",
   "forall w g r out c enc buf, wsrun w -> gap g ->\n    filter_from_json (123 :: r) out = Ok (c, enc, buf) ->\n    filter_from_json (w ++ 123 :: g ++ r) out = Ok (len w + len g + c, enc, buf)",
   "filter_from_json_leading_gap", "for EVERY filter text the parser accepts (any spelling, not only the library's): white space before the opening brace and white space / commas right after it change neither the encoded filter nor the buffer, and add exactly their length to the consumed count (uses: more fuel never changes an answer, consumption is bounded by the input)"),
  ], """
(* non-vacuity: a text with leading white space and a gap after the brace, against the canonical text *)
Example C07_gap_example :
  let ms := [MUntil 99; MKinds [1; 30023]; MIds [repeat 1 32]] in
  let w := [32; 10; 9; 13] in let g := [32; 44; 10] in
  wsrun w /\\ gap g /\\
  (exists r, members_text ms [7] = 123 :: r /\\
     filter_from_json (w ++ 123 :: g ++ r) (repeat 170 (N.to_nat (filter_size (filter_of ms)) + 3))
     = Ok (len w + len g + (len (members_text ms [7]) - 1), enc_filter (filter_of ms), enc_filter (filter_of ms) ++ [170; 170; 170])).
Proof.
  cbv zeta. refine (conj _ (conj _ _)).
  - repeat constructor.
  - repeat constructor.
  - eexists. split; [reflexivity|]. vm_compute. reflexivity.
Qed.
(* non-vacuity with unknown members: a NIP-50 search member, a two-letter #ee key with a nested value *)
Example C07_unknown_example :
  let te : tagspec := (101, ([[97; 34]; []], [[97; 92; 34]; []])) in
  let u1 := MUnk [115; 101; 97; 114; 99; 104] (JStr [120; 32; 121]) in
  let u2 := MUnk [35; 101; 101] (JArr [JNum [49]; JObj [([107], JNull)]]) in
  let ms := [u1; MUntil 99; MTag te; u2; MKinds [1; 30023]; MIds [repeat 1 32]] in
  members_wf ms /\\
  filter_from_json (members_text ms [1; 2]) (repeat 170 (N.to_nat (filter_size (filter_of ms)) + 3))
  = Ok (len (members_text ms [1; 2]) - 2, enc_filter (filter_of ms), enc_filter (filter_of ms) ++ [170; 170; 170]).
Proof.
  cbv zeta. split.
  - unfold members_wf. refine (conj _ (conj _ _)).
    + assert (R : forall b n, b < 256 -> wf_bytes (repeat b n)) by (intros b n Hb; apply Forall_forall; intros x Hx; apply repeat_spec in Hx; subst x; exact Hb).
      assert (P : forall key, Forall (fun c => c <> 34 /\\ c <> 92) key -> skippable_str key) by exact plain_skippable.
      assert (T : tag_ok (101, ([[97; 34]; []], [[97; 92; 34]; []]))).
      { apply tag_ok0_ok. split; [reflexivity|]. cbn [fst snd]. apply Forall2_cons; [|apply Forall2_cons; [|apply Forall2_nil]].
        - split; [exists [97; 34]; split; [repeat constructor; unfold scalar; lia|reflexivity]|reflexivity].
        - split; [exists []; split; [constructor|reflexivity]|reflexivity]. }
      repeat (first [apply Forall_nil | apply Forall_cons]); try exact T;
      repeat constructor; cbn; try lia; try (apply R; lia); try (apply P; repeat constructor; lia);
        try (intros rest; repeat split; reflexivity); try (intros K; reflexivity).
    + repeat constructor; cbn; intuition discriminate.
    + repeat apply conj; vm_compute; reflexivity.
  - vm_compute. reflexivity.
Qed.
(* non-vacuity of order independence: six members, a saturating limit, trailing bytes after the object *)
Example C07_order_example :
  let te : tagspec := (101, ([[97; 34]; []], [[97; 92; 34]; []])) in
  let tP : tagspec := (80, ([repeat 102 64], [repeat 102 64])) in
  let ms := [MUntil 99; MTag te; MKinds [1; 30023]; MIds [repeat 1 32]; MTag tP; MLimit 5000000000] in
  let ms' := [MTag te; MIds [repeat 1 32]; MLimit 5000000000; MTag tP; MUntil 99; MKinds [1; 30023]] in
  members_wf ms /\\ Permutation ms ms' /\\ tags_of ms = tags_of ms' /\\
  f_limit (filter_of ms) = 4294967295 /\\
  filter_from_json (members_text ms' [1; 2]) (repeat 170 (N.to_nat (filter_size (filter_of ms)) + 3))
  = Ok (len (members_text ms' [1; 2]) - 2, enc_filter (filter_of ms), enc_filter (filter_of ms) ++ [170; 170; 170]).
Proof.
  cbv zeta. refine (conj _ (conj _ (conj eq_refl (conj eq_refl _)))).
  - unfold members_wf. refine (conj _ (conj _ _)).
    + assert (R : forall b n, b < 256 -> wf_bytes (repeat b n)) by (intros b n Hb; apply Forall_forall; intros x Hx; apply repeat_spec in Hx; subst x; exact Hb).
      assert (T : tag_ok (101, ([[97; 34]; []], [[97; 92; 34]; []]))).
      { apply tag_ok0_ok. split; [reflexivity|]. cbn [fst snd]. apply Forall2_cons; [|apply Forall2_cons; [|apply Forall2_nil]].
        - split; [exists [97; 34]; split; [repeat constructor; unfold scalar; lia|reflexivity]|reflexivity].
        - split; [exists []; split; [constructor|reflexivity]|reflexivity]. }
      assert (T2 : tag_ok (80, ([repeat 102 64], [repeat 102 64]))).
      { apply tag_ok0_ok. split; [reflexivity|]. cbn [fst snd]. apply Forall2_cons; [|apply Forall2_nil].
        split; [exists (repeat 102 64); split; [|vm_compute; reflexivity]|vm_compute; reflexivity].
        apply Forall_forall. intros x Hx. apply repeat_spec in Hx. subst x. unfold scalar. lia. }
      repeat (first [apply Forall_nil | apply Forall_cons]); try exact T; try exact T2;
      repeat constructor; cbn; try lia; try (apply R; lia).
    + repeat constructor; cbn; intuition discriminate.
    + repeat apply conj; vm_compute; reflexivity.
  - apply NoDup_Permutation_bis; [repeat constructor; cbn; intuition discriminate|reflexivity|].
    intros x Hx. cbn in Hx |- *. intuition.
  - vm_compute. reflexivity.
Qed.

(* non-vacuity of the filter round trip: two ids, an author, two kinds, a tag with a quote and an empty value, an uppercase tag, since and limit *)
Example C07_filter_example :
  let tags : list tagspec := [(101, ([[97; 34]; []], [[97; 92; 34]; []])); (80, ([repeat 102 64], [repeat 102 64]))] in
  let f := mkF [repeat 1 32; repeat 171 32] [repeat 2 32] [1; 30023] (map tag_of tags) 5 18446744073709551615 10 in
  wf_filter_json f tags /\\ exists txt, filter_as_json f = Ok txt /\\
    filter_from_json txt (repeat 170 (N.to_nat (filter_size f) + 3)) = Ok (len txt, enc_filter f, enc_filter f ++ [170; 170; 170]).
Proof.
  cbv zeta. split.
  - unfold wf_filter_json. cbn [f_ids f_authors f_kinds f_tags f_limit f_since f_until].
    assert (R : forall b n, b < 256 -> wf_bytes (repeat b n)) by (intros b n Hb; apply Forall_forall; intros x Hx; apply repeat_spec in Hx; subst x; exact Hb).
    refine (conj eq_refl (conj _ (conj _ (conj _ (conj _ (conj _ _)))))).
    + repeat constructor.
      * exists [97; 34]. split; [repeat constructor; unfold scalar; lia|reflexivity].
      * exists []. split; [constructor|reflexivity].
      * exists (repeat 102 64). split; [|vm_compute; reflexivity]. apply Forall_forall. intros x Hx. apply repeat_spec in Hx. subst x. unfold scalar. lia.
    + repeat constructor; cbn; intuition discriminate.
    + repeat constructor; try (apply R; lia); vm_compute; reflexivity.
    + repeat constructor; try (apply R; lia); vm_compute; reflexivity.
    + repeat constructor; lia.
    + repeat apply conj; vm_compute; reflexivity.
  - eexists. split; [vm_compute; reflexivity|vm_compute; reflexivity].
Qed.
""")

SPECS["C02"] = ("""property C02: event binary <-> JSON round trip is lossless and the binary form is canonical.
   PARTIAL.  Proved: the hex half of the round trip (read_hex (write_hex b) = b for ids, pubkeys,
   signatures); the STRING half for every valid UTF-8 string (json_unescape reads json_escape's output
   back to the same bytes, and a \\uXXXX spelling reads like the character itself); THE WHOLE EVENT: parsing
   the text Event::as_json writes gives back byte-for-byte the canonical encoding (JsonRoundTrip.v: hex fields,
   numbers, the tag array with its counting and reading passes, the content, all seven members, the
   caller's buffer with any prior contents); the binary encoding is a
   function of the seven field values alone (Ctor/Access theorems of C19: from_parts writes exactly
   enc_event e and every accessor returns the field).  Losslessness through json_escape/json_unescape
   and canonicity across texts are decided per run by the differential check (5 texts per event,
   3 buffer fills, from_parts, python json on as_json's output, byte equality).""",
  CODIMP + "\nFrom Pocket Require Import Ctor CtorProofs Access EscapeRoundTrip JsonRoundTrip JsonSkip TagsWs EventAnyOrder Spelling.", [
  ("C02_hex_roundtrip_partial", "forall bs, wf_bytes bs -> read_hex (write_hex bs) (len bs) = Ok bs", "read_write_hex", ""),
  ("C02_binary_form_is_function_of_fields_partial",
   "forall e out, wf_aevent e -> fits_event e -> event_size e <= len out ->\n    exists b, event_from_parts e out = Ok b /\\ take (event_size e) b = enc_event e /\\ drop (event_size e) b = drop (event_size e) out /\\\n              len b = len out /\\ ev_delineate b = Ok (enc_event e) /\\ event_accessors_ok e (enc_event e)",
   "event_ctor_faithful", "independent of the buffer's prior contents"),
  ("C02_event_json_roundtrip",
   "forall e txt out, wf_event_json e -> event_size e <= len out -> event_as_json e = Ok txt ->\n    event_from_json txt out = Ok (len txt, enc_event e, enc_event e ++ drop (event_size e) out)",
   "event_json_roundtrip", "EVERY well-formed event (valid UTF-8 strings, any tag shapes incl. empty tags and empty strings, fields within their widths), every caller buffer of sufficient size with ANY prior contents: parsing the text Event::as_json writes consumes it entirely and writes exactly the canonical binary encoding of the same seven field values, leaving the rest of the buffer untouched"),
  ("C02_binary_form_independent_of_member_order",
   "forall e tj cj ms ms' tail tail' out, wf_event_json e -> tags_as_json (e_tags e) = Ok tj -> json_escape (e_content e) = Ok cj ->\n    NoDup ms -> (forall k, In k ms) -> NoDup ms' -> (forall k, In k ms') -> event_size e <= len out ->\n    exists c c', event_from_json (event_text e tj cj ms tail) out = Ok (c, enc_event e, enc_event e ++ drop (event_size e) out) /\\\n                 event_from_json (event_text e tj cj ms' tail') out = Ok (c', enc_event e, enc_event e ++ drop (event_size e) out)",
   "event_order_independent", "CANONICITY across member orders: two texts of the same event with the seven members in different orders (any two of the 5040), whatever follows the closing brace, parse to byte-identical binary events"),
  ("C02_binary_form_independent_of_white_space",
   "forall e tj cj w0 ms tail w0' ms' tail' out, wf_event_json e -> tags_as_json (e_tags e) = Ok tj -> json_escape (e_content e) = Ok cj ->\n    wsb w0 -> Forall wm_ok ms -> NoDup (known (map wm_m ms)) -> (forall k, In k (known (map wm_m ms))) ->\n    wsb w0' -> Forall wm_ok ms' -> NoDup (known (map wm_m ms')) -> (forall k, In k (known (map wm_m ms'))) ->\n    event_size e <= len out ->\n    exists c c', event_from_json (event_text_w e tj cj w0 ms tail) out = Ok (c, enc_event e, enc_event e ++ drop (event_size e) out) /\\\n                 event_from_json (event_text_w e tj cj w0' ms' tail') out = Ok (c', enc_event e, enc_event e ++ drop (event_size e) out)",
   "event_ws_independent", "CANONICITY across member order, unknown members AND white space between the tokens of the object: any two such texts of one event parse to byte-identical binary events"),
  ("C02_binary_form_independent_of_spelling",
   "forall e tes cj w0 ms tail tes' cj' w0' ms' tail' out, wf_event_json e ->\n    Forall2 (Forall2 escd) (e_tags e) tes -> escd (e_content e) cj ->\n    wsb w0 -> Forall wm_ok ms -> NoDup (known (map wm_m ms)) -> (forall k, In k (known (map wm_m ms))) ->\n    Forall2 (Forall2 escd) (e_tags e) tes' -> escd (e_content e) cj' ->\n    wsb w0' -> Forall wm_ok ms' -> NoDup (known (map wm_m ms')) -> (forall k, In k (known (map wm_m ms'))) ->\n    event_size e <= len out ->\n    exists c c', event_from_json (event_text_s e tes cj w0 ms tail) out = Ok (c, enc_event e, enc_event e ++ drop (event_size e) out) /\\\n                 event_from_json (event_text_s e tes' cj' w0' ms' tail') out = Ok (c', enc_event e, enc_event e ++ drop (event_size e) out)",
   "event_spelling_independent", "CANONICITY, general form: any two texts of one event - whatever escape spelling each tag string and the content has in either (Spelling.v), whatever the member order, unknown members and white space between the tokens of the object - parse to byte-identical binary events"),
  ("C02_binary_form_canonical_over_the_full_grammar",
   "forall e w1 wtes cj w0 ms tail w1' wtes' cj' w0' ms' tail' out, wf_event_json e ->\n    wsb w1 -> Forall2 wtag_ok (e_tags e) wtes -> escd (e_content e) cj ->\n    wsb w0 -> Forall wm_ok ms -> NoDup (known (map wm_m ms)) -> (forall k, In k (known (map wm_m ms))) ->\n    wsb w1' -> Forall2 wtag_ok (e_tags e) wtes' -> escd (e_content e) cj' ->\n    wsb w0' -> Forall wm_ok ms' -> NoDup (known (map wm_m ms')) -> (forall k, In k (known (map wm_m ms'))) ->\n    event_size e <= len out ->\n    exists c c', event_from_json (event_text_T e (wtags_body w1 wtes) cj w0 ms tail) out = Ok (c, enc_event e, enc_event e ++ drop (event_size e) out) /\\\n                 event_from_json (event_text_T e (wtags_body w1' wtes') cj' w0' ms' tail') out = Ok (c', enc_event e, enc_event e ++ drop (event_size e) out)",
   "event_full_grammar_canonical", "CANONICITY over the full grammar: ANY two JSON texts of one event (member order, unknown members, escape spellings, white space everywhere incl. inside the tags array) parse to byte-identical binary events"),
  ("C02_tags_json_roundtrip",
   "forall ts tj tail F, JsonRoundTrip.valid_tags ts -> fits_tags ts -> tags_size ts <= len F ->\n    tags_as_json ts = Ok tj -> tags_from_json (tj ++ tail) F = Ok (len tj, enc_tags ts)",
   "tags_json_roundtrip", "Tags::from_json after Tags::as_json, whatever follows the text"),
  ("C02_string_roundtrip",
   "forall s e rest cap, valid_utf8 s -> json_escape s = Ok e -> len s <= cap ->\n    json_unescape (e ++ 34 :: rest) cap = Ok (len e, s)",
   "escape_unescape_roundtrip", "every valid UTF-8 string (shortest-form encodings of Unicode scalar values), whatever follows the closing quote"),
  ("C02_valid_strings_always_serialize", "forall s, valid_utf8 s -> exists e, json_escape s = Ok e", "json_escape_succeeds_on_valid", ""),
  ("C02_choice_of_escape_irrelevant",
   "forall fuel r consumed acc wp cap c, c < 65536 -> (c < 55296 \\/ 57344 <= c) -> wp + len (enc c) <= cap ->\n    unescape_fuel (6 + fuel) UNormal ([92; 117] ++ hex4 c ++ r) consumed acc wp cap\n    = unescape_fuel fuel UNormal r (consumed + 6) (rev_append (enc c) acc) (wp + len (enc c)) cap",
   "un_u4", "a \\uXXXX escape of any non-surrogate code point is read exactly as that code point's UTF-8 bytes would be"),
  ], """(* non-vacuity: control character, quote, backslash, 2-, 3- and 4-byte characters *)
Example C02_roundtrip_example :
  let cps := [104; 10; 34; 92; 1; 233; 8364; 128512] in
  Forall scalar cps /\\
  json_unescape (flat_map esc1 cps ++ 34 :: [1; 2; 3]) 64 = Ok (len (flat_map esc1 cps), utf8_of cps).
Proof. exact roundtrip_sample. Qed.
(* non-vacuity of the event round trip: a nested-looking tag, an empty tag, a tag with an empty string, escapes in the content *)
Example C02_event_example :
  let e := mkE (repeat 1 32) (repeat 2 32) (repeat 3 64) 1 1700000000 [[[101]; [91; 34; 93]]; []; [[]]] [104; 10; 34; 92; 195; 169] in
  wf_event_json e /\\ exists txt, event_as_json e = Ok txt /\\
    event_from_json txt (repeat 170 (N.to_nat (event_size e) + 3)) = Ok (len txt, enc_event e, enc_event e ++ [170; 170; 170]).
Proof.
  cbv zeta. split.
  - unfold wf_event_json. cbn [e_id e_pk e_sig e_kind e_created e_tags e_content].
    assert (R : forall b n, b < 256 -> wf_bytes (repeat b n)) by (intros b n Hb; apply Forall_forall; intros x Hx; apply repeat_spec in Hx; subst x; exact Hb).
    repeat apply conj; try (apply R; lia); try (vm_compute; reflexivity); try lia.
    + repeat constructor.
      * exists [101]. split; [repeat constructor; unfold scalar; lia|reflexivity].
      * exists [91; 34; 93]. split; [repeat constructor; unfold scalar; lia|reflexivity].
      * exists []. split; [constructor|reflexivity].
    + exists [104; 10; 34; 92; 233]. split; [repeat constructor; unfold scalar; lia|vm_compute; reflexivity].
  - eexists. split; [vm_compute; reflexivity|vm_compute; reflexivity].
Qed.
""")

SPECS["C08"] = ("""property C08: event verification accepts exactly correctly hashed and signed events.
   PARTIAL.  The canonical serialisation hashed by verify/sign_new is the Coq function Codec.canon
   ([0,"<pubkey hex>",<created_at>,<kind>,<tags>,"<content>"], json_escape spellings); proved: it is
   total for every event, succeeds on every well-formed one, and is INJECTIVE in the five hashed fields
   (so every single-field mutation changes the hashed text).  That
   SHA-256(canon) is the id the library computes, that verify accepts signed events and rejects every
   single-field mutation, is decided per run against python's hashlib and the real secp256k1
   (SHA-256 collision resistance and BIP-340 unforgeability are assumptions, not theorems).""",
  CODIMP + "\nFrom Pocket Require Import CanonProofs EscapeRoundTrip CanonInj.", [
  ("C08_canon_total_partial", "forall e, canon e <> OutOfFuel", "canon_no_fuel", ""),
  ("C08_escape_total", "forall l, json_escape l <> Panic /\\ json_escape l <> OutOfFuel", "json_escape_total", ""),
  ("C08_canon_shape_partial",
   "forall e tj cj, tags_as_json (e_tags e) = Ok tj -> json_escape (e_content e) = Ok cj ->\n    canon e = Ok ([91; 48; 44; 34] ++ write_hex (e_pk e) ++ [34; 44] ++ dec (e_created e) ++ [44] ++ dec (e_kind e)\n                  ++ [44] ++ tj ++ [44; 34] ++ cj ++ [34; 93])",
   "canon_shape", "the NIP-01 array, no whitespace"),
  ("C08_escape_injective",
   "forall s1 s2 e, valid_utf8 s1 -> valid_utf8 s2 -> json_escape s1 = Ok e -> json_escape s2 = Ok e -> s1 = s2",
   "json_escape_injective", "two different valid strings never have the same canonical spelling: the hash input determines content and tag strings"),
  ("C08_canon_determines_fields",
   "forall e1 e2 c, canon_wf e1 -> canon_wf e2 -> canon e1 = Ok c -> canon e2 = Ok c ->\n    e_pk e1 = e_pk e2 /\\ e_created e1 = e_created e2 /\\ e_kind e1 = e_kind e2 /\\ e_tags e1 = e_tags e2 /\\ e_content e1 = e_content e2",
   "canon_injective", "the hashed text is an injective function of (pubkey, created_at, kind, tags incl. their structure, content)"),
  ("C08_mutation_changes_hashed_text",
   "forall e1 e2 c1 c2, canon_wf e1 -> canon_wf e2 -> canon e1 = Ok c1 -> canon e2 = Ok c2 ->\n    (e_pk e1 <> e_pk e2 \\/ e_created e1 <> e_created e2 \\/ e_kind e1 <> e_kind e2 \\/ e_tags e1 <> e_tags e2 \\/ e_content e1 <> e_content e2) -> c1 <> c2",
   "canon_mutation_changes_text", "every mutation of a hashed field gives a different text; that its SHA-256 differs is collision resistance (assumed)"),
  ("C08_canon_succeeds", "forall e, canon_wf e -> exists c, canon e = Ok c", "canon_succeeds", "no panic in the hashing path for well-formed events"),
  ], """(* non-vacuity: a well-formed event with a nested-looking tag, an empty tag and escapes *)
Example C08_example :
  let e := mkE (repeat 1 32) (repeat 2 32) (repeat 3 64) 1 1700000000 [[[101]; [91; 34; 93]]; []; [[]]] [104; 10; 34; 92; 195; 169] in
  canon_wf e /\\ exists c, canon e = Ok c /\\ 80 < len c.
Proof.
  cbv zeta. split.
  - unfold canon_wf. cbn [e_pk e_created e_kind e_tags e_content]. repeat apply conj; try (vm_compute; reflexivity); try lia.
    + apply wf_bytesb_iff. vm_compute. reflexivity.
    + repeat constructor.
      * exists [101]. split; [repeat constructor; unfold scalar; lia|reflexivity].
      * exists [91; 34; 93]. split; [repeat constructor; unfold scalar; lia|reflexivity].
      * exists []. split; [constructor|reflexivity].
    + exists [104; 10; 34; 92; 233]. split; [repeat constructor; unfold scalar; lia|vm_compute; reflexivity].
  - eexists. split; [vm_compute; reflexivity|vm_compute; reflexivity].
Qed.
""")

SPECS["C13"] = ("""property C13: killing the process at any instant leaves a consistent, reopenable store.
   Persistent-step model (Crash.v): what survives a kill is every byte already written, set_len,
   and every COMMITTED transaction.  Proved: every state a kill inside store_event can leave has the
   committed tables of before or of after the call (never a mixture), a log that only grew, and a
   well-formed log (every index entry points below the end marker at a whole event); removal is
   before-or-after; every state on the way through a vanish is reached by whole removals over the same
   log; every interruption of store creation recovers to the empty store with the marker after the
   header.  Subsequent operations behave as on a never-interrupted store because every other theorem
   assumes only these invariants.  BYTE LEVEL (LogBytes.v): the file a kill leaves inside store_event -
   after the padding, after ANY number of growth steps, with ANY prefix of the event copied beyond the
   marker (the copy is not atomic) - reopens to a store that holds exactly the events it held, at their
   offsets, byte for byte: the object-level crash state pad_only s; an interrupted creation of any length
   (file shorter than the marker, or sized with a marker below 8) recovers to the empty store.
   PARTIAL for what a Gallina model cannot exhibit: LMDB's own commit
   atomicity and lock recovery, the page cache keeping dirty shared pages of a killed process.""",
  "From Pocket Require Import Db DbProofs Crash CrashProofs LogBytes LogBytesProofs.", [
  ("C13_store_crash_atomic",
   "forall s e r, log_inv s -> In r (crash_states_store s e) ->\n    (committed r = committed s \\/ committed r = committed (fst (store_event s e))) /\\\n    log_extends s r /\\ log_inv r /\\ log_end r <= log_end (fst (store_event s e))",
   "crash_store_atomic", "every kill point of the write path: before/after padding, mid-copy, before/after the marker update, growth, before/after commit"),
  ("C13_remove_crash_atomic", "forall s id r, In r (crash_states_remove s id) -> r = s \\/ r = fst (remove_event s id)", "crash_remove_atomic", ""),
  ("C13_vanish_crash_prefix", "forall ids s r, In r (remove_events_trace s ids) -> log r = log s /\\ log_end r = log_end s", "remove_events_trace_log", "a subset of the targets may be gone, nothing else"),
  ("C13_create_crash_recovers", "forall names c, recover_create names c = db_init names", "crash_create_recovers", "incl. the file sized but its marker never written"),
  ("C13_log_inv_reachable", "forall ops s, log_extends s (c_run ops s) /\\ (log_inv s -> log_inv (c_run ops s))", "c_run_log", "the invariant the recovered store satisfies is preserved by all later operations"),
  ("C13_torn_store_recovers_bytes",
   "forall chunk m lg E b g k t, 0 < chunk -> chunk mod 8 = 0 -> R m lg E ->\n    len (file m) + N.of_nat g * chunk < B64 ->\n    torn_file chunk m b g k = Some t ->\n    align8 E + len (take k b) <= len (file m) + N.of_nat g * chunk ->\n    R (es_open chunk t) lg (align8 E)\n    /\\ forall off x, In (off, x) lg -> off < E -> es_get (es_open chunk t) off = Ok (enc_event x)",
   "torn_store_recovers", "t = the file after padding, g growth steps and k bytes of the event copied beyond the marker, for every g and k (room for the k bytes is what the append checked)"),
  ("C13_torn_store_is_pad_only",
   "forall chunk m s b g k t, 0 < chunk -> chunk mod 8 = 0 -> Rdb m s ->\n    len (file m) + N.of_nat g * chunk < B64 -> torn_file chunk m b g k = Some t ->\n    align8 (log_end s) + len (take k b) <= len (file m) + N.of_nat g * chunk ->\n    Rdb (es_open chunk t) (pad_only s)",
   "torn_store_is_pad_only", "ties the byte level to the object-level crash states of Crash.v"),
  ("C13_crash_files_recover",
   "forall chunk m lg E e t, 0 < chunk -> chunk mod 8 = 0 -> R m lg E -> wf_aevent e -> fits_event e ->\n    len (file m) + event_size e + chunk < B64 ->\n    In t (crash_files chunk m (enc_event e)) ->\n    R (es_open chunk t) lg E \\/ R (es_open chunk t) lg (align8 E)\n    \\/ R (es_open chunk t) ((align8 E, e) :: lg) (align8 E + event_size e)",
   "crash_files_recover", "crash_files is the list of files the correspondence check compares the killed process's file with (one per hook point of the write path: untouched, padded, after each growth step, half copied, fully copied, marker moved): each reopens to the store before, the padded store, or the store after the append"),
  ("C13_create_crash_recovers_bytes",
   "forall chunk, 8 <= chunk ->\n    es_open chunk (zeros chunk) = es_open chunk []\n    /\\ es_open chunk (file (es_open chunk [])) = es_open chunk []",
   "create_crash_recovers", "killed after set_len but before the marker was written / after it: the same fresh map"),
  ("C13_interrupted_creation_any_length",
   "forall chunk f, 8 <= chunk -> chunk mod 8 = 0 -> chunk < B64 ->\n    len f < 8 \\/ get_end f < 8 -> R (es_open chunk f) [] HEADER",
   "es_open_interrupted", "the repair f32ffdc: a file of ANY length whose marker is below the header is treated as new"),
  ], "")

SPECS["C15"] = ("""property C15: event references stay valid and unchanged while the store lives.
   PARTIAL + KNOWN FINDING.  The logical half is proved: the bytes at a returned offset never
   change (append-only log).  The address half is FALSE of the faithful model: MmapAppend::resize
   remaps with may_move(true), so a growth step may relocate the mapping and every reference taken
   before it dangles (refs_move_witness).  The property is therefore stated for histories outside
   the known class (no growth step relocates the mapping); any other way a reference changes is
   still a violation.""",
  "From Pocket Require Import Db DbProofs Refs LogBytes LogBytesProofs.", [
  ("C15_bytes_immutable_in_the_file",
   "forall chunk m lg E e off x, 0 < chunk -> chunk mod 8 = 0 -> R m lg E -> wf_aevent e -> fits_event e ->\n    len (file m) + event_size e + chunk < B64 -> In (off, x) lg -> off < E ->\n    forall m' o, es_store chunk m (enc_event e) = Ok (m', o) ->\n    es_get m' off = es_get m off /\\ es_get m off = Ok (enc_event x) /\\ o <> off",
   "es_store_keeps", "byte level (LogBytes.v): a store - padding, any number of growth steps, the copy, the marker update - changes no byte of any event stored before it and never hands out its offset again; what a reference denotes can only change by the mapping MOVING (the known finding), never by its bytes changing"),
  ("C15_bytes_immutable",
   "forall s off e ops, get_event_by_offset s off = Ok e -> get_event_by_offset (c_run ops s) off = Ok e",
   "readback_forever", "whatever is stored afterwards, by any operation"),
  ("C15_stable_unless_moved",
   "forall steps m off, known_class steps = false -> ref_addr (m_run steps m) off = ref_addr m off",
   "refs_stable_unless_moved", "forall history, ~ KnownClass history -> the reference keeps its address"),
  ("C15_known_class_refuted",
   "exists steps m off, known_class steps = true /\\ ref_addr (m_run steps m) off <> ref_addr m off",
   "refs_move_witness", "the exclusion is provably non-empty: the property as stated is false when the kernel relocates the mapping"),
  ], "")

SPECS["C14"] = ("""property C14: concurrent stores serialize; concurrent queries see only whole committed states.
   Two-step interleaving model (Conc.v): a writer acquires the single write lock (blocking while it is
   held) and later applies its whole operation, commits and releases; a reader takes a snapshot and
   later answers from it; a schedule is ANY list of thread ids.  Proved for every schedule and every
   set of thread programs: the responses recorded at the linearization points (commit step of writers,
   snapshot step of readers) are exactly those of executing the operations one at a time in that order,
   and the final shared state is that sequential execution's final state; the shared state changes only
   at a writer's commit step; everything a snapshot can reach stays readable in every later state.
   PARTIAL for what the model cannot exhibit: the memory model, LMDB's reader table, the remap hazard
   (C15's known finding; schedules stay below one growth step).""",
  "From Pocket Require Import Db DbProofs Conc ConcProofs.", [
  ("C14_linearizable",
   "forall now s0 progs sched, let g := exec now sched (g_init s0 progs) in\n    replay now s0 (g_lin g) = (g_db g, map (fun x => snd x) (g_lin g))",
   "exec_linearizable", "any number of threads, any programs, any schedule"),
  ("C14_state_changes_only_at_commit",
   "forall now g tid, g_db (step now g tid) <> g_db g ->\n    exists t o, nth_error (g_threads g) tid = Some t /\\ th_cur t = Some (o, None)",
   "step_state_changes_only_at_commit", "a reader never observes a partially applied store: there is none"),
  ("C14_snapshot_bytes_stay_readable",
   "forall s off e ops, get_event_by_offset s off = Ok e -> get_event_by_offset (c_run ops s) off = Ok e",
   "snapshot_bytes_stay_readable", "an index entry a reader holds never leads to unreadable bytes"),
  ], "")
