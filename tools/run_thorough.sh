#!/bin/bash
# tools/run_thorough.sh [props...]: the thorough tier of every (or the given) property, one line each
props=${@:-$(seq -f "C%02g" 1 20)}
for p in $props; do
  s=$(date +%s); out=$(./check $p --tier thorough 2>&1 | grep -E "VIOLATION|KNOWN-FINDING|thorough:" | cut -c1-300 | tr '\n' ' '); e=$(date +%s)
  echo "$p $((e-s))s: $out"
done
