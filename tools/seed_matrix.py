#!/usr/bin/env python3
"""tools/seed_matrix.py [seed...]: apply every /verif/seeded/<id>/patch.diff to /repo in turn, run the quick check of its own
property (plus any property already recorded in caught_by, plus extras given as <seed>:<prop>), restore /repo, and record which
checks reported a violation in meta.json (caught_by) and seeded/MATRIX.md."""
import json, os, subprocess, sys, re
root = "/verif/seeded"
EXTRA = {"C15-a": ["C14"], "C10-a": ["C14"], "C10-c": ["C14"], "C11-c": ["C14"]}
seeds = sorted(d for d in os.listdir(root) if os.path.isdir(os.path.join(root, d)))
if len(sys.argv) > 1:
    seeds = [s for s in seeds if s in sys.argv[1:]]
rows = []
for s in seeds:
    d = os.path.join(root, s)
    meta = json.load(open(os.path.join(d, "meta.json")))
    props = [meta["property"]] + [p for p in (meta.get("caught_by") or []) + EXTRA.get(s, []) if p != meta["property"]]
    props = list(dict.fromkeys(re.match(r"C\d\d", p).group(0) for p in props))
    assert subprocess.run(["git", "-C", "/repo", "status", "--short"], capture_output=True, text=True).stdout.strip() == "", "/repo dirty"
    assert subprocess.run(["git", "-C", "/repo", "apply", os.path.join(d, "patch.diff")]).returncode == 0, s
    caught, lines = [], {}
    try:
        for p in props:
            r = subprocess.run(["./check", p, "--tier", "quick", "--skip-proof"], cwd="/verif", capture_output=True, text=True, timeout=1800)
            v = [l for l in r.stdout.splitlines() if l.startswith("VIOLATION")]
            lines[p] = (r.returncode, v[:1])
            if r.returncode == 1 and v:
                caught.append(p)
    finally:
        subprocess.run(["git", "-C", "/repo", "checkout", "--", "."])
    old = meta.get("caught_by") or []
    if any(" " in x for x in old):
        meta["caught_notes"] = old
    meta["caught_by"] = caught
    meta["checked_with"] = {p: {"exit": lines[p][0], "line": (lines[p][1] or [""])[0]} for p in lines}
    json.dump(meta, open(os.path.join(d, "meta.json"), "w"), indent=1)
    rows.append((s, meta["property"], props, caught))
    print(s, "own" if meta["property"] in caught else "NOT-OWN", caught, flush=True)
# MATRIX.md is always rebuilt from every meta.json
allseeds = sorted(d for d in os.listdir(root) if os.path.isdir(os.path.join(root, d)))
with open(os.path.join(root, "MATRIX.md"), "w") as f:
    f.write("| seed | property | quick checks run | reported VIOLATION |\n|---|---|---|---|\n")
    for s in allseeds:
        meta = json.load(open(os.path.join(root, s, "meta.json")))
        f.write("| %s | %s | %s | %s |\n" % (s, meta["property"], " ".join(meta.get("checked_with", {})), " ".join(meta.get("caught_by") or []) or "none"))
