#!/bin/bash
# tools/try_patch.sh [-R] <patch-or-commit> <prop>...  : apply a change to /repo, run the quick checks, restore /repo
rev=""
if [ "$1" = "-R" ]; then rev="-R"; shift; fi
what=$1; shift
tag=$(echo "$what" | sed 's|/OUT/patch.diff||; s|.*/||')
cd /repo
if [ -f "$what" ]; then git apply $rev "$what" || exit 2; else git diff "$what~1" "$what" | git apply -R || exit 2; fi
cd /verif
for p in "$@"; do timeout 1200 ./check $p --tier quick --skip-proof 2>&1 | grep -E "VIOLATION|KNOWN|violation" | sed "s|^|[$tag] |"; done
git -C /repo checkout -- . ; git -C /repo status --short | head -3
